#!/usr/bin/env python3
"""Regenerate lsv/known_fns.txt: the functions and methods of the analysed crate that the rule tables were written
against.  Run on the reference tree only (python3 tools/gen_known_fns.py [/repo])."""
import os, sys
sys.path.insert(0, os.path.join(os.path.dirname(os.path.abspath(__file__)), ".."))
os.environ["LSV_NO_INLINE"] = "1"
from lsv import facts, inline
repo = sys.argv[1] if len(sys.argv) > 1 else "/repo"
F = facts.extract_core(repo, True)
ids = sorted(b.id for b in F.bodies.values() if b.kind in ("fn", "method"))
with open(inline.KNOWN_FILE, "w") as fh:
    fh.write("# functions and methods of lucid_suggest_core known to the rule tables (tools/gen_known_fns.py)\n")
    for i in ids:
        fh.write(i + "\n")
print(len(ids), "functions")
