"""Thorough tier: checker validation for one property (never a verdict on /repo).

Applies, to scratch copies under $TMPDIR, (a) every corpus entry whose `expect` names the property, (b) every benign
corpus entry, (c) every seeded change under seeded/ that breaks the property, and re-runs only this property's rules on
each copy.  Records fired / missed / false alarms.  For C01 additionally counts clippy restriction lints as a
cross-reference (never an alarm)."""
import json, os, re, shutil, subprocess, sys, tempfile, threading
from concurrent.futures import ThreadPoolExecutor

HERE = os.path.dirname(os.path.dirname(os.path.abspath(__file__)))
sys.path.insert(0, HERE)
from tools import mutate


def run(prop, jobs=8):
    from mutants.corpus import CORPUS
    entries = [e for e in CORPUS if e.get("benign") or prop in e.get("expect", {})]
    seeds = []
    benign_seeds = []
    known_imprecision = []
    sd = os.path.join(HERE, "seeded")
    if os.path.isdir(sd):
        for d in sorted(os.listdir(sd)):
            mp = os.path.join(sd, d, "meta.json")
            if os.path.exists(mp):
                m = json.load(open(mp))
                if m.get("breaks_property") == prop:
                    seeds.append((d, os.path.join(sd, d, "patch.diff")))
                elif m.get("benign") and m.get("expected_alarm"):
                    known_imprecision.append(d)        # documented heavy rewrite that still alarms somewhere (DESIGN §8.2 / §10)
                elif m.get("benign") and not (isinstance(m.get("still_alarming"), dict) and prop in m["still_alarming"]):
                    # behaviour-preserving refactorings: this property's rules must stay silent on them
                    benign_seeds.append((d, os.path.join(sd, d, "patch.diff")))
    slots = list(range(jobs))
    lock = threading.Lock()
    results = []

    def do_entry(e):
        with lock:
            s = slots.pop()
        root = tempfile.mkdtemp(prefix="lsv-st-")
        try:
            if not mutate.make_copy(e, root):
                return (e["id"], "skipped", [])
            r = mutate.run_checks(root, [prop], os.path.join(tempfile.gettempdir(), "lsv-stwork-%d" % s))[prop]
            if e.get("benign"):
                return (e["id"], "silent" if r["rc"] == 0 else ("false-alarm" if r["rc"] == 1 else "error"), r["keys"])
            want = e["expect"][prop]
            ok = r["rc"] == 1 and all(any(w in k for k in r["keys"]) for w in want)
            return (e["id"], "fired" if ok else ("missed" if r["rc"] != 2 else "error"), r["keys"])
        finally:
            shutil.rmtree(root, ignore_errors=True)
            with lock:
                slots.append(s)

    def do_seed(sp):
        name, patch = sp
        with lock:
            s = slots.pop()
        root = tempfile.mkdtemp(prefix="lsv-st-")
        try:
            if not mutate.apply_patch_copy(patch, root):
                return ("seed:" + name, "skipped", [])
            r = mutate.run_checks(root, [prop], os.path.join(tempfile.gettempdir(), "lsv-stwork-%d" % s))[prop]
            return ("seed:" + name, "fired" if r["rc"] == 1 else ("missed" if r["rc"] == 0 else "error"), r["keys"])
        finally:
            shutil.rmtree(root, ignore_errors=True)
            with lock:
                slots.append(s)

    def do_benign_seed(sp):
        name, patch = sp
        with lock:
            s = slots.pop()
        root = tempfile.mkdtemp(prefix="lsv-st-")
        try:
            if not mutate.apply_patch_copy(patch, root):
                return ("seed:" + name, "skipped", [])
            r = mutate.run_checks(root, [prop], os.path.join(tempfile.gettempdir(), "lsv-stwork-%d" % s))[prop]
            return ("seed:" + name, "silent" if r["rc"] == 0 else ("false-alarm" if r["rc"] == 1 else "error"), r["keys"])
        finally:
            shutil.rmtree(root, ignore_errors=True)
            with lock:
                slots.append(s)

    with ThreadPoolExecutor(max_workers=jobs) as ex:
        results.extend(ex.map(do_entry, entries))
        results.extend(ex.map(do_seed, seeds))
        results.extend(ex.map(do_benign_seed, benign_seeds))
    for s in range(jobs):
        shutil.rmtree(os.path.join(tempfile.gettempdir(), "lsv-stwork-%d" % s), ignore_errors=True)
    out = {
        "breaking_edits": sum(1 for r in results if r[1] in ("fired", "missed")),
        "fired": sum(1 for r in results if r[1] == "fired"),
        "missed": [r[0] for r in results if r[1] == "missed"],
        "benign_edits": sum(1 for r in results if r[1] in ("silent", "false-alarm")),
        "false_alarms": [r[0] for r in results if r[1] == "false-alarm"],
        "skipped": [r[0] for r in results if r[1] == "skipped"],
        "known_imprecision_not_run": len(known_imprecision),
        "errors": [r[0] for r in results if r[1] == "error"],
        "entries": [{"id": r[0], "result": r[1], "keys": r[2][:4]} for r in results],
    }
    if prop == "C01":
        out["clippy_cross_reference"] = clippy_counts()
    return out


def clippy_counts():
    repo = os.environ.get("LSV_REPO", "/repo")
    env = dict(os.environ)
    env["CARGO_NET_OFFLINE"] = "true"
    env["CARGO_TARGET_DIR"] = os.path.join(HERE, ".work", "tgt-clippy")
    lints = ["arithmetic_side_effects", "indexing_slicing", "cast_sign_loss", "unwrap_used", "panic"]
    cmd = ["cargo", "+nightly", "clippy", "--offline", "--lib", "--"] + sum((["-W", "clippy::" + l] for l in lints), [])
    # touch nothing in the repo: clippy only reads
    try:
        r = subprocess.run(cmd, cwd=os.path.join(repo, "rust", "core"), env=env, stdout=subprocess.PIPE, stderr=subprocess.STDOUT,
                           text=True, timeout=600)
    except Exception as e:
        return {"error": repr(e)}
    counts = {}
    for l in lints:
        counts[l] = len(re.findall(r"clippy::%s\b" % l, r.stdout)) and len(re.findall(r"#\[warn\(clippy::%s\)\]|= help: for further information visit .*#%s" % (l, l), r.stdout))
    counts["note"] = "cross-reference only (lint hits, not verdicts); rc=%d" % r.returncode
    return counts


if __name__ == "__main__":
    print(json.dumps(run(sys.argv[1]), indent=1)[:4000])
