"""Per-property texts for MANIFEST.json."""
NOTE = ("Trusted: rustc nightly's MIR construction/type resolution as dumped by /verif/driver; the rule "
        "implementations in /verif/lsv. Analysed: lucid-suggest-core's non-test library code (dev profile, "
        "overflow checks on). The runtime-quantified remainder listed in DESIGN.md §5 is not decided.")

NOT_APPLICABLE = {
    "C13": "whether the full title or two swapped words are found depends on the greedy, order-preserving word "
           "assignment for the particular title (runtime values); every gate constant is slack for exact word "
           "matches, so no structural necessary condition is specific to C13 (DESIGN.md §5 C13)",
}

TEXTS = {
    "C03": {"technique": "static analysis: gate constants located by data-flow in MIR, CFG polarity, rational/IEEE bound check",
            "text": "Decides necessary constants/shapes only: Jaccard gate accepts 1/2, length and DL gates accept 0, "
                    "gram iterator starts at width 1, index writer/reader share one gram generator, candidate cap >= limit, "
                    "record side clipped to the typed length for an unfinished word. A violated obligation names the "
                    "gate/constructor and the prefix query that is lost; stemmer/scan-order behaviour is not decided.",
            "note": NOTE},
    "C04": {"technique": "static analysis: gate/cost constants by data-flow role in MIR, worst-case obligations in IEEE doubles",
            "text": "Decides necessary constants only (n=5 worst cases): length gate accepts 1-5/6, Jaccard gate accepts 1/2, "
                    "DL gate accepts c/5 for every edit-cost constant c, all costs <= 1, tolerance of prefix-pair lengths >= 1; "
                    "gate shapes are confirmed first (fail closed). The DP itself and the shared-gram argument are not decided.",
            "note": NOTE},
    "C05": {"technique": "static analysis: integer gate |qslice-rslice| located by data-flow, polarity from CFG reachability of new_pair",
            "text": "Decides one clause: the prefix-pair length tolerance is <= 1, so a highlighted span cannot exceed the "
                    "typed stretch by more than one character. The 'no unrelated hits' and exact-prefix clauses are not decided.",
            "note": NOTE},
    "C14": {"technique": "static analysis: gate constants and per-class cost table read from MIR (match arms), fallback-chain shape",
            "text": "Decides necessary constants/shapes only (L=3 worst case): length gate accepts 1/4, cost(NotAlpha)/4 passes the "
                    "DL gate, Jaccard gate accepts 1/2, non-alphabetic characters without a language class fall back to NotAlpha. "
                    "Join/split offset arithmetic is not decided.",
            "note": NOTE},
    "C16": {"technique": "static analysis: cost-constant provenance into the DP recurrence, reset-before-read on scratch cells, dominance rules on the matrix",
            "text": "Decides structural clauses: every edit cost reaching the recurrence is 0.5 or 1.0 with zero only under "
                    "ch1==ch2; discounts <= default and combined through min/max; history independence via reset-before-read of "
                    "costs1/costs2/last_i1 and the matrix growth/border/dominance rules. Symmetry and the recurrence's "
                    "numerical correctness are not decided.",
            "note": NOTE},
    "C10": {"technique": "static analysis: reset-before-read dataflow on scratch cells, memo-cache coherence and consistency-group rules over transitive write effects, dominance rules on the matrix",
            "text": "Decides structural clauses soundly over all paths/entry points: every long-lived scratch collection is reset "
                    "before its first observing use (RS); the memoised ranking is validated against scalar deps on read and "
                    "reset by every entry point changing collection deps (R10.a); every entry point changing `records` changes "
                    "the whole group defined by Store::add (R10.b); matrix growth/border/dominance rules (R10.d); closed inventory "
                    "of interior-mutable state on the &self path (R10.e). Found defects D2 and D3 (now fixed). Equality with a "
                    "rebuilt store as a runtime value is not decided.",
            "note": NOTE},
}
