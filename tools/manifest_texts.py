"""Per-property texts for MANIFEST.json."""
NOTE = ("Trusted: rustc nightly's MIR construction/type resolution as dumped by /verif/driver; the rule "
        "implementations in /verif/lsv, including the fact normalisation run before the rules (DESIGN.md §4 A10: "
        "helper / closure-call expansion, for_each desugaring, jump threading; A12: alignment of renamed items with "
        "the reference names). Analysed: lucid-suggest-core's non-test library code (dev profile, "
        "overflow checks on). The runtime-quantified remainder listed in DESIGN.md §5 is not decided.")

NOT_APPLICABLE = {}

TEXTS = {
    "C13": {"technique": "static analysis: loop-structure rules on the word-assignment scan (CFG regions, guards by data-flow role), gate constants, "
                         "abstract interpretation of the hit filter (A13), index counting-loop and scratch-state rules",
            "text": "Decides necessary structure only; which record word a query word is assigned to for a particular title (duplicates, "
                    "function words, joined words) is a runtime matter and is not decided. Decided: the scan over the record words restarts at "
                    "the first word and covers all words for every query word (R13.a); words are passed over only when already matched "
                    "(R13.b); only a non-function match stops the scan (R13.c); equal words pass the length, Jaccard and DL gates (R13.d); "
                    "a hit with two matched words passes the filter (R13.e, abstract run); every posting of every query gram is counted in "
                    "counters wide enough, candidates kept iff count > 0, cap >= limit, shared whole-word gram generator, scratch state "
                    "fresh, pipeline complete (R13.f); per-word tokeniser stages visit every word (R13.g); memo caches coherent, no "
                    "hidden state (R13.h).",
            "note": NOTE},
    "C03": {"technique": "static analysis: gate constants located by data-flow in MIR, CFG polarity, rational/IEEE bound check, region-wise symbolic evaluation of the length-gate formula (A11)",
            "text": "Decides necessary constants/shapes only: Jaccard gate accepts 1/2, length and DL gates accept 0, "
                    "gram iterator starts at width 1, index writer/reader share one gram generator, candidate cap >= limit, "
                    "record side clipped to the typed length for an unfinished word. A violated obligation names the "
                    "gate/constructor and the prefix query that is lost; stemmer/scan-order behaviour is not decided."
                    " Also: scratch state of the index and the matcher is reset before it is read (R03.h) and the Jaccard pre-filter compares deduplicated sets (R03.i)."
                    " Round 8: index record count / every record indexed / every word's grams (R03.e/d), language tables closed under case and letters-only (R03.j).",
            "note": NOTE},
    "C04": {"technique": "static analysis: gate/cost constants by data-flow role in MIR, worst-case obligations in IEEE doubles, region-wise symbolic evaluation of the length-gate formula (A11)",
            "text": "Decides necessary constants only (n=5 worst cases): length gate accepts 1-5/6, Jaccard gate accepts 1/2, "
                    "DL gate accepts c/5 for every edit-cost constant c, all costs <= 1, tolerance of prefix-pair lengths >= 1; "
                    "gate shapes are confirmed first (fail closed). The DP itself and the shared-gram argument are not decided."
                    " Also: reset-before-read of scratch state (R04.j) and the last-occurrence look-up of the transposition (R04.k).",
            "note": NOTE},
    "C05": {"technique": "static analysis: integer gate |qslice-rslice| located by data-flow, polarity from CFG reachability of new_pair",
            "text": "Decides one clause: the prefix-pair length tolerance is <= 1, so a highlighted span cannot exceed the "
                    "typed stretch by more than one character. The 'no unrelated hits' and exact-prefix clauses are not decided."
                    " Also (R05.e): the drawn span is [word.slice.0 + subslice.0, word.slice.0 + subslice.1) of the word the match belongs to."
                    " Also (R05.f): lower-casing maps one character to one character.",
            "note": NOTE},
    "C14": {"technique": "static analysis: gate constants and per-class cost table read from MIR (match arms), class fallback decided as a decision table by abstract interpretation (A13), region-wise length-gate formula (A11)",
            "text": "Decides necessary constants/shapes only (L=3 worst case): length gate accepts 1/4, cost(NotAlpha)/4 passes the "
                    "DL gate, Jaccard gate accepts 1/2, non-alphabetic characters without a language class fall back to NotAlpha. "
                    "Join/split offset arithmetic is not decided."
                    " Also (R14.i): no word is passed over by the gram generator, every posting counted.",
            "note": NOTE},
    "C16": {"technique": "static analysis: cost-constant provenance into the DP recurrence, reset-before-read on scratch cells, dominance rules on the matrix",
            "text": "Decides structural clauses: every edit cost reaching the recurrence is 0.5 or 1.0 with zero only under "
                    "ch1==ch2; discounts <= default and combined through min/max; history independence via reset-before-read of "
                    "costs1/costs2/last_i1 and the matrix growth/border/dominance rules. Symmetry and the recurrence's "
                    "numerical correctness are not decided.",
            "note": NOTE},
    "C10": {"technique": "static analysis: reset-before-read dataflow on scratch cells, memo-cache coherence and consistency-group rules over transitive write effects, dominance rules on the matrix",
            "text": "Decides structural clauses soundly over all paths/entry points: every long-lived scratch collection is reset "
                    "before its first observing use (RS); the memoised ranking is validated against scalar deps on read and "
                    "reset by every entry point changing collection deps (R10.a); every entry point changing `records` changes "
                    "the whole group defined by Store::add (R10.b); matrix growth/border/dominance rules (R10.d); closed inventory "
                    "of interior-mutable state on the &self path (R10.e). Found defects D2 and D3 (now fixed). Equality with a "
                    "rebuilt store as a runtime value is not decided.",
            "note": NOTE},
    "C11": {"technique": "static analysis: constant tables bound to their consumer by data-flow, cross-checked entry by entry against Unicode (unicodedata); builder-chain order",
            "text": "Decides table and order clauses for all six languages: composition entries are NFD pair -> NFC letter, every "
                    "reducible letter is composable, case closure, reduction fixpoint, keys fit the normalisation window, "
                    "normalize first and lower before pos/stem in both tokenisers. Interaction with the stemmers is not decided."
                    " Also: lower-casing precedes the character-class look-up (R11.f) and the split/strip fin-flag and slice arithmetic are unaffected by leading separators (R11.l).",
            "note": NOTE + " Oracle: Python unicodedata."},
    "C15": {"technique": "static analysis: builder-chain extraction from MIR, sibling agreement of the two tokenisers, post-dominance of renumber loops, assignment grouping",
            "text": "Decides pipeline-shape clauses: stage order, query/record agreement incl. split/strip class sets, renumber after "
                    "every mutation of the word list, drop-empty after strip, classes resized to chars.len(), normalize updates "
                    "source/chars/slice together, reductions never shrink with padding = len(norm)-len(orig), fin/slice formulas "
                    "of split and strip. Stem range and scanning loops are not decided."
                    " Also (R15.m): Lang::unicode_reduce keeps the padded original and the reduced text equally long (symbolic loop invariant).",
            "note": NOTE},
    "C17": {"technique": "static analysis: event-order/dominance rule on the two buffers, abstract walk of the empty-case switches, reset-before-read",
            "text": "Decides structural clauses: both buffers are whole-overwritten from the two different inputs, sorted and "
                    "de-duplicated before the merge on every path; empty cases return 1.0 / 0.0; the merge returns a ratio of "
                    "two counters including both tails; buffers are reset before use. The two-pointer arithmetic is not decided.",
            "note": NOTE},
    "C18": {"technique": "static analysis: iterator-chain extraction, comparator structure, sort/dedup dominance, counter reset/resize and +1 rules, who-may-call",
            "text": "Decides structural clauses: count>0 filter before the cap, cap = size*10 ordered by count descending, the "
                    "shared gram generator sorts+dedups, positions are enumerate indices, counters cleared and resized to the "
                    "record count which grows by one per add, only Store::add feeds the index after record.ix := next_ix. "
                    "Gram-set contents are not decided."
                    " Also: every posting of every query gram counted in counters wider than 16 bits (R18.h); every stored record handed to the index (R18.f); every word reaches the gram iterator (R18.c).",
            "note": NOTE},
    "C20": {"technique": "static analysis: cross-body provenance through closure captures and thread-local registries, pairing and who-may-write rules",
            "text": "Decides structural clauses: both registries are updated together under the caller's id, every API function "
                    "addresses all registries with its own first parameter, the result buffer is cleared before refill, written "
                    "only by the search runner, and filled with store X's hits for the query tokenised in X's language; API "
                    "functions forward parameters positionally. Per-id equality with a stand-alone store as a runtime value is "
                    "not decided."
                    " Also (R20.i): scratch buffers shared by all ids (thread-locals) and per-store scratch are reset before they are read.",
            "note": NOTE},
    "C06": {"technique": "static analysis: typestate/dominance rules on the bounded selection's buffer events, provenance of limit and positions, transitive write effects on the per-record path",
            "text": "Decides structural clauses: truncate(limit) only directly after a sort, final sort->truncate->reverse before the "
                    "first pop, limit = self.limit at every selection, pipeline order score->filter->selection->highlight, candidate "
                    "cap >= 10x over count>0, positions map to self.records[ix], scratch reset-before-read, no cross-record state on "
                    "the per-record path. Equality with the single-record verdict as a runtime value is not decided."
                    " Also: set_limit stores its parameter unchanged (R06.f); the compared rating keeps its full width (R06.g).",
            "note": NOTE},
    "C07": {"technique": "static analysis: comparator key/direction extraction (A7), confinement of insertion position, score-slot table",
            "text": "Decides structural clauses: all comparators handed to selections are lexicographic compositions of Ord::cmp on the "
                    "same integer projection of both arguments (total pre-orders); insertion position is never read on the ranking "
                    "path; the rating is a score component written once; selection forwards argument order. Order equality across "
                    "permutations as a runtime value is not decided."
                    " Also (R07.d): the memoised empty-query ranking is reset on every path that changes records or limit."
                    " Also (R07.e): index record count, counting loop and feeding discipline (which records are candidates does not depend on insertion order).",
            "note": NOTE},
    "C08": {"technique": "static analysis: score-slot table from MIR (variant discriminants vs writer functions), sign/direction extraction, confinement of the rating, enum-arm tables",
            "text": "Decides structural clauses: each match-quality component is ranked before the rating, directions/signs as "
                    "documented, rating read only by its own component, function-word classes exactly the four, function words not "
                    "counted as matched words, language maps filled before function words are registered, tails/trans/offset "
                    "formulas keep their recognised shape. Numeric component values are not decided.",
            "note": NOTE},
    "C12": {"technique": "static analysis: comparator extraction for the empty-query selection, branch-condition normalisation, memo-cache coherence",
            "text": "Decides structural clauses: the empty-query selection is exactly (rating desc, normalised title asc) bounded by "
                    "self.limit, the non-index branch is taken iff the query has no word, the empty query passes the filter, the "
                    "memoised ranking is coherent with records and limit, and the rating is compared before word/char counts. "
                    "Found defect D2 (fixed)."
                    " Also: rating compared at full width (R12.e), NUL sanitiser on every return of the title builder (R12.g), table entries are letters/marks so a separator-only query stays empty (R12.h).",
            "note": NOTE},
    "C02": {"technique": "static analysis: path enumeration of the title builder (tiling + sanitiser typestate), id/marker provenance chains, Unicode table cross-check",
            "text": "Decides structural clauses: every return path yields the one String that passed retain(ch != NUL) after its last "
                    "write; the slices copied from the original text tile [0, len) on every path; ids flow record_id -> Record.id -> "
                    "Hit.id -> SearchResult.id; marker pair provenance; normalisation keeps source/chars paired and composition "
                    "tables equal NFC. Composition of arbitrary Unicode beyond the tables is not decided.",
            "note": NOTE},
    "C09": {"technique": "static analysis: marker typestate over enumerated CFG paths, span-bound provenance, guard dominance, linear-arithmetic discharge of the split guard",
            "text": "Decides structural clauses: marker emission is left/one slice/right on every path and ends closed; spans start at "
                    "the word start and are looked up by word offset; new_pair is guarded by slice <= len(word); the guard of "
                    "WordMatch::split implies a non-empty second half; empty query passes, no match => no hit; marker order "
                    "provenance; record and query tokenisers split alike. Typo-budget split arithmetic is not decided."
                    " Also (R09.i): lower-casing and normalisation keep original and normalised text aligned.",
            "note": NOTE},
    "C19": {"technique": "static analysis: bounds obligations per unsafe call site discharged in a linear-inequality (zone-like) domain from MIR facts and four checked lemmas",
            "category": "proof",
            "text": "Every call to an unsafe fn in non-test code is an obligation (23 sites, 37 index obligations: slices need "
                    "index < len; matrix accesses need row < size and col < size individually). Each is discharged as a positive "
                    "combination of facts read off the MIR (enumerate/range indices, dominating guards over stable variables, the "
                    "extend idiom) and lemmas verified on the code (accessor agreement, matrix capacity after prepare, len(raw)=size², "
                    "posting positions < len). An undischarged site is a violation (fail closed). This is a proof over all inputs "
                    "and histories relative to the trusted base listed in the evidence.",
            "note": NOTE + " Additionally trusted: std semantics of range indexing, Vec::extend and enumerate as stated in evidence."},
    "C01": {"technique": "static analysis: lock-order style RefCell guard analysis over the call graph, unsigned-subtraction discharge in a linear-inequality domain, explicit-panic inventory, table obligations, bounds obligations",
            "text": "Decides structural clauses soundly over all paths: no call executed while a RefCell guard is live can reach a "
                    "conflicting borrow (15 cells, 23 sites); every reachable unsigned subtraction is proved non-negative from "
                    "guards / loop indices / counter induction / std lemmas, is the padding difference (no reduction shrinks), or is "
                    "a difference of tokeniser geometry fields assumed by C15; no float-derived unsigned subtraction (found D1, "
                    "fixed); every reachable explicit panic is a registry-contract check, a debug assertion whose condition is "
                    "implied by another rule, or discharged; unchecked accesses as in C19. Termination, overflow near usize::MAX "
                    "and slice-index panics beyond these rules are not decided."
                    " Also (R01.h): no checked arithmetic on, and no narrowing cast to, 8/16-bit integers on the reachable paths; equal-length invariant of unicode_reduce (R01.c).",
            "note": NOTE},
}

# clauses added after round 9 (per-file seeded changes): the small helpers the other rules lean on
_R9 = {
    "C01": " Also (R01.i): the sub-slices of split halves / joined words equal the derived linear forms.",
    "C02": " Also: Record::new tokenises its source parameter as it is (R02.g); Normalize::next looks up every prefix of its window (R02.h); field-wise overwrites of a local are modelled, so a clipped hit title is not mistaken for the record's title.",
    "C03": " Also (R03.k): a hit carries the whole title of its record; the stem is computed from exactly the word's characters.",
    "C08": " Also (R08.h): Lang::get_pos returns the table entry of the word unfiltered (decision table by abstract interpretation) and WordShape::set_pos assigns it for exactly the word's characters on every path.",
    "C11": " Also (R11.m): Normalize::next looks up every prefix window[..len], len = window.len()..1, on every path that yields an item (loop and closure forms).",
    "C12": " Also (R12.i): Text::is_empty tests the words, so a query of separators only is the empty query.",
    "C14": " Also (R14.j): Word::dist is start(later) - end(earlier) in both orders (region-wise evaluation), stems come from the word's own characters, hits carry whole titles.",
}
for _k, _v in _R9.items():
    TEXTS[_k]["text"] += _v

# clauses added after round 10 (blind-spot sweep): what the registry API must do, lock-step of the record counters
_R10 = {
    "C01": " Also: registry panics fire only for a duplicate id on insertion / a missing id elsewhere (R01.e polarity); records, next_ix and the index change in lock-step in every Store method (R01.g).",
    "C02": " Also (R02.i): add_record and highlight_with perform their effect on every call.",
    "C03": " Also (R03.l): add_record really adds the record on every call.",
    "C04": " Also (R04.l): add_record really adds the record on every call.",
    "C06": " Also (R06.h): set_limit really stores the limit on every call.",
    "C07": " Also (R07.f): add_record really adds the record on every call.",
    "C08": " Also (R08.g, region-wise): a pair of consecutive matches adds 0 to the transposition penalty when adjacent in order and at least 1 when there is a gap.",
    "C09": " Also (R09.j): highlight_with really hands the markers to the store on every call.",
    "C10": " Also (R10.b): records, next_ix and the index change by the same abstract amount (+1 or reset) on every path of every Store method, so `clear` really empties the store.",
    "C12": " Also (R12.j): add_record really adds the record on every call.",
    "C13": " Also (R13.i): add_record really adds the record on every call.",
    "C14": " Also (R14.k): add_record really adds the record on every call.",
    "C20": " Also (R20.j): add_record / highlight_with / set_limit perform their effect on every call; registry panics have the right polarity.",
}
for _k, _v in _R10.items():
    TEXTS[_k]["text"] += _v

# clauses added after round 11
_R11 = {
    "C01": " Also (R01.j): the WASM bridge performs no subtraction / multiplication / shift.",
    "C03": " Also: a one-match hit of a one-word query passes hit_matches whatever the match looks like (R03.m, abstract run); the word-to-word alternative of text_match calls word_match on every path (R03.n).",
    "C04": " Also: a one-match hit of a one-word query passes hit_matches (R04.m, abstract run); the word-to-word alternative of text_match calls word_match on every path (R04.n).",
    "C05": " Also (R05.b): candidate positions of a non-empty query come from the index only and are mapped through self.records[ix].",
    "C13": " Also (R13.j): the word-to-word alternative of text_match calls word_match on every path.",
    "C14": " Also: hits made by a split (1,2,2) or joined (2,1,1) spelling pass hit_matches (R14.l, abstract run); WordMatch::split never gives up a match that reaches into the second word (R14.f threshold).",
}
for _k, _v in _R11.items():
    TEXTS[_k]["text"] += _v

# clauses added after rounds 13-14
_R14 = {
    "C03": " Also: the limit reaches the bounded selection unnarrowed and every item is buffered (R06.a, two clauses only).",
    "C04": " Also: the limit reaches the bounded selection unnarrowed and every item is buffered (R06.a, two clauses only).",
    "C05": " Also (R05.g): every reduction grows by at most one character; table entries are letters / marks; Lang::new starts with empty tables.",
    "C06": " Also (R06.i): a hit copies id, title and rating of its record unchanged.",
    "C07": " Also: the rating reaches its score component without passing through a float.",
    "C08": " Also (R08.i): a hit copies the rating unchanged; the rating does not pass through a float.",
    "C09": " Also (R09.k): reduction tables map letters / marks to letters / marks and Lang::new starts with empty tables.",
    "C12": " Also (R12.k): a hit copies the rating unchanged.",
    "C13": " Also: the word methods get the normalised chars (R13.g); the limit reaches the bounded selection unnarrowed (R06.a).",
    "C14": " Also: the limit reaches the bounded selection unnarrowed and every item is buffered (R06.a, two clauses only).",
    "C15": " Also (R15.o): reduction tables are closed under case including characters that only map TO a key (U+1E9E).",
    "C16": " Also (R16.e): no narrowing cast to / arithmetic on 8- or 16-bit integers inside the distance code.",
    "C20": " Also (R20.d): replacing the whole result vector counts as changing its contents.",
}
for _k, _v in _R14.items():
    TEXTS[_k]["text"] += _v

# clauses added after round 15
_R15 = {
    "C01": " Also (R01.k): no code compiled in or out by the build mode / target (only debug_assert!); no impl overrides a provided method of the crate's traits.",
    "C03": " Also: the query tokeniser splits and strips on the same classes as the record tokeniser (R03.p); the Jaccard clip is min(query length + 1, record length) on the whole query word.",
    "C04": " Also (R04.o): for an unfinished query word the Jaccard gate compares the whole query word with the record prefix of min(query length + 1, record length).",
    "C05": " Also: the highlighted slice is exactly source[slice.0 + subslice.0 .. slice.0 + subslice.1].",
    "C09": " Also: the highlighted slice is exactly source[slice.0 + subslice.0 .. slice.0 + subslice.1].",
    "C17": " Also (R17.b): non-empty inputs of small concrete sizes reach the set computation (no shortcut for one-element inputs).",
}
for _k, _v in _R15.items():
    TEXTS[_k]["text"] += _v

# clauses added after round 16
_R16 = {
    "C05": " Also: the index's candidate method returns the counting chain or an empty vector, nothing else.",
    "C06": " Also: Store::search returns the collected list as it is (result-unmodified); the candidate method has no bypass.",
    "C10": " Also (R10.d): distance() prepares the matrix on every path to a return.",
    "C14": " Also (R14.e): nothing but the length guard, the `?` exits and the already-matched test precedes the matcher in a join branch.",
    "C15": " Also (R15.l): the lower-case store is on every trip of Text::lower's mapping loop.",
    "C16": " Also (R16.b): distance() prepares the matrix on every path to a return.",
    "C18": " Also (R18.a): the candidate method returns the counting chain or an empty vector, nothing else.",
}
for _k, _v in _R16.items():
    TEXTS[_k]["text"] += _v

TEXTS["C05"]["text"] += " Also (R05.i): normalisation assigns `source` and `chars` together."

TEXTS["C04"]["text"] += " Also (R04.h): every posting of every query gram is counted."
