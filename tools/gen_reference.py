#!/usr/bin/env python3
"""Regenerate lsv/reference.json: names and signatures of the functions, types, fields and constants of the reference
tree the rule tables were written against (see lsv/align.py, lsv/inline.py).  Run on the reference tree only:
python3 tools/gen_reference.py [/repo]"""
import os, sys, json
sys.path.insert(0, os.path.join(os.path.dirname(os.path.abspath(__file__)), ".."))
os.environ["LSV_NO_INLINE"] = "1"
from lsv import facts, align
repo = sys.argv[1] if len(sys.argv) > 1 else "/repo"
F = facts.extract_core(repo, True)
snap = align.snapshot(F.data)
with open(align.REF_FILE, "w") as fh:
    json.dump(snap, fh, indent=0, sort_keys=True)
print(len(snap["fns"]), "functions,", len(snap["adts"]), "types,", len(snap["consts"]), "constants")
