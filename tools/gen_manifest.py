#!/usr/bin/env python3
"""Regenerate /verif/MANIFEST.json from the rule modules present and the texts in tools/manifest_texts.py."""
import json, os, sys
HERE = os.path.dirname(os.path.dirname(os.path.abspath(__file__)))
sys.path.insert(0, HERE)
from tools.manifest_texts import TEXTS, NOT_APPLICABLE

props = [json.loads(l)["id"] for l in open(os.path.join(HERE, "properties.jsonl"))]
checks = []
na = []
for p in props:
    if p in NOT_APPLICABLE:
        na.append({"property_id": p, "reason": NOT_APPLICABLE[p]})
        continue
    if not os.path.exists(os.path.join(HERE, "lsv", "rules", p + ".py")) or p not in TEXTS:
        na.append({"property_id": p, "reason": "check not built yet (under construction; see DESIGN.md §10)"})
        continue
    t = TEXTS[p]
    checks.append({
        "property_id": p,
        "quick_cmd": "./check %s" % p,
        "thorough_cmd": "./check %s --thorough" % p,
        "evidence_file": "/verif/evidence/%s.json" % p,
        "replay_cmd_template": "./check %s --replay {path}" % p,
        "engine": "lsv",
        "level_claimed": {"category": t.get("category", "other"), "text": t["text"], "design_ref": "DESIGN.md §5 " + p},
        "level_note": t["note"],
        "technique": t["technique"],
    })
m = {
    "version": 1,
    "setup_cmd": "cd /verif && ./setup.sh",
    "hooks": {
        "guard": "lucid_suggest_verif",
        "enable": "none needed: the checks are static; /repo is read through a rustc_private driver "
                  "(RUSTC_WORKSPACE_WRAPPER under cargo +nightly check), nothing is compiled in",
        "baseline_off_cmd": "cd /repo/rust/core && cargo test --workspace --no-fail-fast --offline",
        "source_commits": [],
        "add_only": True,
    },
    "engines": [{
        "name": "lsv",
        "path": "/verif/lsv (rules, python3 stdlib) + /verif/driver (rustc_private MIR/type fact extractor)",
        "serves_properties": [c["property_id"] for c in checks],
        "kind_free_text": "static analysis: custom rules over rustc MIR facts (call graph, CFG dominance, symbolic "
                          "provenance, write effects, comparator structure, constant/table obligations, bounds "
                          "obligations); no code of lucid-suggest is executed",
    }],
    "checks": checks,
    "notes": "Every check re-extracts facts from /repo's current working tree with the driver and evaluates its rules; "
             "three genuine defects found by the rules were repaired in /repo with 'fix:' commits (see "
             "known_findings.txt and DESIGN.md §6). Claimed levels are per-clause: each check decides the structural "
             "clauses listed in DESIGN.md §5 for its property, not the whole runtime behaviour.",
    "not_applicable": na,
}
json.dump(m, open(os.path.join(HERE, "MANIFEST.json"), "w"), indent=1)
print("checks:", [c["property_id"] for c in checks])
print("not_applicable:", [x["property_id"] for x in na])
