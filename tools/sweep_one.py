#!/usr/bin/env python3
"""Run every registered rule module in one process against the tree under <root> (LSV_REPO-style layout: <root>/rust/...)
and print one JSON line: {"compiles": bool, "fired": {prop: [obligation keys]}, "errors": {prop: text}}.
Used by tools/sweep.py; never writes evidence."""
import importlib
import json
import os
import sys

HERE = os.path.dirname(os.path.dirname(os.path.abspath(__file__)))
sys.path.insert(0, HERE)


def main(root):
    os.environ["LSV_REPO"] = root
    os.environ.setdefault("LSV_CACHE", "1")
    from lsv import facts as F, engine
    from tools import mutate
    out = {"compiles": True, "fired": {}, "errors": {}}
    try:
        facts = F.extract_core(root)
    except F.ExtractionError as e:
        out["compiles"] = False
        out["errors"]["extract"] = str(e)[-600:]
        print(json.dumps(out))
        return 0
    for p in mutate.all_props():
        ctx = engine.Ctx(facts, "quick")
        try:
            importlib.import_module("lsv.rules." + p).run(ctx)
        except F.ExtractionError as e:
            out["compiles"] = False
            out["errors"][p] = str(e)[-600:]
            break
        except Exception as e:          # an analyser crash is reported, never counted as a verdict
            out["errors"][p] = repr(e)[:300]
            continue
        known = engine.load_known() if hasattr(engine, "load_known") else {}
        keys = [o.key for o in ctx.obs if o.status == "fail"]
        if keys:
            out["fired"][p] = keys[:8]
    print(json.dumps(out))
    return 0


if __name__ == "__main__":
    sys.exit(main(sys.argv[1]))
