#!/usr/bin/env python3
"""Handling of independently produced property-breaking changes (seeded defects).

  tools/seed.py verify <seed-dir> <demo-name>   confirm: demo passes on HEAD, fails with patch; suite unchanged with patch
  tools/seed.py check  <seed-dir> [--props ..]  run the registered static checks against the patched scratch copy
Scratch worktrees live under /tmp and are removed afterwards.
"""
import json, os, re, shutil, subprocess, sys, tempfile

HERE = os.path.dirname(os.path.dirname(os.path.abspath(__file__)))
sys.path.insert(0, HERE)
from tools import mutate

TARGET = os.environ.get("SEED_TARGET", "/tmp/seed-target")   # one target dir per concurrent verify (shared dirs collide)


def sh(cmd, cwd=None, env=None, timeout=1800):
    e = dict(os.environ)
    e["CARGO_NET_OFFLINE"] = "true"
    e["CARGO_TARGET_DIR"] = TARGET
    if env:
        e.update(env)
    r = subprocess.run(cmd, cwd=cwd, env=e, shell=isinstance(cmd, str), stdout=subprocess.PIPE, stderr=subprocess.STDOUT, text=True, timeout=timeout)
    return r.returncode, r.stdout


def suite_summary(out):
    res = re.findall(r"test result: \w+\. (\d+) passed; (\d+) failed", out)
    failed = sorted(set(re.findall(r"^test (\S+) \.\.\. FAILED", out, re.M)))
    return res, failed


def verify(seed, demo_name):
    wt = tempfile.mkdtemp(prefix="vw-")
    shutil.rmtree(wt)
    rc, out = sh(["git", "-C", "/repo", "worktree", "add", "-q", "--detach", wt, "HEAD"])
    assert rc == 0, out
    report = {}
    try:
        core = os.path.join(wt, "rust", "core")
        demo_src = os.path.join(seed, "demo.rs")
        demo_dst = os.path.join(core, "tests", demo_name + ".rs")
        shutil.copy(demo_src, demo_dst)
        rc0, out0 = sh("cargo test --offline --test %s 2>&1 | tail -30" % demo_name, cwd=core)
        report["demo_without_patch"] = suite_summary(out0)
        rc, out = sh(["git", "apply", os.path.join(seed, "patch.diff")], cwd=wt)
        report["patch_applies"] = rc == 0
        if rc != 0:
            report["apply_error"] = out
            return report
        rc1, out1 = sh("cargo test --offline --test %s 2>&1 | tail -40" % demo_name, cwd=core)
        report["demo_with_patch"] = suite_summary(out1)
        report["demo_with_patch_tail"] = out1[-1500:]
        os.remove(demo_dst)
        rc2, out2 = sh("cargo test --offline --no-fail-fast 2>&1", cwd=core)
        report["suite_with_patch"] = suite_summary(out2)
        return report
    finally:
        sh(["git", "-C", "/repo", "worktree", "remove", "--force", wt])
        shutil.rmtree(wt, ignore_errors=True)


def check(seed, props=None):
    import hashlib as _h
    root = tempfile.mkdtemp(prefix="lsv-seed-")
    try:
        if not mutate.apply_patch_copy(os.path.join(seed, "patch.diff"), root):
            return {"error": "patch does not apply"}
        props = props or mutate.all_props()
        work = os.path.join(tempfile.gettempdir(), "lsv-work-seed-" + _h.sha1(seed.encode()).hexdigest()[:8])
        try:
            res = mutate.run_checks(root, props, work)
        finally:
            shutil.rmtree(work, ignore_errors=True)
        return {p: r for p, r in res.items()}
    finally:
        shutil.rmtree(root, ignore_errors=True)


if __name__ == "__main__":
    cmd = sys.argv[1]
    if cmd == "verify":
        print(json.dumps(verify(sys.argv[2], sys.argv[3]), indent=1))
    elif cmd == "check":
        props = None
        if "--props" in sys.argv:
            props = sys.argv[sys.argv.index("--props") + 1].split(",")
        res = check(sys.argv[2], props)
        for p, r in sorted(res.items()):
            if isinstance(r, dict) and r.get("rc") != 0:
                print(p, "rc=%s" % r.get("rc"), r.get("keys"), (r.get("out") or "")[-300:])
        print("fired:", sorted(p for p, r in res.items() if isinstance(r, dict) and r.get("rc") == 1))
