#!/usr/bin/env python3
"""Blind-spot sweep (development aid, not a registered check).

Generates single-token source mutants of the non-test code of rust/core/src (relational operators, && / ||, + / -, small
integer literals, true / false, min / max, removed `.rev()`, negated `if`, deleted call / assignment statements, swapped tuple fields .0/.1, min!/max!, continue/break,
is_some/is_none, `.iter().skip(1)`, `+=`/`-=`), and for
every mutant that still builds under the fact extractor runs ALL registered rule modules statically (tools/sweep_one.py).
Mutants no rule reports are then put through the repository's own test suite; the ones that also keep the suite result are
written out per function.  A function with many such survivors is a place the rules do not look at — the list is triaged by
hand (many survivors are behaviour-preserving or outside every property), it is never turned into a verdict.

  tools/sweep.py --benign ...   the reverse experiment: rewrites that preserve behaviour by construction (comparison / addition
                                operands swapped, `x += k` written out, len()==0 <-> is_empty(), one-line if/else inverted);
                                every rule must stay silent, an alarm on one that also keeps the suite result is a false alarm
  tools/sweep.py [--jobs N] [--only SUBSTR] [--no-tests] [--out FILE] [--resume FILE] [--ops op1,op2]

Scratch copies live under /tmp/sw and are removed at the end.
"""
import json
import os
import queue
import re
import shutil
import subprocess
import sys
import threading
import time

HERE = os.path.dirname(os.path.dirname(os.path.abspath(__file__)))
REPO = os.environ.get("LSV_REPO_SRC", "/repo")
SW = "/tmp/sw"
BASE_FAILS = {"lang::lang::tests::unicode_reduce_fill0", "tokenization::text::tests::text_normalize_pad0",
              "utils::trigrams::tests::trigrams_basic"}

REL = {"<": "<=", "<=": "<", ">": ">=", ">=": ">", "==": "!=", "!=": "=="}


def non_test_lines(path):
    """(lineno, text) of the code lines before the first `#[cfg(test)]`, without comment lines"""
    out = []
    with open(path) as fh:
        for i, l in enumerate(fh.read().split("\n")):
            if l.strip().startswith("#[cfg(test)]"):
                break
            out.append((i, l))
    return out


def mutants_of(path, rel):
    res = []
    fn = "?"
    for i, l in non_test_lines(path):
        s = l.strip()
        m = re.search(r"\bfn\s+(\w+)", l)
        if m and not s.startswith("//"):
            fn = m.group(1)
        if not s or s.startswith("//") or s.startswith("#[") or s.startswith("use ") or s.startswith("pub use ") or s.startswith("mod ") \
                or s.startswith("pub mod "):
            continue
        code = l.split("//")[0]
        if re.search(r"\bfn\s+\w+", code) or s.startswith(("impl", "pub struct", "struct", "pub enum", "enum", "type ", "pub type", "where ", "pub trait", "trait ")):
            continue

        def add(op, start, end, new):
            res.append({"file": rel, "line": i, "fn": fn, "op": op, "old": l, "new": l[:start] + new + l[end:]})
        for m in re.finditer(r"(?<=\s)(<=|>=|==|!=|<|>)(?=\s)", code):
            if "->" in code[max(0, m.start() - 2):m.end() + 1]:
                continue
            add("rel", m.start(), m.end(), REL[m.group(1)])
        for m in re.finditer(r"(?<=\s)(&&|\|\|)(?=\s)", code):
            add("bool", m.start(), m.end(), "||" if m.group(1) == "&&" else "&&")
        for m in re.finditer(r"(?<=\s)([+-])(?=\s)", code):
            add("arith", m.start(), m.end(), "-" if m.group(1) == "+" else "+")
        for m in re.finditer(r"(?<![\w.'\"])(\d)(?![\w.'\"])", code):
            if re.search(r";\s*$", code[:m.start()].rstrip()[-1:] or " ") and "[" in code[:m.start()]:
                pass
            add("lit", m.start(), m.end(), str(int(m.group(1)) + 1))
        for m in re.finditer(r"\b(true|false)\b", code):
            add("flag", m.start(), m.end(), "false" if m.group(1) == "true" else "true")
        for m in re.finditer(r"\.(min|max)\(", code):
            add("minmax", m.start(), m.end(), ".max(" if m.group(1) == "min" else ".min(")
        for m in re.finditer(r"\.rev\(\)", code):
            add("rev", m.start(), m.end(), "")
        for m in re.finditer(r"\.(0|1)\b(?!\.\d)(?![\w(])", code):
            if re.search(r"\d$", code[:m.start()]):
                continue            # part of a float literal
            add("tuple", m.start(), m.end(), ".1" if m.group(1) == "0" else ".0")
        for m in re.finditer(r"\b(min|max)!\(", code):
            add("minmax!", m.start(), m.end(), "max!(" if m.group(1) == "min" else "min!(")
        for m in re.finditer(r"\b(continue|break)\b", code):
            add("loopctl", m.start(), m.end(), "break" if m.group(1) == "continue" else "continue")
        for m in re.finditer(r"\.(is_some|is_none)\(\)", code):
            add("optflip", m.start(), m.end(), ".is_none()" if m.group(1) == "is_some" else ".is_some()")
        for m in re.finditer(r"\.(iter|iter_mut)\(\)", code):
            add("skip1", m.start(), m.end(), m.group(0) + ".skip(1)")
        for m in re.finditer(r"(?<=\s)(\+=|-=)(?=\s)", code):
            add("opassign", m.start(), m.end(), "-=" if m.group(1) == "+=" else "+=")
        for m in re.finditer(r"\bas (isize|usize)\b", code):
            pass
        m = re.match(r"^(\s*)(if|while)\s+(?!let\b)(.+?)\s*\{\s*(.*)$", code)
        if m and "else" not in code[:m.start(2)]:
            st = m.start(3)
            en = m.end(3)
            add("negate", st, en, "!(" + m.group(3) + ")")
        if re.match(r"^\s+[\w.\[\]*()]+\s*(=|\+=|-=)\s*[^=].*;\s*$", code) and not s.startswith("let "):
            add("del-assign", 0, len(l), "")
        elif re.match(r"^\s+[\w.]+(::<[^>]*>)?\(.*\);\s*$", code) and not s.startswith(("let ", "return", "assert", "debug_assert", "panic")):
            add("del-call", 0, len(l), "")
    return res


FLIP = {"<": ">", "<=": ">=", ">": "<", ">=": "<=", "==": "==", "!=": "!="}
SIMPLE = r"[\w.]+(?:\(\))?(?:\.[\w]+(?:\(\))?)*"


def benign_mutants_of(path, rel):
    """behaviour-preserving by construction: operands of a comparison swapped (operator mirrored), operands of `+` swapped,
    `x += k` written out, `len() == 0` <-> `is_empty()`, one-line `if c { a } else { b }` inverted.  An alarm on one of these
    is a false alarm."""
    res = []
    fn = "?"
    for i, l in non_test_lines(path):
        s = l.strip()
        m = re.search(r"\bfn\s+(\w+)", l)
        if m and not s.startswith("//"):
            fn = m.group(1)
        code = l.split("//")[0]
        if not s or s.startswith(("//", "#[", "use ", "pub use", "mod ", "pub mod")) or re.search(r"\bfn\s+\w+", code) or \
                s.startswith(("impl", "pub struct", "struct", "pub enum", "enum", "type ", "pub type", "where ", "pub trait", "trait ")) or \
                "debug_assert" in code or "assert!" in code:
            continue

        def add(op, start, end, new):
            res.append({"file": rel, "line": i, "fn": fn, "op": op, "old": l, "new": l[:start] + new + l[end:]})
        for m in re.finditer(r"(%s) (<=|>=|==|!=|<|>) (%s)" % (SIMPLE, SIMPLE), code):
            a, op, b = m.group(1), m.group(2), m.group(3)
            before, after = code[:m.start()], code[m.end():]
            if a == b or not re.search(r"(?:^\s*|\(|\bif |\bwhile |&& |\|\| |= |return |!\()$", before) or \
                    not re.match(r"(?: \{| &&| \|\||\)|;|,|\s*$)", after):
                continue
            add("b-cmp-swap", m.start(), m.end(), "%s %s %s" % (b, FLIP[op], a))
        for m in re.finditer(r"(%s) \+ (%s)" % (SIMPLE, SIMPLE), code):
            a, b = m.group(1), m.group(2)
            before, after = code[:m.start()], code[m.end():]
            if not re.search(r"(?:\(|= |, |\[|return |\{ |\.\. |< |> |<= |>= |== |!= )$", before) or \
                    not re.match(r"(?:\)|;|,|\]| \}| <| >| <=| >=| ==| !=| \{| \.\.|\s*$)", after):
                continue
            add("b-add-swap", m.start(), m.end(), "%s + %s" % (b, a))
        m = re.match(r"^(\s*)([\w.*\[\]]+) (\+|-)= (.+);\s*$", code)
        if m:
            lhs = m.group(2)
            val = lhs[1:] if lhs.startswith("*") else lhs
            add("b-opassign", 0, len(code.rstrip()), "%s%s = %s %s (%s);" % (m.group(1), lhs, ("*" + val) if lhs.startswith("*") else val, m.group(3), m.group(4)))
        for m in re.finditer(r"(%s)\.len\(\) == 0" % SIMPLE, code):
            add("b-isempty", m.start(), m.end(), "%s.is_empty()" % m.group(1))
        for m in re.finditer(r"(%s)\.len\(\) > 0" % SIMPLE, code):
            add("b-isempty", m.start(), m.end(), "!%s.is_empty()" % m.group(1))
        for m in re.finditer(r"(?<![!\w.])(%s)\.is_empty\(\)" % SIMPLE, code):
            add("b-len0", m.start(), m.end(), "(%s.len() == 0)" % m.group(1))
        m = re.search(r"\bif (?!let\b)([^{}]+?) \{ ([^{};]+) \} else \{ ([^{};]+) \}", code)
        if m:
            add("b-if-flip", m.start(), m.end(), "if !(%s) { %s } else { %s }" % (m.group(1), m.group(3), m.group(2)))
        for m in re.finditer(r"\b(min|max)!\((%s), (%s)\)" % (SIMPLE, SIMPLE), code):
            add("b-minmax-swap", m.start(), m.end(), "%s!(%s, %s)" % (m.group(1), m.group(3), m.group(2)))
        for m in re.finditer(r"(%s) \* (\d+)(?![\w.])" % SIMPLE, code):
            if re.search(r"(?:\(|= |, |\[|>= |<= |> |< |== )$", code[:m.start()]) and re.match(r"(?:\)|;|,|\]| \{|\s*$)", code[m.end():]):
                add("b-mul-swap", m.start(), m.end(), "%s * %s" % (m.group(2), m.group(1)))
        for m in re.finditer(r"\.cloned\(\)", code):
            add("b-copied", m.start(), m.end(), ".copied()")
        for m in re.finditer(r"\.unwrap_or\(false\)", code):
            add("b-opt-true", m.start(), m.end(), ".map_or(false, |b| b)")
    # two adjacent `let` statements with pure-looking right-hand sides that do not mention each other: swapped
    lines = non_test_lines(path)
    pure = re.compile(r"^[\w\s.()!,+\-*/&\[\]:]*$")
    for k in range(len(lines) - 1):
        (i1, l1), (i2, l2) = lines[k], lines[k + 1]
        m1 = re.match(r"^(\s+)let (\w+)\s*= (.+);\s*$", l1)
        m2 = re.match(r"^(\s+)let (\w+)\s*= (.+);\s*$", l2)
        if not (m1 and m2 and i2 == i1 + 1 and m1.group(1) == m2.group(1)):
            continue
        r1, r2 = m1.group(3), m2.group(3)
        if not (pure.match(r1) and pure.match(r2)) or re.search(r"\b%s\b" % m1.group(2), r2) or re.search(r"\b%s\b" % m2.group(2), r1):
            continue
        if re.search(r"\b(push|pop|clear|next|take|borrow_mut|insert|remove|drain|truncate|resize|extend|with|unwrap|expect)\b|\?|!\(", r1 + r2):
            continue
        if m1.group(2) == m2.group(2):
            continue
        res.append({"file": rel, "line": i1, "fn": "?", "op": "b-let-swap", "old": l1, "new": l2, "line2": i2, "old2": l2, "new2": l1})
    return res


def all_mutants(only=None, benign=False):
    res = []
    wasm = os.path.join(REPO, "rust", "wasm", "src", "lib.rs")
    if os.path.exists(wasm) and (not only or only in "wasm/src/lib.rs") and not benign:
        res.extend(mutants_of(wasm, "wasm/src/lib.rs"))
        # the bridge has almost no operators: also swap / drop call arguments and `cfg(lang = ..)` values
        for i, l in non_test_lines(wasm):
            m = re.search(r"core::(\w+)\(([^()]*(?:\([^()]*\))?[^()]*)\)", l)
            if m and "," in m.group(2):
                args = [a.strip() for a in re.split(r",(?![^()]*\))", m.group(2))]
                for j in range(len(args) - 1):
                    sw = list(args)
                    sw[j], sw[j + 1] = sw[j + 1], sw[j]
                    res.append({"file": "wasm/src/lib.rs", "line": i, "fn": m.group(1), "op": "argswap", "old": l,
                                "new": l[:m.start(2)] + ", ".join(sw) + l[m.end(2):]})
    src = os.path.join(REPO, "rust", "core", "src")
    for dp, dn, fns in os.walk(src):
        for f in sorted(fns):
            if not f.endswith(".rs"):
                continue
            p = os.path.join(dp, f)
            rel = os.path.relpath(p, os.path.join(REPO, "rust"))
            if only and only not in rel:
                continue
            res.extend(benign_mutants_of(p, rel) if benign else mutants_of(p, rel))
    return res


def sh(cmd, cwd=None, env=None, timeout=900):
    e = dict(os.environ)
    e["CARGO_NET_OFFLINE"] = "true"
    if env:
        e.update(env)
    try:
        r = subprocess.run(cmd, cwd=cwd, env=e, shell=isinstance(cmd, str), stdout=subprocess.PIPE, stderr=subprocess.STDOUT, text=True,
                           timeout=timeout)
        return r.returncode, r.stdout
    except subprocess.TimeoutExpired:
        return 124, "timeout"


def suite(lane_root, lane):
    rc, out = sh("cargo test --workspace --no-fail-fast --offline 2>&1", cwd=os.path.join(lane_root, "rust", "core"),
                 env={"CARGO_TARGET_DIR": os.path.join(SW, "tgt-l%d" % lane)}, timeout=600)
    if rc == 124:
        return "timeout"
    res = re.findall(r"test result: \w+\. (\d+) passed; (\d+) failed", out)
    failed = set(re.findall(r"^test (\S+) \.\.\. FAILED", out, re.M))
    if not res:
        return "build-error"
    if failed == BASE_FAILS and res[:2] == [("207", "3"), ("12", "0")]:
        return "baseline"
    return "tests-differ:%s" % sorted(failed - BASE_FAILS)[:3]


def worker(lane, q, results, lock, run_tests):
    root = os.path.join(SW, "l%d" % lane)
    if os.path.exists(root):
        shutil.rmtree(root)
    os.makedirs(root)
    sh(["rsync", "-a", "--exclude", "target", "--exclude", "pkg", "--exclude", "*.snap.new", os.path.join(REPO, "rust"), root + "/"])
    if not os.path.exists(os.path.join(root, "datasets")):
        os.symlink(os.path.join(REPO, "datasets"), os.path.join(root, "datasets"))     # tests/ecommerce.rs reads ../../datasets
    env = {"LSV_WORK": os.path.join(SW, "work-l%d" % lane), "LSV_CACHE": "1"}
    while True:
        try:
            m = q.get_nowait()
        except queue.Empty:
            return
        path = os.path.join(root, "rust", m["file"])
        orig = open(path).read()
        lines = orig.split("\n")
        assert lines[m["line"]] == m["old"], (m, lines[m["line"]])
        lines[m["line"]] = m["new"]
        if "line2" in m:
            assert lines[m["line2"]] == m["old2"]
            lines[m["line2"]] = m["new2"]
        open(path, "w").write("\n".join(lines))
        try:
            if "compiles" in m:        # resumed: the static part is known, only the suite is missing
                m2 = dict(m)
                m2["suite"] = suite(root, lane)
                with lock:
                    results.append(m2)
                    if len(results) % 25 == 0:
                        print("  .. %d done" % len(results), flush=True)
                continue
            rc, out = sh([sys.executable, os.path.join(HERE, "tools", "sweep_one.py"), root], env=env, timeout=600)
            try:
                r = json.loads(out.strip().splitlines()[-1])
            except Exception:
                r = {"compiles": False, "fired": {}, "errors": {"runner": out[-300:]}}
            m2 = dict(m)
            m2["compiles"] = r["compiles"]
            m2["fired"] = r["fired"]
            m2["errors"] = r["errors"] if r["compiles"] else {}
            if r["compiles"] and run_tests and (bool(r["fired"]) if m["op"].startswith("b-") else not r["fired"]):
                m2["suite"] = suite(root, lane)
            with lock:
                results.append(m2)
                if len(results) % 25 == 0:
                    print("  .. %d done" % len(results), flush=True)
        finally:
            open(path, "w").write(orig)
            # remove snapshot leftovers the suite may write
            sh("find %s -name '*.snap.new' -delete" % root)


def main(argv):
    jobs = 12
    only = None
    outp = "/tmp/sweep-results.json"
    for i, a in enumerate(argv):
        if a == "--jobs":
            jobs = int(argv[i + 1])
        if a == "--only":
            only = argv[i + 1]
        if a == "--out":
            outp = argv[i + 1]
    run_tests = "--no-tests" not in argv
    ms = all_mutants(only, benign="--benign" in argv)
    for i, a in enumerate(argv):
        if a == "--ops":
            ops = set(argv[i + 1].split(","))
            ms = [m for m in ms if m["op"] in ops]
    done = []
    for i, a in enumerate(argv):
        if a == "--resume":
            prev = json.load(open(argv[i + 1]))
            done = [r for r in prev if not (r["compiles"] and not r["fired"])]
            ms = [r for r in prev if r["compiles"] and not r["fired"]]
    if "--list" in argv:
        for m in ms:
            print(m["file"], m["line"] + 1, m["fn"], m["op"], "|", m["new"].strip()[:90])
        print(len(ms), "mutants")
        return 0
    print("%d mutants, %d lanes" % (len(ms), jobs), flush=True)
    q = queue.Queue()
    for m in ms:
        q.put(m)
    results, lock = list(done), threading.Lock()
    t0 = time.time()
    ths = [threading.Thread(target=worker, args=(i, q, results, lock, run_tests)) for i in range(jobs)]
    for t in ths:
        t.start()
    for t in ths:
        t.join()
    json.dump(results, open(outp, "w"), indent=1)
    comp = [r for r in results if r["compiles"]]
    det = [r for r in comp if r["fired"]]
    und = [r for r in comp if not r["fired"]]
    surv = [r for r in und if r.get("suite") == "baseline"]
    print("%d mutants: %d build, %d reported by at least one rule, %d unreported (%d of them keep the suite result), %ds"
          % (len(results), len(comp), len(det), len(und), len(surv), time.time() - t0))
    per = {}
    for r in comp:
        k = (r["file"], r["fn"])
        d = per.setdefault(k, [0, 0, 0])
        d[0] += 1
        d[1] += 1 if r["fired"] else 0
        d[2] += 1 if (not r["fired"] and r.get("suite") == "baseline") else 0
    print("%-46s %-28s %5s %5s %5s" % ("file", "fn", "built", "rep.", "surv"))
    for k, d in sorted(per.items(), key=lambda kv: -kv[1][2]):
        print("%-46s %-28s %5d %5d %5d" % (k[0], k[1], d[0], d[1], d[2]))
    shutil.rmtree(SW, ignore_errors=True)
    return 0


if __name__ == "__main__":
    sys.exit(main(sys.argv[1:]))
