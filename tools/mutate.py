#!/usr/bin/env python3
"""Checker self-test: apply seeded edits to a scratch copy of /repo and re-run the *analyser* (never the code).

  tools/mutate.py [--only ID[,ID]] [--props C01,C02] [--jobs N] [--kind break|benign|all]

Corpus: mutants/corpus.py — entries {id, file, old, new, expect: {Cxx: [key substrings]}, benign: bool}.
For a breaking edit every property listed under `expect` must report a violation whose keys contain the given
substrings; every property not listed must stay silent unless listed under `may`.  A benign edit must leave all
properties silent.  Scratch copies live under $TMPDIR and are removed.
"""
import json, os, shutil, subprocess, sys, tempfile, time
from concurrent.futures import ThreadPoolExecutor

HERE = os.path.dirname(os.path.dirname(os.path.abspath(__file__)))
sys.path.insert(0, HERE)
REPO = os.environ.get("LSV_REPO", "/repo")


def all_props():
    import json as J
    m = J.load(open(os.path.join(HERE, "MANIFEST.json")))
    props = [c["property_id"] for c in m["checks"]]
    if "C13" not in props and os.path.exists(os.path.join(HERE, "lsv", "rules", "C13.py")):
        props.append("C13")
    return sorted(props)


def make_copy(entry, root):
    dst = os.path.join(root, "rust")
    shutil.copytree(os.path.join(REPO, "rust"), dst, ignore=shutil.ignore_patterns("target", "*.snap.new", "pkg"))
    edits = entry.get("edits") or [(entry["file"], entry["old"], entry["new"])]
    for (f, old, new) in edits:
        p = os.path.join(root, f)
        s = open(p).read()
        if s.count(old) < 1:
            return False
        s = s.replace(old, new, 1)
        open(p, "w").write(s)
    return True


def apply_patch_copy(patch, root):
    dst = os.path.join(root, "rust")
    shutil.copytree(os.path.join(REPO, "rust"), dst, ignore=shutil.ignore_patterns("target", "*.snap.new", "pkg"))
    r = subprocess.run(["patch", "-p1", "-s", "-d", root, "-i", patch], stdout=subprocess.PIPE, stderr=subprocess.STDOUT, text=True)
    return r.returncode == 0


def run_checks(root, props, work):
    res = {}
    env = dict(os.environ)
    env["LSV_WORK"] = work
    env["LSV_CACHE"] = "1"
    env["LSV_NO_EVIDENCE"] = "1"
    for p in props:
        r = subprocess.run([os.path.join(HERE, "check"), p, "--repo", root], stdout=subprocess.PIPE,
                           stderr=subprocess.STDOUT, text=True, env=env, cwd=HERE)
        keys = [l.strip()[5:].strip() for l in r.stdout.splitlines() if l.strip().startswith("FAIL ")]
        res[p] = {"rc": r.returncode, "keys": keys, "out": r.stdout[-3000:] if r.returncode == 2 else ""}
    return res


def judge(entry, res):
    problems = []
    expect = entry.get("expect", {})
    may = set(entry.get("may", []))
    for p, r in res.items():
        if r["rc"] == 2:
            problems.append("%s: analyser error: %s" % (p, r["out"][-400:]))
            continue
        if entry.get("benign"):
            if r["rc"] != 0:
                problems.append("%s: FALSE ALARM %s" % (p, r["keys"]))
            continue
        if p in expect:
            if r["rc"] != 1:
                problems.append("%s: MISSED (expected %s)" % (p, expect[p]))
            else:
                for sub in expect[p]:
                    if not any(sub in k for k in r["keys"]):
                        problems.append("%s: fired but not on '%s': %s" % (p, sub, r["keys"]))
        elif r["rc"] != 0 and p not in may:
            problems.append("%s: unexpected alarm %s" % (p, r["keys"]))
    return problems


def one(entry, props, slot):
    root = tempfile.mkdtemp(prefix="lsv-mut-")
    work = os.path.join(tempfile.gettempdir(), "lsv-work-%d" % slot)
    try:
        if not make_copy(entry, root):
            return entry["id"], "skipped (edit does not apply)", {}
        res = run_checks(root, props, work)
        return entry["id"], judge(entry, res), res
    finally:
        shutil.rmtree(root, ignore_errors=True)


def main(argv):
    from mutants.corpus import CORPUS
    only = None
    props = None
    jobs = 8
    kind = "all"
    for i, a in enumerate(argv):
        if a == "--only":
            only = set(argv[i + 1].split(","))
        if a == "--props":
            props = argv[i + 1].split(",")
        if a == "--jobs":
            jobs = int(argv[i + 1])
        if a == "--kind":
            kind = argv[i + 1]
    props = props or all_props()
    entries = [e for e in CORPUS if (only is None or e["id"] in only)]
    if kind == "break":
        entries = [e for e in entries if not e.get("benign")]
    if kind == "benign":
        entries = [e for e in entries if e.get("benign")]
    t0 = time.time()
    import itertools, threading
    slots = list(range(jobs))
    lock = threading.Lock()
    def task(e):
        with lock:
            s = slots.pop()
        try:
            ps = props
            return one(e, ps, s)
        finally:
            with lock:
                slots.append(s)
    bad = 0
    summary = []
    with ThreadPoolExecutor(max_workers=jobs) as ex:
        for (mid, problems, res) in ex.map(task, entries):
            if isinstance(problems, str):
                print("%-34s %s" % (mid, problems))
                summary.append({"id": mid, "result": "skipped"})
                continue
            fired = sorted(p for p, r in res.items() if r["rc"] == 1)
            if problems:
                bad += 1
                print("%-34s PROBLEM fired=%s" % (mid, fired))
                for pr in problems:
                    print("      " + pr)
            else:
                print("%-34s ok fired=%s" % (mid, fired))
            summary.append({"id": mid, "result": "problem" if problems else "ok", "fired": fired, "problems": problems,
                            "keys": {p: r["keys"] for p, r in res.items() if r["keys"]}})
    print("%d entries, %d with problems, %.0fs" % (len(entries), bad, time.time() - t0))
    for s in range(jobs):
        shutil.rmtree(os.path.join(tempfile.gettempdir(), "lsv-work-%d" % s), ignore_errors=True)
    if "--json" in argv:
        json.dump(summary, open(argv[argv.index("--json") + 1], "w"), indent=1)
    return 1 if bad else 0


if __name__ == "__main__":
    sys.exit(main(sys.argv[1:]))
