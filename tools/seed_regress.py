#!/usr/bin/env python3
"""Re-run the registered checks against every seeded change under /verif/seeded and compare with what meta.json
records (static_checks_fired).  Usage: seed_regress.py [--all-props] [--jobs N] [ids...]"""
import os, sys, json, tempfile, shutil
HERE = os.path.dirname(os.path.abspath(__file__))
sys.path.insert(0, HERE); sys.path.insert(0, os.path.dirname(HERE))
import mutate
from concurrent.futures import ThreadPoolExecutor

SEEDED = os.path.join(os.path.dirname(HERE), "seeded")


def one(d, all_props):
    meta = json.load(open(os.path.join(SEEDED, d, "meta.json")))
    root = tempfile.mkdtemp(prefix="lsv-seedreg-")
    work = os.path.join(tempfile.gettempdir(), "lsv-work-sr-" + d)
    try:
        if not mutate.apply_patch_copy(os.path.join(SEEDED, d, "patch.diff"), root):
            return d, meta, {"error": "noapply"}
        props = mutate.all_props() if (all_props or meta.get("benign")) else [meta["breaks_property"]]
        return d, meta, mutate.run_checks(root, props, work)
    finally:
        shutil.rmtree(root, ignore_errors=True)
        shutil.rmtree(work, ignore_errors=True)


def main():
    args = sys.argv[1:]
    all_props = "--all-props" in args
    jobs = int(args[args.index("--jobs") + 1]) if "--jobs" in args else 6
    ids = [a for a in args if not a.startswith("--") and not a.isdigit()]
    dirs = sorted(d for d in os.listdir(SEEDED) if os.path.exists(os.path.join(SEEDED, d, "meta.json")) and (not ids or d in ids))
    bad = 0
    with ThreadPoolExecutor(jobs) as ex:
        for d, meta, res in ex.map(lambda x: one(x, all_props), dirs):
            if "error" in res:
                print(d, "ERROR", res); bad += 1; continue
            own = meta["breaks_property"]
            benign = meta.get("benign")
            fired = sorted(p for p, r in res.items() if r["rc"] == 1)
            errs = sorted(p for p, r in res.items() if r["rc"] == 2)
            was = sorted(meta.get("static_checks_fired") or [])
            status = "ok"
            if errs:
                status = "ANALYSER-ERROR %s" % errs
            elif benign and fired and meta.get("expected_alarm"):
                status = "ok(known-imprecision)"
            elif benign and fired:
                status = "FALSE-ALARM"
            elif not benign and meta.get("caught_by_own_property_check", True) and own not in fired:
                status = "MISSED"
            if not status.startswith("ok"):
                bad += 1
            extra = ""
            if all_props and set(fired) != set(was):
                extra = " (recorded: %s)" % was
            print("%-12s %-14s fired=%s%s" % (d, status, fired, extra))
            if not status.startswith("ok"):
                for p in fired + errs:
                    print("      ", p, res[p]["keys"][:4], res[p]["out"][-300:])
            sys.stdout.flush()
    print("%d seeded changes, %d problems" % (len(dirs), bad))
    return 1 if bad else 0


if __name__ == "__main__":
    sys.exit(main())
