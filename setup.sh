#!/bin/sh
# Build the fact-extraction driver offline (nightly, rustc_private, zero dependencies) and warm the
# dependency build of lucid-suggest-core under the driver so that the first check is fast.
set -e
cd "$(dirname "$0")"
export CARGO_NET_OFFLINE=true
python3 - <<'PY'
import sys
sys.path.insert(0, '.')
from lsv import facts
facts.build_driver(force=True)
f = facts.extract_core()
print("driver built; facts:", len(f.bodies), "bodies")
PY
