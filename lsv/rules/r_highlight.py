"""Title-builder rules: R02.a sanitiser, R02.c tiling, R09.a marker typestate, R09.b span arithmetic,
R09.e new_pair guards, R09.f marker provenance, R09.g split keeps both halves non-empty."""
from .. import sym as S
from .. import util as U
from ..engine import where


def _builder(ctx):
    """the body that produces SearchResult.title: callee of the `title` operand of the SearchResult aggregate"""
    facts = ctx.facts
    for b in facts.fns():
        sy = ctx.sym(b)
        for bi, si, st in b.iter_stmts():
            if st["k"] == "assign" and st["rv"]["k"] == "agg" and st["rv"].get("did", "").endswith("SearchResult"):
                e = sy.rvalue(st["rv"])
                d = dict(zip(e[4], e[3]))
                t = d.get("title")
                if t is not None and t[0] == "call" and t[1] in [x.cn for x in facts.bodies.values()]:
                    cands = [x for x in facts.fns() if x.cn == t[1]]
                    if cands:
                        return cands[0]
    return None


class Ev:
    def __init__(self, bi, kind, a=None, b=None, term=None):
        self.bi, self.kind, self.a, self.b, self.term = bi, kind, a, b, term

    def __repr__(self):
        return "%s@bb%d" % (self.kind, self.bi)


def _out_events(ctx, hb):
    """events on the returned String: 'S' source slice (a, b), 'L'/'R' marker, 'X' other content write,
    'SAN' sanitiser; returns (out key, events by block, source field name)"""
    sy = ctx.sym(hb)
    # the output local: the String that flows into _0
    outs = []
    for kind, bi, si, node in hb.defs().get(0, []):
        if kind == "assign":
            outs.append((bi, S.strip_refs(sy.rvalue(node["rv"]))))
        else:
            outs.append((bi, S.strip_refs(sy.call_expr(node, bi))))
    return outs


def analyse_builder(ctx, rule_san, rule_tile, rule_ts):
    hb = _builder(ctx)
    if not ctx.require(rule_san, "title-builder", hb, what="callee producing SearchResult.title"):
        return None
    sy = ctx.sym(hb)
    cfg = ctx.cfg(hb)
    outs = _out_events(ctx, hb)
    # --- R02.a: every returned value is one String `out` that passed the sanitiser after its last content write
    out_keys = set(o for _, o in outs)
    key = "single-output"
    created = [o for o in out_keys if o[0] == "call" and o[1].endswith(("String::with_capacity", "String::new"))]
    if len(out_keys) == 1 and created:
        ctx.ok(rule_san, key, hb.where(), "every return path returns the one String built in this function", kind="S")
    else:
        for bi, o in outs:
            if not (o[0] == "call" and o[1].endswith(("String::with_capacity", "String::new"))):
                ctx.fail(rule_san, "unsanitised-return:bb-of-%s" % S.show(o, hb)[:40].replace(" ", ""), where(hb, bi),
                         "a return path yields `%s`, a value that never passes the NUL sanitiser" % S.show(o, hb)[:100],
                         {"witness": "German title 'Passstraße' (NUL padding after 'ß') returned for the empty query"}, kind="S")
    if not created:
        return None
    out = created[0]
    evs = []
    src_field = None
    for (bi, t, rk, m) in U.receiver_events(ctx, hb):
        if rk != out:
            continue
        if m in ("extend", "push_str", "extend_from_slice", "push", "insert", "insert_str"):
            arg = sy.operand(t["args"][1]) if len(t["args"]) > 1 else None
            a = S.strip_refs(arg) if arg is not None else None
            kind = "X"
            lo = hi = None
            if a is not None and a[0] == "call" and a[1].endswith("Index::index"):
                base = U.field_path(a[2][0])
                rng = S.strip_refs(a[2][1])
                if base and base[0] == "arg" and base[1] == 1 and rng[0] == "agg":
                    src_field = base[2]
                    kind = "S"
                    names = list(rng[4])
                    vals = dict(zip(names, rng[3]))
                    lo = vals.get("start", ("const", "usize", 0))
                    hi = vals.get("end")        # None = to the end
                    if rng[2].endswith("RangeFull"):
                        lo = ("const", "usize", 0)
                        hi = None
            elif a is not None:
                p = a
                if p[0] == "field" and S.strip_refs(p[1]) == ("arg", 2):
                    kind = "L" if str(p[2]) == "0" else ("R" if str(p[2]) == "1" else "X")
            evs.append(Ev(bi, kind, lo, hi, t))
        elif m == "retain":
            cb = U.closure_body(ctx, sy.operand(t["args"][1]))
            ok = False
            if cb is not None:
                e = ctx.sym(cb).local(0)
                ok = e[0] == "binop" and e[1] == "Ne" and S.const_value(e[3]) == "\0" and S.strip_refs(e[2]) == ("arg", 2)
            evs.append(Ev(bi, "SAN" if ok else "X", term=t))
        elif m in ("replace", "truncate", "clear", "pop", "remove", "drain"):
            evs.append(Ev(bi, "X", term=t))
    by_block = {e.bi: e for e in evs}
    sans = [e for e in evs if e.kind == "SAN"]
    key = "sanitiser"
    ctx.floor(rule_san, "sanitisers", len(sans), 1, hb.where())
    if sans:
        sb = sans[0].bi
        writes_after = [e for e in evs if e.kind != "SAN" and cfg.path_exists(sb, e.bi)]
        ret_ok = all(cfg.dominates(sb, bi) for bi, o in outs if o == out)
        if ret_ok and not writes_after:
            ctx.ok(rule_san, key, where(hb, sb, sans[0].term), "retain(ch != '\\0') dominates every return and nothing is written after it",
                   nontrivial=True, kind="S")
        else:
            ctx.fail(rule_san, key, where(hb, sb, sans[0].term), "the NUL sanitiser does not cover every path / content is added after it",
                     {"witness": "German title 'Passstraße'"}, kind="S")
    # --- paths: prefix (entry -> loop header), iteration (header -> header), suffix (header -> return)
    loop_blocks = [e.bi for e in evs if cfg.in_loop(e.bi)]
    if not loop_blocks:
        ctx.fail(rule_tile, "loop", hb.where(), "the title builder has no word loop any more (fail closed)", kind="S")
        return hb
    hdr = cfg.loop_header(loop_blocks[0])

    def paths(start, goal_pred, avoid_hdr):
        res = []
        def dfs(x, path, seen):
            if len(res) > 200:
                return
            for y in cfg.succ[x]:
                if goal_pred(y):
                    res.append(path + [y])
                    continue
                if y in seen or (avoid_hdr and y == hdr):
                    continue
                dfs(y, path + [y], seen | {y})
        dfs(start, [start], {start})
        return res

    iter_paths = paths(hdr, lambda y: y == hdr, False)
    suffix_paths = [p for p in paths(hdr, lambda y: y in cfg.returns, True)]
    ctx.count("builder_iteration_paths", len(iter_paths))

    def resolve_on_path(e, prefix, depth=0):
        """path-sensitive value: a join variable takes the value of its definition that lies latest on the path"""
        if not isinstance(e, tuple) or not e or depth > 6:
            return e
        if e[0] == "phi":
            best = None
            for d in hb.defs().get(e[1], []):
                if d[1] in prefix:
                    pos = len(prefix) - 1 - prefix[::-1].index(d[1])
                    if best is None or pos > best[0]:
                        best = (pos, d)
            if best is None:
                return e
            kind, dbi, dsi, node = best[1]
            v = sy.rvalue(node["rv"]) if kind == "assign" else sy.call_expr(node, dbi)
            return resolve_on_path(v, prefix[:best[0] + 1], depth + 1)
        return tuple(resolve_on_path(x, prefix, depth) if isinstance(x, tuple) else x for x in e)

    def seq(path):
        out_ = []
        for i_, b_ in enumerate(path):
            if b_ in by_block:
                ev = by_block[b_]
                if ev.kind == "S":
                    # the loop header itself (path[0]) carries the values of the previous iteration: not part of the prefix
                    pre = path[1:i_ + 1]
                    ev = Ev(ev.bi, ev.kind, resolve_on_path(ev.a, pre), resolve_on_path(ev.b, pre) if ev.b is not None else None, ev.term)
                out_.append(ev)
        return out_

    # cursor: the loop-carried local used as the first start
    def cursor_info():
        # assignments to the cursor inside the loop and before it
        for l, ds in hb.defs().items():
            if len(ds) >= 2 and hb.local_ty(l) == "usize":
                inits = [d for d in ds if not cfg.in_loop(d[1])]
                steps = [d for d in ds if cfg.in_loop(d[1])]
                if inits and steps:
                    return l, inits, steps
        return None, [], []
    cur, inits, steps = cursor_info()
    cur_e = sy.local(cur) if cur is not None else None

    def same(x, y):
        return S.norm(x) == S.norm(y)

    # --- R02.c tiling
    ok_all = True
    msgs = []
    if cur is None:
        ok_all = False
        msgs.append("no loop-carried cursor found")
    else:
        init_v = sy.rvalue(inits[0][3]["rv"]) if inits[0][0] == "assign" else None
        if not (init_v is not None and S.const_value(init_v) == 0 and len(inits) == 1):
            ok_all = False
            msgs.append("cursor does not start at 0")
        step_vals = [sy.rvalue(d[3]["rv"]) for d in steps if d[0] == "assign"]
        for p in iter_paths:
            ss = [e for e in seq(p) if e.kind == "S"]
            if not ss:
                # an iteration that copies nothing must not move the cursor
                continue
            if not same(ss[0].a, cur_e):
                ok_all = False
                msgs.append("first slice of an iteration starts at %s, not at the cursor" % S.show(ss[0].a, hb))
            for x, y in zip(ss, ss[1:]):
                if x.b is None or not same(x.b, y.a):
                    ok_all = False
                    msgs.append("gap/overlap: slice ends at %s, next starts at %s" %
                                (S.show(x.b, hb) if x.b else "end", S.show(y.a, hb)))
            last = ss[-1].b
            if last is None or not any(same(last, v) for v in step_vals):
                ok_all = False
                msgs.append("cursor is not advanced to the end of the last copied slice (%s)" % (S.show(last, hb) if last else "end"))
        for p in suffix_paths:
            ss = [e for e in seq(p) if e.kind == "S"]
            if len(ss) != 1 or ss[0].b is not None or not same(ss[0].a, cur_e):
                ok_all = False
                msgs.append("after the loop the rest of the source (cursor..) is not copied exactly once")
    key = "tiling"
    if ok_all:
        ctx.ok(rule_tile, key, hb.where(), "on every path the copied source slices tile [0, len): cursor starts at 0, adjacent "
               "endpoints are equal, the cursor advances to the last endpoint, the tail [cursor..] is copied once",
               {"iteration_paths": len(iter_paths), "source_field": src_field}, nontrivial=True, kind="S")
    else:
        ctx.fail(rule_tile, key, hb.where(), "the copied source slices do not tile the title: " + "; ".join(sorted(set(msgs))[:4]),
                 {"witness": "a title character is dropped or duplicated in the returned title"}, kind="S")
    # the copied text is the hit's `source` (original characters), not the normalised `chars`
    key = "copies-source"
    if src_field and src_field[-1] == "source":
        ctx.ok(rule_tile, key, hb.where(), "the builder copies from hit.title.source (the original characters)")
    else:
        ctx.fail(rule_tile, key, hb.where(), "the builder copies from %s, not from the original `source` text" % src_field,
                 {"witness": "returned titles are lower-cased / accent-folded"}, kind="S")
    # --- R09.a marker typestate: every iteration path and the suffix is in (S | L S R)*
    def balanced(events):
        st = "closed"
        for e in events:
            k = e.kind
            if st == "closed":
                if k == "S":
                    continue
                if k == "L":
                    st = "open0"
                    continue
                return "%s while no span is open" % ("closing marker" if k == "R" else k)
            if st == "open0":
                if k == "S":
                    st = "open1"
                    continue
                return "opening marker is not followed by exactly one source slice"
            if st == "open1":
                if k == "R":
                    st = "closed"
                    continue
                return "span is not closed with the right marker directly after its slice"
        return None if st == "closed" else "a span is still open at the end of the path"
    problems = []
    for p in iter_paths + suffix_paths:
        evp = [e for e in seq(p) if e.kind in ("S", "L", "R", "X")]
        r = balanced(evp)
        if r:
            problems.append(r)
    key = "marker-typestate"
    if not problems:
        ctx.ok(rule_ts, key, hb.where(), "on every path markers alternate left, one slice, right, and every path ends closed",
               nontrivial=True, kind="S")
    else:
        ctx.fail(rule_ts, key, hb.where(), "marker emission is unbalanced: %s" % "; ".join(sorted(set(problems))),
                 {"witness": "a returned title with nested / unclosed / reversed markers"}, kind="S")
    return hb


def span_arithmetic(ctx, rule):
    hb = _builder(ctx)
    if hb is None:
        return
    sy = ctx.sym(hb)
    # span bounds: word.slice.0 + rmatch.subslice.{0,1}, within a word matched by offset == enumerate index
    adds = []
    for bi, si, st in hb.iter_stmts():
        if st["k"] == "assign" and st["rv"]["k"] == "binop" and st["rv"]["op"].startswith("Add") and not hb.blocks[bi]["cleanup"]:
            a = S.strip_refs(sy.operand(st["rv"]["a"]))
            b = S.strip_refs(sy.operand(st["rv"]["b"]))
            def fp(x):
                names = []
                while isinstance(x, tuple) and x and x[0] == "field":
                    names.append(str(x[2]))
                    x = S.strip_refs(x[1])
                return names[::-1]
            fa, fb_ = fp(a), fp(b)
            if fb_[-2:] == ["slice", "0"] and fa[-2:-1] == ["subslice"]:
                fa, fb_ = fb_, fa            # `+` commutes
            adds.append((bi, st, fa, fb_))
    starts = [x for x in adds if x[2][-2:] == ["slice", "0"] and x[3][-2:] == ["subslice", "0"]]
    ends = [x for x in adds if x[2][-2:] == ["slice", "0"] and x[3][-2:] == ["subslice", "1"]]
    key = "span-bounds"
    span_problem = None
    if len(starts) == 1 and len(ends) == 1:
        # the highlighted slice is exactly source[start .. end] with these two sums — not an end chosen among several
        def plain_(e_):
            return ("binop", e_[1][:-len("WithOverflow")], e_[2], e_[3]) if e_[0] == "binop" and e_[1].endswith("WithOverflow") else e_
        s_e = S.norm(plain_(sy.rvalue(starts[0][1]["rv"])))
        e_e = S.norm(plain_(sy.rvalue(ends[0][1]["rv"])))
        seen = 0
        for bi_, t_ in hb.calls():
            if not U.callee_is(t_, "Index::index") or len(t_["args"]) != 2:
                continue
            rng = S.strip_refs(sy.operand(t_["args"][1]))
            if rng[0] == "agg" and rng[2].endswith("Range::Range") and len(rng[3]) == 2 and S.norm(rng[3][0]) == s_e:
                seen += 1
                if S.norm(rng[3][1]) != e_e:
                    span_problem = "the highlighted slice ends at `%s`, not at word.slice.0 + subslice.1" % S.show(rng[3][1], hb)[:90]
        if seen == 0:
            span_problem = "no slice source[start .. end] starting at word.slice.0 + subslice.0 is copied"
    if len(starts) == 1 and len(ends) == 1 and span_problem:
        ctx.fail(rule, key, where(hb, ends[0][0], ends[0][1]), "span bounds: %s" % span_problem,
                 {"witness": "query 'universe ' highlights the whole word [university]: ten characters for eight typed"})
    elif len(starts) == 1 and len(ends) == 1:
        ctx.ok(rule, key, where(hb, starts[0][0], starts[0][1]), "a span is [word.slice.0 + subslice.0, word.slice.0 + subslice.1)",
               nontrivial=True)
    else:
        ctx.fail(rule, key, hb.where(), "span bounds are no longer word.slice.0 + rmatch.subslice.{0,1}",
                 {"witness": "a span starts in the middle of a word / in the previous word"})
    # match lookup: m.offset == enumerate index of the word
    finds = [(bi, t) for bi, t in hb.calls() if U.callee_is(t, "Iterator::find")]
    key = "match-by-word-offset"
    ok = False
    for bi, t in finds:
        cb = U.closure_body(ctx, sy.operand(t["args"][1]))
        if cb is not None:
            e = ctx.sym(cb).local(0)
            if e[0] == "binop" and e[1] == "Eq":
                l, r = S.strip_refs(e[2]), S.strip_refs(e[3])
                if (l[0] == "field" and l[2] == "offset" and r[0] == "upvar") or (r[0] == "field" and r[2] == "offset" and l[0] == "upvar"):
                    pb, pe = ctx.model.upvar_expr(cb, (r if r[0] == "upvar" else l)[1])
                    if pe is not None and any(isinstance(x, tuple) and x and x[0] == "call" and x[1].endswith("Iterator::enumerate")
                                              for x in S.walk(pe)):
                        ok = True
    if not ok:
        # the same lookup written as a loop: a test `m.offset == position of the word` whose true side reaches the span arithmetic
        cfg = ctx.cfg(hb)
        span_blocks = set(x[0] for x in starts + ends)
        for bi, t in hb.iter_terms():
            bt = U.bool_switch_targets(t)
            if not bt:
                continue
            e = S.strip_refs(sy.operand(t["discr"]))
            if e[0] == "binop" and e[1] == "Eq":
                l, r = S.strip_refs(e[2]), S.strip_refs(e[3])
                for a_, b_ in ((l, r), (r, l)):
                    if a_[0] == "field" and a_[2] == "offset" and \
                            any(isinstance(x, tuple) and x and x[0] == "call" and x[1].endswith("Iterator::enumerate") for x in S.walk(b_)) and \
                            not any(isinstance(x, tuple) and x and x[0] == "field" and x[2] == "offset" for x in S.walk(b_)):
                        if U.branch_reaches(cfg, bi, bt[1], span_blocks):
                            ok = True
    if ok:
        ctx.ok(rule, key, hb.where(), "the match of a word is looked up by `m.offset == position of the word`", nontrivial=True)
    else:
        ctx.fail(rule, key, hb.where(), "the match of a word is no longer looked up by its word offset",
                 {"witness": "the span of one word is drawn on another word"})
    # every WordMatch constructed in non-test code starts its subslice at 0
    n = 0
    for b in ctx.facts.fns():
        if b.impl_trait:
            continue            # derived Clone/Debug copy fields
        bsy = ctx.sym(b)
        for bi, si, st in b.iter_stmts():
            if st["k"] == "assign" and st["rv"]["k"] == "agg" and st["rv"].get("did", "").endswith("WordMatch"):
                e = bsy.rvalue(st["rv"])
                d = dict(zip(e[4], e[3]))
                ss = S.strip_refs(d.get("subslice"))
                n += 1
                key = "subslice-starts-at-0:%s" % b.id
                if ss[0] == "agg" and S.const_value(ss[3][0]) == 0:
                    ctx.ok(rule, key, where(b, bi, st), "WordMatch is built with subslice.0 = 0")
                else:
                    ctx.fail(rule, key, where(b, bi, st), "a WordMatch is built with subslice.0 = %s: the span does not start at the first "
                             "character of the word" % (S.show(ss[3][0], b) if ss[0] == "agg" else "?"),
                             {"witness": "highlight starts inside the word"})
    ctx.floor(rule, "wordmatch_constructions", n, 2)


def new_pair_guards(ctx, rule):
    """R09.e: the call to WordMatch::new_pair is dominated by rslice <= rword.len() and qslice <= qword.len()"""
    for b in ctx.facts.fns():
        sy = ctx.sym(b)
        cfg = ctx.cfg(b)
        for bi, t in b.calls():
            if not U.callee_is(t, "WordMatch::new_pair"):
                continue
            args = [S.strip_refs(sy.operand(a)) for a in t["args"]]
            # the call may sit in a `|| Some(new_pair(..))` closure: lift to the creating body
            if b.kind == "closure" and all(a[0] == "upvar" for a in args[:4]):
                c = ctx.model.creation.get(b.id)
                if c is not None:
                    pb, cbi, csi, cst = c
                    lifted = []
                    for a in args:
                        if a[0] == "upvar":
                            _, pe = ctx.model.upvar_expr(b, a[1])
                            lifted.append(S.strip_refs(pe))
                        else:
                            lifted.append(a)
                    args = lifted
                    b, bi = pb, cbi
                    sy = ctx.sym(b)
                    cfg = ctx.cfg(b)
            # (rword, qword, rslice, qslice, typos)
            for (wi, si_, nm) in ((0, 2, "rslice"), (1, 3, "qslice")):
                key = "guard:%s<=len" % nm
                found = False
                for gbi, gt in b.iter_terms():
                    bt = U.bool_switch_targets(gt)
                    if not bt or not cfg.dominates(gbi, bi):
                        continue
                    e = sy.operand(gt["discr"])
                    if e[0] != "binop" or e[1] not in ("Gt", "Ge", "Le", "Lt"):
                        continue
                    l, r = S.strip_refs(e[2]), S.strip_refs(e[3])
                    op = e[1]
                    if r == args[si_] and l[0] == "call":
                        l, r, op = r, l, U.FLIP[op]
                    if l != args[si_]:
                        continue
                    # the bound may be a hoisted local captured by the closure: compare in terms of the creating body
                    r_ = S.strip_refs(U.rooted(ctx, b, r))
                    w_ = S.strip_refs(U.rooted(ctx, b, args[wi]))
                    if not (r_[0] == "call" and r_[1].endswith("Word::len") and S.strip_sites(S.strip_refs(r_[2][0])) == S.strip_sites(w_)):
                        continue
                    to_true = U.branch_reaches(cfg, gbi, bt[1], {bi})
                    to_false = U.branch_reaches(cfg, gbi, bt[0], {bi})
                    if to_true == to_false:
                        continue
                    holds = op if to_true else U.NEG[op]
                    if holds in ("Le", "Lt"):
                        found = True
                if found:
                    ctx.ok(rule, key, where(b, bi, t), "new_pair is reached only when %s <= len(word)" % nm, nontrivial=True)
                else:
                    ctx.fail(rule, key, where(b, bi, t), "new_pair can be reached with %s beyond the end of its word" % nm,
                             {"witness": "query 'metallica' against title 'metal': span runs past the word (debug_assert! in new_pair)"})
            return
    ctx.require(rule, "new_pair call", None)


def marker_provenance(ctx, rule):
    facts = ctx.facts
    # Store::dividers returns (&self.dividers.0, &self.dividers.1)
    for b in facts.fns():
        if b.cn.endswith("Store::dividers"):
            e = S.strip_refs(ctx.sym(b).local(0))
            key = "getter-order"
            ok = e[0] == "agg" and len(e[3]) == 2
            if ok:
                p0, p1 = U.field_path(e[3][0]), U.field_path(e[3][1])
                ok = bool(p0 and p1 and p0[2] == ["dividers", "0"] and p1[2] == ["dividers", "1"])
            if ok:
                ctx.ok(rule, key, b.where(), "Store::dividers returns (left, right) in stored order", nontrivial=True)
            else:
                ctx.fail(rule, key, b.where(), "Store::dividers does not return (dividers.0, dividers.1)",
                         {"witness": "every span opens with the closing marker"})
        if b.cn.endswith("Store::highlight_with"):
            sy = ctx.sym(b)
            key = "setter-order"
            ok = False
            for bi, si, st in b.iter_stmts():
                if st["k"] == "assign" and st["place"]["p"] and not b.blocks[bi]["cleanup"]:
                    pth = U.field_path(sy.dest(st["place"]))
                    if pth and pth[2] == ["dividers"]:
                        e = S.strip_refs(sy.rvalue(st["rv"]))
                        if e[0] == "agg" and len(e[3]) == 2:
                            def src(x):
                                x = S.strip_refs(x)
                                if x[0] == "call" and x[1].endswith("to_vec"):
                                    return U.field_path(x[2][0])
                                return None
                            s0, s1 = src(e[3][0]), src(e[3][1])
                            ok = bool(s0 and s1 and s0[0] == "arg" and s0[1] == 2 and s0[2] == ["0"] and s1[2] == ["1"])
            if ok:
                ctx.ok(rule, key, b.where(), "highlight_with stores (left, right) in the order given", nontrivial=True)
            else:
                ctx.fail(rule, key, b.where(), "highlight_with does not store its pair as (dividers.0, dividers.1) <- (arg.0, arg.1)",
                         {"witness": "markers swapped / one marker used twice"})
    # search passes self.dividers() to the builder
    from . import r_rank as RR
    sb = RR._search_body(ctx)
    if sb is not None:
        sy = ctx.sym(sb)
        cands = [U.chain(a) for a in U.flatten_phi(sy.local(0))]
        cands = [c for c in cands if len(c[1]) >= 3]
        src, stages = cands[0] if cands else (None, [])
        maps = [s for s in stages if s[0] == "map"]
        key = "search-passes-dividers"
        ok = False
        if maps:
            rb = U.closure_body(ctx, maps[-1][1][0])
            if rb is not None:
                e = ctx.sym(rb).local(0)
                for c in S.walk(e):
                    if isinstance(c, tuple) and c and c[0] == "call" and c[1].endswith("highlight::highlight"):
                        d = S.strip_refs(c[2][1])
                        if d[0] == "upvar":
                            pb, pe = ctx.model.upvar_expr(rb, d[1])
                            pe = S.strip_refs(pe) if pe is not None else None
                            ok = pe is not None and pe[0] == "call" and pe[1].endswith("Store::dividers") and S.strip_refs(pe[2][0]) == ("arg", 1)
        if ok:
            ctx.ok(rule, key, sb.where(), "the title builder receives this store's (left, right) pair unchanged", nontrivial=True)
        else:
            ctx.fail(rule, key, sb.where(), "the title builder does not receive `self.dividers()` as its marker pair",
                     {"witness": "changing the markers has no effect"})


# ------------------------------------------------------------------ tiny linear forms for R09.g

def _linear(e, atoms):
    """(coefs: {atom key: int}, const) or None"""
    e = S.strip_refs(e)
    if U.is_const(e) and isinstance(S.const_value(e), int):
        return {}, S.const_value(e)
    if e[0] == "binop" and e[1] in ("Add", "Sub"):
        a = _linear(e[2], atoms)
        b = _linear(e[3], atoms)
        if a is None or b is None:
            return None
        sign = 1 if e[1] == "Add" else -1
        co = dict(a[0])
        for k, v in b[0].items():
            co[k] = co.get(k, 0) + sign * v
        return {k: v for k, v in co.items() if v}, a[1] + sign * b[1]
    k = S.norm(e)
    atoms[k] = e
    return {k: 1}, 0


def split_nonempty(ctx, rule):
    """R09.g: in WordMatch::split the second half's span length A - B is >= 1 on the path that builds it"""
    sp = None
    for b in ctx.facts.fns():
        if b.cn.endswith("WordMatch::split"):
            sp = b
    if not ctx.require(rule, "WordMatch::split", sp):
        return
    sy = ctx.sym(sp)
    cfg = ctx.cfg(sp)
    atoms = {}
    aggs = []
    for bi, si, st in sp.iter_stmts():
        if st["k"] == "assign" and st["rv"]["k"] == "agg" and st["rv"].get("did", "").endswith("WordMatch"):
            e = sy.rvalue(st["rv"])
            d = dict(zip(e[4], e[3]))
            ss = S.strip_refs(d.get("subslice"))
            if ss[0] == "agg":
                aggs.append((bi, st, ss[3][1]))
    ctx.floor(rule, "split_halves", len(aggs), 2, sp.where())
    # facts from dominating guards
    facts_ = []
    for gbi, gt in sp.iter_terms():
        bt = U.bool_switch_targets(gt)
        if not bt:
            continue
        e = sy.operand(gt["discr"])
        if e[0] != "binop" or e[1] not in ("Le", "Lt", "Ge", "Gt"):
            continue
        l = _linear(e[2], atoms)
        r = _linear(e[3], atoms)
        if l is None or r is None:
            continue
        facts_.append((gbi, bt, e[1], l, r))
    for (bi, st, length) in aggs:
        lin = _linear(length, atoms)
        # which word does this half belong to?  (offset field copied from w1 = arg 2 or w2 = arg 3)
        e_ = sy.rvalue(st["rv"])
        d_ = dict(zip(e_[4], e_[3]))
        op_ = U.field_path(d_.get("offset"))
        second = bool(op_ and op_[0] == "arg" and op_[1] == 3)
        key = "half-nonempty:%s" % ("second" if second else "first")
        if lin is None:
            ctx.fail(rule, key, where(sp, bi, st), "span length of a split half is not linear: %s (fail closed)" % S.show(length, sp))
            continue
        if not second:
            # first half: (0, w1.len()) — non-empty because tokenised words are non-empty (C15), not decided here
            ctx.ok(rule, key, where(sp, bi, st), "first half spans the whole first word (non-empty by tokenisation, C15)")
            continue
        proved = False
        for (gbi, bt, op, l, r) in facts_:
            if not cfg.dominates(gbi, bi):
                continue
            to_true = U.branch_reaches(cfg, gbi, bt[1], {bi})
            to_false = U.branch_reaches(cfg, gbi, bt[0], {bi})
            if to_true == to_false:
                continue
            holds = op if to_true else U.NEG[op]
            # normalise the fact to  (lhs - rhs) >= k
            diff = dict(l[0])
            for k_, v in r[0].items():
                diff[k_] = diff.get(k_, 0) - v
            diff = {k_: v for k_, v in diff.items() if v}
            c = l[1] - r[1]
            if holds in ("Gt", "Ge"):
                lb = (1 if holds == "Gt" else 0) - c       # diff >= lb
                fdiff = diff
            else:
                lb = (1 if holds == "Lt" else 0) + c
                fdiff = {k_: -v for k_, v in diff.items()}
            if fdiff == lin[0] and lb + lin[1] >= 1:
                proved = True
        if not proved and not (lin[0] and all(isinstance(k_, tuple) and k_ and k_[0] in ("field", "call") for k_ in lin[0])):
            proved = False
        if proved:
            ctx.ok(rule, key, where(sp, bi, st), "the dominating guard implies that the second half of a joined match spans at least "
                   "one character", {"length": S.show(length, sp)}, nontrivial=True, kind="S")
        else:
            ctx.fail(rule, key, where(sp, bi, st), "no dominating guard implies that the second half of a joined match (`%s`) is non-empty"
                     % S.show(length, sp), {"witness": "title 'micro biology', query 'microx': an empty highlighted span before 'biology'"},
                     kind="S")


def dividers_writers(ctx, rule):
    """R09.h: the configured marker pair is written only by its setter and by the constructor"""
    from . import r_state as RS
    store = RS._store_adt(ctx)
    if store is None:
        return
    sid = store["id"]
    eff = ctx.eff
    writers = sorted(bid for bid, e in eff.direct.items() if (sid, "dividers") in e)
    key = "dividers-writers"
    extra = [w for w in writers if not w.endswith(("Store::highlight_with", "Store::new"))]
    if not extra and writers:
        ctx.ok(rule, key, "-", "Store.dividers is written only by %s" % writers, nontrivial=True)
    else:
        ctx.fail(rule, key, ctx.facts.bodies[extra[0]].where() if extra else "-",
                 "Store.dividers is also written by %s: the configured markers are silently replaced" % extra,
                 {"witness": "highlight_with(..); clear(); add; search: hits are decorated with the default markers"})
