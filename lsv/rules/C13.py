"""C13 — typing a whole title, or two of its words in another order, finds the record (necessary structure only).

The property quantifies over titles (duplicate words, function words, joined words); which record word each query
word is assigned to is a runtime matter and is NOT decided.  What is decided are clauses of the assignment loop and of
its surroundings whose violation makes the property fail for ordinary titles:

  R13.a  the scan over record words restarts at the first record word for every query word and runs over all of them
         (no `skip`/`take`/position carried over from the previous query word): otherwise the words in another order
         are not found;
  R13.b  a record / query word is passed over only because it is already matched;
  R13.c  only a non-function match stops the scan (`stop = !func` in the plain attempt);
  R13.d  two equal words pass every gate (distance 0 is accepted by the length, Jaccard and DL gates);
  R13.e  a hit with two or more matched words passes the filter;
  R13.f  shared with C03: index writer and reader use the same gram generator over whole words, the candidate cap is at
         least the limit, scratch state is fresh for every search, the pipeline is complete.
"""
from . import r_gates as RG
from . import r_trigram as RT
from . import r_rank as RR
from . import r_state as RS
from .. import sym as S
from .. import util as U
from ..engine import where
from .common import info


def _assignment_body(ctx):
    """the body that holds the two nested loops of text_match (the innermost thread-local accessor closure)"""
    best = None
    for b in ctx.facts.fns():
        if b.id.startswith("matching::text::text_match") and b.kind in ("closure", "fn"):
            nx = [bi for bi, t in b.calls() if (t.get("cn") or "").endswith("Iterator::next")]
            if len(nx) >= 2 and (best is None or len(b.id) < len(best.id)):
                best = b
    return best


def _word_source(ctx, b, e):
    """('rtext'|'qtext'|None, stage names) for an iterator expression over the words of one of the two texts"""
    src, stages = U.chain(e)
    pb, pe = U.out_of_closure(ctx, b, src)
    p = U.field_path(pe)
    which = None
    if p and p[2] and p[2][-1] == "words":
        root = pb
        # the root function text_match(rtext, qtext)
        if p[0] == "arg" and root.kind != "closure":
            which = {1: "rtext", 2: "qtext"}.get(p[1])
    return which, [s_[0] for s_ in stages]


def assignment_loops(ctx):
    b = _assignment_body(ctx)
    if not ctx.require("R13.a", "text_match loops", b):
        return
    sy = ctx.sym(b)
    cfg = ctx.cfg(b)
    loops = []       # (next block, header, which text, stage names)
    for bi, t in b.calls():
        if (t.get("cn") or "").endswith("Iterator::next"):
            which, names = _word_source(ctx, b, sy.operand(t["args"][0]))
            if which:
                loops.append((bi, cfg.inner_header(bi), which, names))
    outer = [l for l in loops if l[2] == "qtext"]
    inner = [l for l in loops if l[2] == "rtext"]
    key = "full-scan"
    if len(outer) != 1 or len(inner) != 1 or outer[0][1] is None or inner[0][1] is None:
        ctx.fail("R13.a", key, b.where(), "text_match no longer consists of one loop over the query words containing one loop over the "
                 "record words (fail closed): %s" % [(l[2], l[3]) for l in loops])
        return
    (onb, oh, _, onames), (inb, ih, _, inames) = outer[0], inner[0]
    # inner loop nested in the outer one, and its iterator is created inside the outer loop (restarts for every query word)
    iter_blocks = [bi for bi, t in b.calls() if (t.get("cn") or "").endswith(("::iter", "IntoIterator::into_iter"))
                   and cfg.dominates(bi, inb) and cfg.in_natural_loop(bi, oh)]
    nested = cfg.in_natural_loop(ih, oh) and ih != oh
    neutral = all(n in ("iter", "into_iter") for n in inames) and all(n in ("iter", "into_iter") for n in onames)
    if nested and iter_blocks and neutral:
        ctx.ok("R13.a", key, where(b, inb), "for every query word the scan restarts at the first record word and runs over all record "
               "words (plain `words.iter()`, created inside the query loop)", nontrivial=True)
    else:
        ctx.fail("R13.a", key, where(b, inb), "the scan over the record words is restricted (%s; nested: %s; restarted per query word: %s): "
                 "words typed in another order are not all tried" % (inames, nested, bool(iter_blocks)),
                 {"witness": "title 'yellow metal mailbox', query 'mailbox yellow'"})
    # R13.b: the only way back to a loop header without attempting a match is the `already matched` test
    attempts = set(bi for bi, t in b.calls() if (t.get("cn") or "").endswith(("Option::or_else",)) or
                   (t.get("rcn") or "").endswith("word::word_match"))

    def some_target(nb_):
        tg = b.blocks[nb_]["term"].get("target")
        sw = b.blocks[tg]["term"] if tg is not None else None
        if sw is None or sw["k"] != "switch":
            return None
        st_ = [x for v, x in sw["targets"] if v == 1]
        return st_[0] if st_ else None
    for name, nb_, h, att in (("record", inb, ih, set(attempts)), ("query", onb, oh, set(attempts) | {ih, inb})):
        k2 = "skip-only-taken:%s" % name
        s0 = some_target(nb_)
        if s0 is None:
            ctx.fail("R13.b", k2, where(b, nb_), "loop over the %s words not recognised (fail closed)" % name)
            continue
        before_attempt = cfg.reachable_from(s0, avoid=list(att) + [nb_]) | {s0}
        bad, n_guard = [], 0
        for bi, t in b.iter_terms():
            bt = U.bool_switch_targets(t)
            if not bt or bi not in before_attempt or not cfg.in_natural_loop(bi, h):
                continue
            def skips(side):
                return side == nb_ or cfg.path_exists(side, nb_, avoid=list(att))
            def attempts_from(side):
                return side in att or any(cfg.path_exists(side, a, avoid=[nb_]) for a in att)
            sk = [side for side in bt if skips(side) and not attempts_from(side)]
            if not sk or len(sk) == 2:
                continue
            e = S.strip_refs(sy.operand(t["discr"]))
            ok = e[0] == "call" and e[1].endswith(("Option::is_some", "Option::is_none")) and \
                any(isinstance(x, tuple) and x and x[0] == "call" and x[1].endswith("Index::index") for x in S.walk(e))
            if ok:
                n_guard += 1
            else:
                bad.append((bi, S.show(e, b)[:80]))
        if bad:
            ctx.fail("R13.b", k2, where(b, bad[0][0]), "a %s word is passed over for a reason other than being matched already: `%s`"
                     % (name, bad[0][1]), {"witness": "a title word that is never tried against the query"})
        else:
            ctx.ok("R13.b", k2, b.where(), "%s words are passed over only when they are matched already (%d guard%s)"
                   % (name, n_guard, "" if n_guard == 1 else "s"), nontrivial=True)
    # R13.c: the scan stops only on a non-function match
    stops = []
    for cb in [b] + U.nested_closures(ctx, b):
        csy = ctx.sym(cb)
        for bi, si, st in cb.iter_stmts():
            if st["k"] != "assign" or cb.blocks[bi]["cleanup"] or st["place"].get("ty") != "bool" or not st["place"]["p"]:
                continue
            dest = S.strip_refs(csy.dest(st["place"]))
            nm = None
            if dest[0] == "upvar":
                nm = dest[2]
            elif dest[0] == "deref" and S.strip_refs(dest[1])[0] == "upvar":
                nm = S.strip_refs(dest[1])[2]
            if nm != "stop":
                continue
            stops.append((cb, bi, st, csy.rvalue(st["rv"])))
    key = "function-words-do-not-stop"
    plain = [x for x in stops if not (U.is_const(x[3]) and S.const_value(x[3]) is True)]
    if not stops:
        ctx.assumed("R13.c", key, b.where(), "no `stop` flag found: the scan policy is not decided")
    elif plain and all(S.strip_refs(x[3])[0] == "unop" and str(S.strip_refs(x[3])[1]).lower() == "not" and
                       S.strip_refs(S.strip_refs(x[3])[2])[0] == "field" and str(S.strip_refs(S.strip_refs(x[3])[2])[2]) == "func"
                       for x in plain):
        ctx.ok("R13.c", key, where(plain[0][0], plain[0][1], plain[0][2]), "a plain word match stops the scan only if it is not a function "
               "word (`stop = !func`)", nontrivial=True)
    else:
        x = (plain or stops)[0]
        ctx.fail("R13.c", key, where(x[0], x[1], x[2]), "the scan for a record word stops on `%s`, not on `!func`: a function word that "
                 "matches first hides the better word behind it" % S.show(x[3], x[0])[:60],
                 {"witness": "title 'the theatre', query 'the theatre': both query words compete for the first word"})


def exact_words_pass(ctx, gates):
    for g in gates:
        if g.kind not in ("length", "jaccard", "damlev"):
            continue
        key = "accepts-distance-0:%s:%s" % (g.kind, g.body.id)
        if g.accepts(0.0):
            ctx.ok("R13.d", key, where(g.body, g.bi), "%s gate accepts distance 0 (%s)" % (g.kind, g.describe()))
        else:
            ctx.fail("R13.d", key, where(g.body, g.bi), "%s gate rejects two equal words (%s)" % (g.kind, g.describe()),
                     {"witness": "title 'lamp', query 'lamp '"})


def filter_passes_two_matches(ctx):
    """abstract run of hit_matches: query not empty, two query words, two matched record words -> true"""
    RR.filter_passes(ctx, "R13.e", "two-matches-pass", 2, 2, 2, "a hit with two matched record words and two matched query words",
                     "title 'metal detector', query 'detector metal'")


def _empty_query_only(ctx):
    """bodies that Store::search reaches only on the side of its `query has no words` branch (C13 quantifies over queries
    with at least one word)"""
    sb = RR._search_body(ctx)
    if sb is None:
        return set()
    sy = ctx.sym(sb)
    cfg = ctx.cfg(sb)
    for bi, t in sb.iter_terms():
        bt = U.bool_switch_targets(t)
        if not bt:
            continue
        lt = U.len_test(sy.operand(t["discr"]))
        if lt is None:
            continue
        p = U.field_path(lt[0])
        if not (p and p[2] == ["words"]) or lt[1](0) == lt[1](1):
            continue
        empty_side = bt[1] if lt[1](0) else bt[0]
        other_side = bt[0] if lt[1](0) else bt[1]
        on_empty, elsewhere = set(), set()
        for cbi, ct in sb.calls():
            tg = [x for x, _ in ctx.cg.targets(sb, ct)]
            only_empty = (cbi == empty_side or cfg.dominates(empty_side, cbi)) and not (cbi == other_side or cfg.dominates(other_side, cbi))
            (on_empty if only_empty else elsewhere).update(tg)
        return ctx.cg.reachable(sorted(on_empty)) - ctx.cg.reachable(sorted(elsewhere))
    return set()


def run(ctx):
    assignment_loops(ctx)
    gates = RG._gates(ctx, "R13.d")
    if gates is not None:
        RG.gate_presence(ctx, "R13.d", gates, ["jaccard", "length", "damlev"])
        exact_words_pass(ctx, gates)
    filter_passes_two_matches(ctx)
    RT.shared_generator(ctx, "R13.f")
    RT.grams_from_whole_words(ctx, "R13.f")
    RT.candidate_cap(ctx, "R13.f", minimum=1)
    RT.every_posting_counted(ctx, "R13.f")
    RT.counters(ctx, "R13.f")
    RT.only_store_add_feeds_index(ctx, "R13.f")
    RT.positivity_filter(ctx, "R13.f")
    RT.postings_unconditional(ctx, "R13.f")
    # the tokeniser's per-word stages visit every word (a stale stem makes a word unmatchable); caches are coherent
    from . import r_token as RK
    RK.per_word_stages_unconditional(ctx, "R13.g")
    RK.text_methods_use_chars(ctx, "R13.g")
    RS.memo_coherence(ctx, "R13.h", skip_fill=lambda fb_: fb_.id in _empty_query_only(ctx))
    from . import C10 as RC10
    RC10.hidden_state_inventory(ctx, "R13.h", RS.reset_before_read(ctx, None))
    RS.reset_before_read(ctx, "R13.f", floor=8)
    RR.search_chain_shape(ctx, "R13.f", parts=("complete", "score", "filter"))
    from . import C20 as RC20
    RC20.buffer_rules(ctx, None, None, "R20.f")
    from . import C20 as _RC20
    _RC20.api_effects(ctx, "R13.i", which=("add",))
    from . import r_join as _RJ
    _RJ.plain_attempt_unguarded(ctx, "R13.j")
    from . import r_rank as _RR2
    from .common import Only as _Only
    # of the selection rules only what a store no larger than the limit needs: the limit reaches the selection unnarrowed
    # and every item is buffered (how exactly the cut is made is C06's business)
    _RR2.bounded_selection(_Only(ctx, ("ctor-roles", "every-item-buffered", "anchor")), "R06.a")
    _RR2.limit_provenance(ctx, "R06.a")
    from . import r_word as _RW2
    _RW2.no_shadowed_defaults(ctx, "R13.k")
    return info("R13.k: no impl overrides a provided method of the crate's traits (Word::len / dist / is_function, LimitSort). R06.a: the bounded selection keeps `limit` items at full width (a store no larger than the limit loses no hit to the cut). R13.j: the word-to-word alternative of text_match calls word_match on every path (no pre-test in front of the gates). R13.i: add_record really adds the record to the addressed store on every call (the registry API is not exercised by the repository's tests). Necessary structure only (which record word a query word is assigned to is a runtime matter and is not decided): "
                "R13.a the scan over record words restarts at the first word and covers all words for every query word; R13.b words are "
                "passed over only when matched already; R13.c only a non-function match stops the scan; R13.d equal words pass the "
                "length, Jaccard and DL gates; R13.e two matched words pass the filter (abstract run); R13.f gram generator, "
                "candidate cap, scratch freshness and pipeline completeness shared with C03.")
