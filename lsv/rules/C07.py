"""C07 — ranking is a consistent order, independent of others and of insert order."""
from . import r_rank as RR
from . import r_trigram as RT
from .common import info


def run(ctx):
    comps = RR.comparators_wellformed(ctx, "R07.a")
    RR.scores_iter_in_order(ctx, "R07.a")
    RR.insertion_position_unread(ctx, "R07.b")
    RR.hit_from_record(ctx, "R07.b")
    RR.priorities(ctx, "R07.c", match_before_rating=False)
    RR.rating_confinement(ctx, "R07.c")
    RT.candidate_cap(ctx, "R06.b", minimum=10)
    RR.bounded_selection(ctx, "R06.a")
    RR.search_chain_shape(ctx, "R06.a", parts=("order", "score", "comparator"))
    RT.postings_unconditional(ctx, "R18.g")
    RT.counters(ctx, "R07.e", need_clear=False)
    RT.only_store_add_feeds_index(ctx, "R07.e")
    RT.every_posting_counted(ctx, "R07.e")
    RR.per_record_purity(ctx, "R06.e")
    # the memoised empty-query ranking must be a function of the records and the limit (not of the order of adds/searches)
    from . import r_state as RS
    RS.memo_coherence(ctx, "R07.d")
    from . import C20 as _RC20
    _RC20.api_effects(ctx, "R07.f", which=("add",))
    return info("R07.f: add_record really adds the record to the addressed store on every call (the registry API is not exercised by the repository's tests). R07.a: every comparator handed to a selection (compare_hits, the empty-query closure, the candidate closure) "
                "is a lexicographic composition of Ord::cmp on the same integer/char projection of both arguments, hence a "
                "total pre-order; R07.b: Record.ix / Store.next_ix are not read on the ranking path and a Hit copies only id, "
                "title, rating; R07.c: the rating is a component of the compared vector and every slot is written once; shared "
                "R06.a (selection forwards argument order) and R06.e (no cross-record state).")
