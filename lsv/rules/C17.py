"""C17 — the Jaccard pre-filter (structural clauses R17.a, R17.b, RS)."""
from . import r_state as RS
from .. import sym as S
from .. import util as U
from ..effects import field_chain
from ..engine import where
from .common import info


def _similarity(ctx):
    for b in ctx.facts.fns():
        if b.kind == "method" and b.cn.endswith("Jaccard::similarity"):
            return b
    return None


def chain_rule(ctx, rule):
    b = _similarity(ctx)
    if not ctx.require(rule, "Jaccard::similarity", b):
        return
    sy = ctx.sym(b)
    cfg = ctx.cfg(b)
    merges = [(bi, t) for bi, t in b.calls() if t.get("callee_local") and len(t["args"]) == 2
              and t["dest"]["l"] == 0 and not t["dest"]["p"]]
    if not ctx.require(rule, "merge-call", merges, b.where(), "local call producing the result from two slices"):
        return
    mbi, mt = merges[0]
    margs = [S.strip_refs(sy.operand(a)) for a in mt["args"]]
    # buffers: borrow_mut keys
    bufs = {}
    for bi, t in b.calls():
        if U.callee_is(t, "RefCell::borrow_mut"):
            key = S.strip_refs(sy.call_expr(t, bi))
            ch, _ = field_chain(sy.operand(t["args"][0]))
            bufs[key] = ch[-1][1] if ch else "?"
    ctx.floor(rule, "jaccard_buffers", len(bufs), 2, b.where())
    key = "merge-args"
    if len(margs) == 2 and margs[0] in bufs and margs[1] in bufs and margs[0] != margs[1]:
        ctx.ok(rule, key, where(b, mbi, mt), "the merge receives exactly the two prepared buffers (%s, %s)" %
               (bufs[margs[0]], bufs[margs[1]]), nontrivial=True)
    else:
        ctx.fail(rule, key, where(b, mbi, mt), "the merge is not called on the two prepared buffers: %s" %
                 [S.show(a, b)[:60] for a in margs], {"witness": "similarity('ab','ab') != 1"})
    inputs = {}
    for bkey, name in bufs.items():
        evs = [(bi, t, m) for (bi, t, rk, m) in U.receiver_events(ctx, b) if rk == bkey]
        order = []
        srcs = {}
        for bi, t, m in evs:
            if m in ("resize", "copy_from_slice", "sort_unstable", "sort", "dedup", "extend", "push", "clear",
                     "extend_from_slice", "sort_unstable_by", "sort_by", "dedup_by_key", "truncate", "retain"):
                order.append((bi, m))
                if m == "resize":
                    srcs["resize"] = S.strip_refs(sy.operand(t["args"][1]))
                if m in ("copy_from_slice", "extend_from_slice"):
                    srcs["copy"] = S.strip_refs(sy.operand(t["args"][1]))
        names = [m for _, m in order]
        k2 = "chain:%s" % name
        def pos(prefixes):
            for i, (bi, m) in enumerate(order):
                if m.startswith(prefixes):
                    return i, bi
            return None, None
        ic, bc = pos(("copy_from_slice",))
        clear_extend = False
        if ic is None:
            # the other whole overwrite: clear(); extend_from_slice(x)
            icl, bcl = pos(("clear",))
            iex, bex = pos(("extend_from_slice",))
            if icl is not None and iex is not None and icl < iex and cfg.dominates(bcl, bex) and \
                    not [m for _, m in order[icl + 1:iex]]:
                ic, bc = iex, bex
                clear_extend = True
        is_, bs = pos(("sort",))
        idd, bd = pos(("dedup",))
        good = None not in (ic, is_, idd) and ic < is_ < idd and all(
            cfg.dominates(x, mbi) for x in (bc, bs, bd)) and cfg.dominates(bc, bs) and cfg.dominates(bs, bd)
        # nothing mutates the buffer between dedup and the merge
        if good:
            later = [m for (bi, m) in order if cfg.path_exists(bd, bi) and bi != bd]
            good = not later
        # whole overwrite: resize to len(X) then copy X
        same_src = False
        if "resize" in srcs and "copy" in srcs:
            r = srcs["resize"]
            same_src = r[0] == "call" and r[1].endswith("::len") and S.strip_refs(r[2][0]) == srcs["copy"]
            inputs[name] = srcs["copy"]
        elif clear_extend and "copy" in srcs:
            same_src = True
            inputs[name] = srcs["copy"]
        if good and same_src:
            ctx.ok(rule, k2, b.where(), "buffer %s: whole overwrite (resize to len(x), copy x) -> sort -> dedup precedes the merge "
                   "on every path" % name, {"events": names}, nontrivial=True, kind="S")
        else:
            ctx.fail(rule, k2, b.where(), "buffer %s is not prepared as overwrite -> sort -> dedup before the merge (events %s, "
                     "resize/copy from the same slice: %s)" % (name, names, same_src),
                     {"witness": "similarity('aab','ab') counts the repeated letter / depends on the previous call"}, kind="S")
    # the two buffers take the two different inputs
    key = "distinct-inputs"
    vals = list(inputs.values())
    if len(vals) == 2 and vals[0] != vals[1] and all(v[0] == "arg" for v in vals):
        ctx.ok(rule, key, b.where(), "the two buffers are filled from the two different argument slices")
    else:
        ctx.fail(rule, key, b.where(), "the two buffers are not filled from the two different argument slices: %s" %
                 [S.show(v, b) for v in vals], {"witness": "similarity(x, y) == 1 for all x, y"})


def early_returns(ctx, rule):
    b = _similarity(ctx)
    if b is None:
        return
    sy = ctx.sym(b)
    def walk_to_const(l0_zero, l1_zero):
        """follow the entry of the function for the abstract lengths (0 or >0) of the two argument slices, evaluating
        length / emptiness tests, until the return value is assigned a constant or something else is computed"""
        POS = "pos"
        env = {}

        def length_of(arg_expr):
            a = S.strip_refs(arg_expr)
            if a == ("arg", 2):
                return l0_zero if isinstance(l0_zero, int) and not isinstance(l0_zero, bool) else (0 if l0_zero else POS)
            if a == ("arg", 3):
                return l1_zero if isinstance(l1_zero, int) and not isinstance(l1_zero, bool) else (0 if l1_zero else POS)
            return None

        def val(op):
            if "const" in op:
                c = op["const"]
                e = sy.operand(op)
                return S.const_value(e) if U.is_const(e) else None
            pl = op.get("copy") or op.get("move")
            if pl is None or pl["p"]:
                return None
            return env.get(pl["l"])

        def cmp_(op, a, b_):
            if a is None or b_ is None:
                return None
            outs = set()
            for x in ([1, 5] if a == POS else [a]):
                for y in ([1, 5] if b_ == POS else [b_]):
                    try:
                        outs.add(bool(U.cmp_eval(op, x, y)))
                    except Exception:
                        return None
            return outs.pop() if len(outs) == 1 else None
        blk = 0
        for _ in range(80):
            bl = b.blocks[blk]
            for st in bl["stmts"]:
                if st["k"] != "assign" or st["place"]["p"]:
                    continue
                l = st["place"]["l"]
                rv = st["rv"]
                v = None
                if rv["k"] == "use":
                    v = val(rv["op"])
                elif rv["k"] == "binop" and rv["op"] in U.CMP_OPS:
                    v = cmp_(rv["op"], val(rv["a"]), val(rv["b"]))
                elif rv["k"] == "unop" and str(rv["op"]).lower() == "not":
                    x = val(rv["a"])
                    v = (not x) if isinstance(x, bool) else None
                elif rv["k"] == "agg" and rv.get("akind") == "tuple":
                    v = ("tuple", tuple(val(o) for o in rv["ops"]))
                if l == 0:
                    if rv["k"] == "use" and isinstance(v, (int, float)) and not isinstance(v, bool):
                        return v
                    return "non-const"
                env[l] = v
            t = bl["term"]
            if t["k"] == "switch":
                d = t["discr"]
                pl = d.get("copy") or d.get("move")
                x = None
                if pl is not None:
                    x = env.get(pl["l"])
                    for pr in pl["p"]:
                        if isinstance(pr, dict) and "f" in pr and isinstance(x, tuple) and x and x[0] == "tuple":
                            x = x[1][pr["f"]] if pr["f"] < len(x[1]) else None
                        else:
                            x = None
                if x is None:
                    return "computed"
                tg = dict((v_, y) for v_, y in t["targets"])
                if isinstance(x, bool):
                    blk = tg.get(1 if x else 0, t["otherwise"])
                elif x == POS:
                    if set(tg) <= {0}:
                        blk = t["otherwise"]
                    else:
                        return "computed"
                elif isinstance(x, int):
                    blk = tg.get(x, t["otherwise"])
                else:
                    return "computed"
                if blk is None:
                    return "computed"
            elif t["k"] == "goto":
                blk = t["target"]
            elif t["k"] == "call":
                v = None
                if U.callee_is(t, "<impl [T]>::len", "Vec::len") and t["args"]:
                    v = length_of(sy.operand(t["args"][0]))
                elif U.callee_is(t, "<impl [T]>::is_empty", "Vec::is_empty") and t["args"]:
                    n_ = length_of(sy.operand(t["args"][0]))
                    v = None if n_ is None else (n_ == 0)
                else:
                    nm = (t.get("cn") or "").rsplit("::", 1)[-1]
                    if nm in ("resize", "clear", "extend", "extend_from_slice", "copy_from_slice", "clone_from_slice", "sort",
                              "sort_unstable", "dedup", "simple_similarity", "borrow_mut", "reserve", "truncate", "deref_mut", "deref",
                              "iter", "into_iter", "cloned", "copied", "index_mut", "index", "to_vec"):
                        return "computed"
                    return "other call: %s" % nm
                if v is None or t["dest"]["p"] or t.get("target") is None:
                    return "computed"
                env[t["dest"]["l"]] = v
                blk = t["target"]
            elif t["k"] == "return":
                return "non-const"
            elif t["k"] in ("assert", "drop") and isinstance(t.get("target"), int):
                blk = t["target"]
            else:
                return "computed"
        return "computed"
    # non-empty inputs of concrete small sizes reach the buffer preparation / merge like any other (no shortcut for one-element
    # inputs: a singleton against a sequence with repetitions is not 1/len)
    for (n0, n1) in ((1, 1), (1, 5), (5, 1), (2, 3)):
        got = walk_to_const(n0, n1)
        key = "no-shortcut:%d,%d" % (n0, n1)
        if got == "computed":
            ctx.ok(rule, key, b.where(), "lengths (%d, %d) go through the set computation" % (n0, n1))
        else:
            ctx.fail(rule, key, b.where(), "for lengths (%d, %d) the similarity is decided by a shortcut (%s) instead of the set computation"
                     % (n0, n1, got), {"witness": "similarity('a', 'aa') must be 1 (one distinct letter on both sides), not 1/2"})
    table = {(True, True): 1.0, (True, False): 0.0, (False, True): 0.0, (False, False): "computed"}
    for (z0, z1), want in table.items():
        got = walk_to_const(z0, z1)
        key = "empty-case:%s,%s" % ("0" if z0 else "n", "0" if z1 else "n")
        if got == want:
            ctx.ok(rule, key, b.where(), "lengths (%s, %s) -> %s" % ("0" if z0 else ">0", "0" if z1 else ">0", got),
                   nontrivial=True)
        else:
            ctx.fail(rule, key, b.where(), "for lengths (%s, %s) the similarity is %s, expected %s" %
                     ("0" if z0 else ">0", "0" if z1 else ">0", got, want),
                     {"witness": "similarity('', '') must be 1, similarity('', 'a') must be 0"})


def merge_shape(ctx, rule):
    cands = [b for b in ctx.facts.fns() if b.kind == "fn" and b.cn.startswith("matching::jaccard::") and b.local_ty(0) == "f64"
             and b.arg_count == 2]
    if not ctx.floor(rule, "merge_functions", len(cands), 1):
        return
    b = cands[0]
    sy = ctx.sym(b)
    e = sy.local(0)
    key = "ratio:%s" % b.id
    ok = e[0] == "binop" and e[1] == "Div" and e[2][0] == "cast" and e[3][0] == "cast" and S.norm(e[2]) != S.norm(e[3])
    if ok:
        ctx.ok(rule, key, b.where(), "result is (intersection as f64) / (union as f64) of two different counters")
    else:
        ctx.fail(rule, key, b.where(), "merge result is not a ratio of two counters: %s" % S.show(e, b)[:120])
        return
    # the denominator receives the unmatched tails of both inputs: two `len - i` terms
    den = e[3][2]
    tails = 0
    for bi, si, st in b.iter_stmts():
        if st["k"] == "assign" and st["rv"]["k"] == "binop" and st["rv"]["op"].startswith("Sub") and not b.blocks[bi]["cleanup"]:
            a = sy.operand(st["rv"]["a"])
            if a[0] == "call" and a[1].endswith("::len"):
                tails += 1
    key = "tails:%s" % b.id
    if tails >= 2:
        ctx.ok(rule, key, b.where(), "the unmatched tails of both inputs (len - i) are added to the union", nontrivial=True)
    else:
        ctx.fail(rule, key, b.where(), "the union does not include the unmatched tails of both inputs (%d `len - i` terms)" % tails,
                 {"witness": "similarity('a','abc') > 1/3"})


def run(ctx):
    chain_rule(ctx, "R17.a")
    early_returns(ctx, "R17.b")
    merge_shape(ctx, "R17.c")
    RS.reset_before_read(ctx, "RS", only_owner="matching::jaccard::Jaccard", floor=2)
    return info("R17.a: for both reusable buffers the chain whole-overwrite (resize to len(x), copy x) -> sort -> dedup dominates "
                "the merge, nothing touches the buffer afterwards, the merge gets exactly these two buffers, filled from the two "
                "different inputs; R17.b: abstract walk of the length switches gives (0,0)->1.0, one empty->0.0, otherwise computed; "
                "R17.c: the merge returns a ratio of two distinct counters and adds both unmatched tails to the union; RS: buffers "
                "are reset before use. The two-pointer loop arithmetic is not decided.")
