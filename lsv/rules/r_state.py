"""State rules: RS reset-before-read, R10.a memo coherence, R10.b consistency group, R10.d matrix, R10.e inventory."""
from .. import sym as S
from .. import util as U
from ..effects import field_chain
from ..engine import where

RESET_METHODS = ("clear",)
NEUTRAL_METHODS = ("resize", "reserve", "reserve_exact", "capacity", "shrink_to_fit", "with_capacity",
                   "deref_mut", "deref", "borrow_mut", "borrow")
COLLECTION_PREFIXES = ("std::vec::Vec<", "std::string::String", "std::collections::HashMap<",
                       "std::collections::HashSet<", "std::collections::VecDeque<", "std::collections::BTreeMap<")


def _is_collection(tyname):
    return tyname.startswith(COLLECTION_PREFIXES)


def _cell_payload(facts, tyname):
    """payload type of RefCell<T> / T"""
    t = facts.ty(tyname)
    if t.get("k") == "adt" and t["did"] == "std::cell::RefCell" and t.get("args"):
        return t["args"][0], True
    return tyname, False


class Scope:
    """one body-local view of a long-lived buffer: the key expression all uses resolve to"""

    def __init__(self, body, cell, key, start_bi, via):
        self.body = body
        self.cell = cell          # ('field', adt, name) | ('tls', KEY)
        self.key = key            # reference-stripped provenance expression
        self.start = start_bi
        self.via = via

    def cell_name(self):
        return "%s.%s" % (self.cell[1].rsplit("::", 1)[-1], self.cell[2]) if self.cell[0] == "field" else self.cell[1]


def find_scopes(ctx):
    """all scopes in which a long-lived collection is obtained mutably"""
    facts = ctx.facts
    model = ctx.model
    scopes = []
    for b in facts.fns():
        sy = ctx.sym(b)
        seen_keys = set()
        # (1) RefCell::borrow_mut(<cell>) where the payload is a collection
        for bi, t in b.calls():
            if not U.callee_is(t, "RefCell::borrow_mut"):
                continue
            payload = (t.get("callee_args") or [""])[0]
            if not _is_collection(payload):
                continue
            arg = sy.operand(t["args"][0])
            ch, root = field_chain(arg)
            cell = None
            if ch and ch[-1][0] in facts.adts:
                cell = ("field", ch[-1][0], ch[-1][1])
            else:
                rb, r2 = model.resolve_root(b, root)
                if isinstance(r2, tuple) and r2 and r2[0] == "tls":
                    cell = ("tls", r2[1])
                elif rb is not None and isinstance(r2, tuple):
                    ch2, root2 = field_chain(r2)
                    if ch2 and ch2[-1][0] in facts.adts:
                        cell = ("field", ch2[-1][0], ch2[-1][1])
                    else:
                        rb3, r3 = model.resolve_root(rb, root2)
                        if isinstance(r3, tuple) and r3 and r3[0] == "tls":
                            cell = ("tls", r3[1])
            if cell is None:
                cell = ("unknown", b.id, S.show(arg, b)[:60])
            key = S.strip_refs(sy.call_expr(t, bi))
            scopes.append(Scope(b, cell, key, bi, "RefCell::borrow_mut"))
            seen_keys.add(key)
        # (2) plain collection fields of a long-lived struct mutated through &mut self
        if b.kind == "method" and b.arg_count >= 1:
            self_ty = facts.ty(b.local_ty(1))
            if self_ty.get("k") == "ref" and self_ty.get("mut"):
                adt = U.adt_of(facts, b.local_ty(1))
                if adt in facts.adts and facts.adts[adt]["kind"] == "struct":
                    for fld in facts.adts[adt]["variants"][0]["fields"]:
                        if _is_collection(fld["ty"]):
                            key = ("field", ("arg", 1), fld["name"], adt)
                            scopes.append(Scope(b, ("field", adt, fld["name"]), key, 0, "&mut self"))
    return scopes


def classify_events(ctx, scope):
    """ordered-by-block list of (bi, kind, description) for every use of the scope's buffer.
    kind: 'reset' | 'neutral' | 'observe'"""
    b = scope.body
    sy = ctx.sym(b)
    evs = []
    key = scope.key

    def mentions_key(e):
        return any(S.strip_refs(x) == key for x in S.walk(e) if isinstance(x, tuple)) or S.strip_refs(e) == key

    for bi, t in b.calls():
        if bi == scope.start and scope.via == "RefCell::borrow_mut":
            continue
        args = [sy.operand(a) for a in t["args"]]
        if not any(mentions_key(a) for a in args):
            continue
        name = (t.get("cn") or "?").rsplit("::", 1)[-1]
        recv_is_key = bool(args) and S.strip_refs(args[0]) == key
        kind = "observe"
        if recv_is_key:
            if name in RESET_METHODS:
                kind = "reset"
            elif name == "truncate" and len(args) > 1 and S.const_value(args[1]) == 0:
                kind = "reset"
            elif name == "truncate":
                kind = "neutral"        # drops a tail, shows nothing of the content
            elif name == "drain" and len(args) > 1 and "RangeFull" in str(args[1]):
                kind = "reset"
            elif name in ("copy_from_slice", "fill", "clone_from", "clone_from_slice"):
                kind = "reset"
            elif name in NEUTRAL_METHODS:
                kind = "neutral"
        else:
            # whole-buffer overwrite through the slice view: <[T]>::copy_from_slice(&mut *buf, src)
            if name in ("copy_from_slice", "fill") and args and S.strip_refs(args[0]) == key:
                kind = "reset"
            elif name in ("deref_mut", "deref") and args and S.strip_refs(args[0]) == key:
                kind = "neutral"
        evs.append((bi, kind, name))
    # closures capturing the buffer, whole-value assignment through the guard
    for bi, si, st in b.iter_stmts():
        if b.blocks[bi]["cleanup"] or st["k"] != "assign":
            continue
        rv = st["rv"]
        if rv["k"] == "agg" and rv.get("akind") == "closure":
            ops = [sy.operand(o) for o in rv["ops"]]
            if any(mentions_key(o) for o in ops):
                evs.append((bi, "observe", "captured by closure"))
        pl = st["place"]
        if pl["p"]:
            e = S.strip_refs(sy.dest(pl))
            if e == key:
                evs.append((bi, "reset", "assigned a fresh value"))
    return evs


def check_scope(ctx, scope):
    """(ok, reason, events) — rule RS on one scope"""
    b = scope.body
    cfg = ctx.cfg(b)
    evs = classify_events(ctx, scope)
    resets = set(bi for bi, k, n in evs if k == "reset")
    observing = [(bi, n) for bi, k, n in evs if k == "observe"]
    if not observing and not resets:
        return True, "buffer is obtained but never used", evs
    # (A) on every path from the scope start the first non-neutral use is a reset
    bad = []
    for (bi, n) in observing:
        if bi in resets:
            continue
        # is bi reachable from start without passing a reset block?
        if bi == scope.start or _reach_avoiding(cfg, scope.start, bi, resets):
            bad.append((bi, n))
    if not bad:
        return True, "first non-neutral use on every path is a reset", evs
    # (B) every path to return ends with a full reset after which nothing is added
    last_resets = [r for r in resets if not any(
        k == "observe" and n in ("push", "extend", "insert", "push_str", "resize", "extend_from_slice", "append")
        and cfg.path_exists(r, bi) for bi, k, n in evs)]
    if last_resets and cfg.every_path_passes(scope.start, last_resets) and all(
            not (k == "neutral" and n == "resize" and any(cfg.path_exists(r, bi) for r in last_resets)) for bi, k, n in evs):
        return True, "every exit passes a full reset (trailing drain/clear)", evs
    return False, bad, evs


def _reach_avoiding(cfg, start, target, avoid):
    if start == target:
        return True
    seen = set()
    st = [start]
    while st:
        x = st.pop()
        if x in seen:
            continue
        seen.add(x)
        for y in cfg.succ[x]:
            if y == target:
                return True
            if y in avoid:
                continue
            st.append(y)
    return False


SEARCH_PATH_ROOT_SUFFIXES = ("search::<impl store::store::Store>::search", "tokenization::tokenize_query",
                             "tokenization::tokenize_record", "store::record::Record::new")

# cells that are not scratch: registries (primary state) — content must persist by design
PRIMARY_TLS_SUFFIXES = ("STORES", "RESULTS")


def scratch_scopes(ctx, rule):
    """scopes of scratch buffers that matter for the search/tokenise path, with role filtering"""
    facts = ctx.facts
    cg = ctx.cg
    roots = [b.id for b in facts.fns() if b.id.endswith(SEARCH_PATH_ROOT_SUFFIXES)]
    if not ctx.floor(rule, "search_path_roots", len(roots), 3):
        return []
    reach = cg.reachable(roots)
    out = []
    for sc in find_scopes(ctx):
        if sc.body.id not in reach:
            continue
        if sc.cell[0] == "tls" and sc.cell[1] in ctx.model.registries():
            continue
        if sc.via == "&mut self":
            # only fields that this body (or its callees) really mutate
            eff = ctx.eff.direct.get(sc.body.id, set())
            if (sc.cell[1], sc.cell[2]) not in eff:
                continue
            # struct fields of per-call objects (iterators, builders passed by value) are not long-lived
            if not _long_lived_struct(ctx, sc.cell[1]):
                continue
            # the distance matrix is deliberately not cleared between calls; its history independence is
            # decided by the matrix rules (R10.d), not by RS
            if sc.cell[1].endswith("DistMatrix"):
                continue
        out.append(sc)
    return out


def _long_lived_struct(ctx, adt):
    """ADT is (transitively) stored inside a thread-local or inside Store"""
    ll = getattr(ctx, "_long_lived", None)
    if ll is None:
        ll = set()
        eff = ctx.eff
        for key, payload in ctx.model.tls_keys.items():
            if payload:
                ll |= set(eff._adts_in_type(payload))
        ctx._long_lived = ll
    return adt in ll


def reset_before_read(ctx, rule, only_owner=None, only_cells=None, floor=None):
    scopes = scratch_scopes(ctx, rule)
    n = 0
    cells = set()
    for sc in scopes:
        if only_owner and not (sc.cell[0] == "field" and sc.cell[1] == only_owner):
            continue
        if only_cells and sc.cell_name() not in only_cells:
            continue
        if sc.cell[0] == "unknown":
            ctx.fail(rule, "RS:unknown-cell:%s" % sc.body.id, where(sc.body, sc.start),
                     "a RefCell buffer is borrowed mutably but its identity could not be resolved (fail closed): %s" % sc.cell[2],
                     kind="S")
            continue
        n += 1
        cells.add(sc.cell_name())
        ok, reason, evs = check_scope(ctx, sc)
        key = "RS:%s:%s" % (sc.cell_name(), sc.body.id)
        names = ["%s@bb%d:%s" % (nme, bi, k) for bi, k, nme in sorted(evs)]
        if ok:
            ctx.ok(rule, key, where(sc.body, sc.start), "scratch buffer %s in %s: %s" % (sc.cell_name(), sc.body.id, reason),
                   {"events": names}, nontrivial=True, kind="S")
        else:
            first = reason[0]
            ctx.fail(rule, key, where(sc.body, first[0]),
                     "scratch buffer %s is used (`%s`) in %s before it is reset on some path: content left by an earlier "
                     "call is observable" % (sc.cell_name(), first[1], sc.body.id),
                     {"events": names, "witness": "the same query answers differently after a longer / different "
                                                  "earlier query"}, kind="S")
    ctx.count("scratch_scopes_%s" % rule, n)
    ctx.count("scratch_cells_%s" % rule, len(cells))
    if floor is not None:
        ctx.floor(rule, "scratch_scopes", n, floor)
    return cells


# ------------------------------------------------------------------ matrix (R10.d)

def matrix_rules(ctx, rule):
    facts = ctx.facts
    mats = [a for a in facts.adts.values() if a["kind"] == "struct" and a["id"].endswith("DistMatrix")]
    if not ctx.require(rule, "DistMatrix", mats):
        return
    adt = mats[0]["id"]
    prep = [b for b in facts.fns() if b.kind == "method" and b.cn == adt + "::prepare"]
    if not ctx.require(rule, "DistMatrix::prepare", prep):
        return
    b = prep[0]
    sy = ctx.sym(b)
    cfg = ctx.cfg(b)
    # growth branch: the switch whose true side assigns self.size
    size_asg = []
    for bi, si, st in b.iter_stmts():
        if st["k"] == "assign" and st["place"]["p"] and not b.blocks[bi]["cleanup"]:
            pth = U.field_path(sy.dest(st["place"]))
            if pth and pth[0] == "arg" and pth[1] == 1 and pth[2] == ["size"]:
                size_asg.append((bi, st, sy.rvalue(st["rv"])))
    key = "growth:resize+size+init"
    if not size_asg:
        ctx.fail(rule, key, b.where(), "prepare never updates `size` (no growth branch found; fail closed)", kind="S")
    for (sbi, sst, sval) in size_asg:
        # region of the growth branch: blocks dominated by the branch target that reach sbi or are reached from it
        resz = [(bi, t) for (bi, t, rk, m) in U.receiver_events(ctx, b) if m == "resize"
                and (U.field_path(rk) or (0, 0, []))[2] == ["raw"]]
        inits = [(bi, t) for bi, t in b.calls() if t.get("rcn", "").endswith("DistMatrix::init")]
        def same_region(x):
            return (cfg.dominates(x, sbi) and cfg.every_path_passes(x, [sbi])) or \
                   (cfg.dominates(sbi, x) and cfg.every_path_passes(sbi, [x])) or x == sbi
        r_ok = [x for x, t in resz if same_region(x)]
        i_ok = [x for x, t in inits if cfg.dominates(sbi, x) and cfg.every_path_passes(sbi, [x])]
        sq_ok = False
        for x, t in resz:
            if same_region(x):
                n = sy.operand(t["args"][1])
                if n[0] == "binop" and n[1] == "Mul" and S.norm(n[2]) == S.norm(n[3]) and S.norm(n[2]) == S.norm(sval):
                    sq_ok = True
        if r_ok and i_ok and sq_ok:
            ctx.ok(rule, key, where(b, sbi, sst), "growth performs raw.resize(s*s), size = s and init() together, init last",
                   nontrivial=True, kind="S")
        else:
            ctx.fail(rule, key, where(b, sbi, sst),
                     "growth branch of DistMatrix::prepare is incomplete (resize in region: %s, resize to size²: %s, "
                     "init after size update: %s)" % (bool(r_ok), sq_ok, bool(i_ok)),
                     {"witness": "after the first word longer than the capacity the sentinel row/column hold stale "
                                 "values: transposition costs change with history"}, kind="S")
    # border loops run on every call
    sets = [bi for bi, t in b.calls() if t.get("rcn", "").endswith("DistMatrix::set_unchecked")]
    loops = set()
    for s_ in sets:
        h = cfg.loop_header(s_)
        if h is not None:
            loops.add(h)
    key = "borders-unconditional"
    if len(loops) >= 2 and all(cfg.every_path_passes(0, [h]) for h in loops):
        ctx.ok(rule, key, b.where(), "both border loops are on every path from entry to return (%d loops)" % len(loops),
               nontrivial=True, kind="S")
    else:
        ctx.fail(rule, key, b.where(), "the border rows/columns are not rebuilt on every call (%d unconditional loops)" %
                 len([h for h in loops if cfg.every_path_passes(0, [h])]),
                 {"witness": "distance('ab','cd') after distance('xyz','uvw') reads the previous word's border costs"},
                 kind="S")
    # border values: prev + coef where prev is the previous border cell
    # in distance(): prepare dominates every matrix access
    dist = [x for x in facts.fns() if x.cn.endswith("DamerauLevenshtein::distance")]
    if ctx.require(rule, "DamerauLevenshtein::distance", dist):
        d = dist[0]
        dcfg = ctx.cfg(d)
        preps = [bi for bi, t in d.calls() if t.get("rcn", "").endswith("DistMatrix::prepare")]
        acc = [bi for bi, t in d.calls() if t.get("rcn", "").endswith(("DistMatrix::get_unchecked", "DistMatrix::set_unchecked", "DistMatrix::get"))]
        key = "prepare-dominates-accesses"
        if preps and acc and all(any(dcfg.dominates(p, a) for p in preps) for a in acc):
            ctx.ok(rule, key, where(d, preps[0]), "prepare() dominates all %d matrix accesses in distance()" % len(acc),
                   nontrivial=True, kind="S")
        else:
            ctx.fail(rule, key, d.where(), "a matrix access in distance() is not dominated by prepare()", kind="S",
                     detail={"witness": "stale borders / out-of-range rows for words longer than the last prepared size"})
        # ... and lies on every path to a return: the matrix the caller reads afterwards (prefix distances) is this call's
        key = "prepare-on-every-path"
        if preps and dcfg.every_path_passes(0, preps):
            ctx.ok(rule, key, where(d, preps[0]), "distance() prepares the matrix on every path", kind="S")
        else:
            ctx.fail(rule, key, d.where(), "distance() can return without preparing the matrix: the prefix distances the matcher reads "
                     "afterwards are those of an earlier comparison", kind="S",
                     detail={"witness": "distance('', 'ab') after distance('xyz', 'uvw'): the matrix still holds the previous borders"})
        # arguments of prepare are the two cost vectors of this call
        if preps:
            t = d.blocks[preps[0]]["term"]
            dsy = ctx.sym(d)
            a1 = field_chain(dsy.operand(t["args"][1]))[0]
            a2 = field_chain(dsy.operand(t["args"][2]))[0]
            key = "prepare-args"
            if a1 and a2 and a1[-1][1] != a2[-1][1]:
                ctx.ok(rule, key, where(d, preps[0]), "prepare receives the two distinct cost vectors (%s, %s)" % (a1[-1][1], a2[-1][1]))
            else:
                ctx.fail(rule, key, where(d, preps[0]), "prepare does not receive the two cost vectors of this call: %s / %s" % (a1, a2),
                         kind="S")


# ------------------------------------------------------------------ memo cache (R10.a) and group (R10.b)

def _store_adt(ctx):
    for a in ctx.facts.adts.values():
        if a["kind"] == "struct" and a["id"].endswith("::Store"):
            return a
    return None


def memo_cells(ctx, store):
    out = []
    for f in store["variants"][0]["fields"]:
        payload, is_cell = _cell_payload(ctx.facts, f["ty"])
        if is_cell and payload.startswith("std::option::Option<"):
            out.append(f["name"])
    return out


def entry_points(ctx, store):
    """externally callable bodies that have a Store in scope: pub methods of Store, closures handed a &mut Store /
    &Store by the API functions"""
    facts = ctx.facts
    sid = store["id"]
    eps = []
    for b in facts.fns():
        if b.kind == "method" and b.arg_count >= 1 and U.adt_of(facts, b.local_ty(1)) == sid and b.public:
            eps.append(b)
        elif b.kind == "closure" and b.arg_count >= 2 and U.adt_of(facts, b.local_ty(2)) == sid:
            eps.append(b)
    return eps


def memo_coherence(ctx, rule, skip_fill=None):
    """skip_fill(body) -> True for fill bodies that are outside the property's quantifier (e.g. only used for the empty query)"""
    facts = ctx.facts
    store = _store_adt(ctx)
    if not ctx.require(rule, "Store", store):
        return
    sid = store["id"]
    memos = memo_cells(ctx, store)
    ctx.count("memo_cells", len(memos))
    eff = ctx.eff
    eps = entry_points(ctx, store)
    ctx.floor(rule, "store_entry_points", len(eps), 5)
    for memo in memos:
        # fill bodies: borrow the memo mutably and assign Some(..) through the guard
        fills = []
        for b in facts.fns():
            sy = ctx.sym(b)
            for bi, si, st in b.iter_stmts():
                if st["k"] != "assign" or b.blocks[bi]["cleanup"] or not st["place"]["p"]:
                    continue
                ch, root = field_chain(sy.dest(st["place"]))
                if ch and ch[-1] == (sid, memo) and st["place"]["ty"].startswith("std::option::Option<"):
                    v = sy.rvalue(st["rv"])
                    if v[0] == "agg" and v[2].endswith("Option::Some"):
                        fills.append((b, bi, st))
        if not fills:
            ctx.ok(rule, "memo-unused:%s" % memo, "-", "memo cell %s is never filled" % memo)
            continue
        if skip_fill is not None and all(skip_fill(fb_) for fb_, _, _ in fills):
            ctx.ok(rule, "memo-out-of-scope:%s" % memo, "-", "memo cell %s is filled and read only on paths outside this property's quantifier" % memo)
            continue
        for (fb, fbi, fst) in fills:
            sy = ctx.sym(fb)
            cfg = ctx.cfg(fb)
            # deps: sibling fields of self read in the fill body (and closures it creates)
            deps = set()
            bodies = [fb] + [c for c in facts.closures_of(fb)]
            for bb in bodies:
                bsy = ctx.sym(bb)
                for bi, si, st in bb.iter_stmts():
                    if st["k"] != "assign" or bb.blocks[bi]["cleanup"]:
                        continue
                    for e in S.walk(bsy.rvalue(st["rv"])):
                        if isinstance(e, tuple) and e and e[0] == "field" and len(e) > 3 and e[3] == sid and e[2] != memo:
                            deps.add(e[2])
            # early-return ("hit") blocks: return paths that do not pass the fill
            hit_blocks = set()
            for r in cfg.returns:
                pass
            # hit path exists iff a return is reachable from entry avoiding the fill block
            hit_exists = _reach_avoiding_ret(cfg, 0, fbi)
            for dep in sorted(deps):
                key = "memo:%s:dep:%s" % (memo, dep)
                # (ii) hit path guarded by a condition on the dep's current value
                guarded = False
                dep_ty = [f["ty"] for f in store["variants"][0]["fields"] if f["name"] == dep]
                scalar_dep = bool(dep_ty) and ctx.facts.ty(dep_ty[0]).get("k") in ("uint", "int", "bool", "char")
                if hit_exists and scalar_dep:
                    # validating on read is only a validation for scalar deps; the length of a collection does
                    # not identify its content
                    guarded = _hit_guarded_by(ctx, fb, cfg, fbi, sid, dep)
                # (i) every entry point writing the dep also resets the memo
                offenders = []
                for ep in eps:
                    if ep.id == fb.id:
                        continue
                    te = eff.trans(ep.id)
                    if (sid, dep) in te and ((sid, memo) not in te or not must_reset(ctx, ep, (sid, memo), set())):
                        offenders.append(ep)
                pub_field = any(f["name"] == dep and f["public"] for f in store["variants"][0]["fields"])
                if guarded:
                    ctx.ok(rule, key, where(fb, fbi, fst), "cached value of %s is reused only under a condition that reads the "
                           "current `%s`" % (memo, dep), nontrivial=True, kind="S")
                elif not offenders and not (pub_field and hit_exists and False):
                    ctx.ok(rule, key, where(fb, fbi, fst), "every entry point that changes `%s` also resets %s" % (dep, memo),
                           {"entry_points": [e.id for e in eps]}, nontrivial=True, kind="S")
                else:
                    for ep in offenders:
                        wb, how = eff.explain(ep.id, (sid, dep))
                        ctx.fail(rule, key + ":" + ep.id, ep.where(),
                                 "%s changes Store.%s (in %s) but neither resets the memoised %s nor is the cache hit in %s "
                                 "validated against the current `%s`" % (ep.id, dep, wb, memo, fb.id, dep),
                                 {"witness": "search \"\" ; change %s ; search \"\" again returns the stale ranking" % dep},
                                 kind="S")
            ctx.count("memo_deps_%s" % memo, len(deps))


def must_reset(ctx, body, cell, visiting):
    """on every path from entry to return, `body` resets `cell` (assigns it a fresh value / None) itself or through a local
    callee that must reset it"""
    if body.id in visiting:
        return False
    visiting = visiting | {body.id}
    sy = ctx.sym(body)
    cfg = ctx.cfg(body)
    blocks = set()
    for bi, si, st in body.iter_stmts():
        if st["k"] != "assign" or body.blocks[bi]["cleanup"] or not st["place"]["p"]:
            continue
        ch, root = field_chain(sy.dest(st["place"]))
        if ch and ch[-1] == cell:
            v = sy.rvalue(st["rv"])
            fresh = (v[0] == "agg" and v[2].endswith("Option::None")) or (v[0] == "call" and v[1].endswith(("RefCell::new", "Default::default")))
            if fresh:
                blocks.add(bi)
        elif not ch:
            # whole-struct replacement resets every field that is not carried over
            adt = U.adt_of(ctx.facts, st["place"]["ty"])
            if adt == cell[0] and (body.id, cell) in ctx.eff.why and ctx.eff.why[(body.id, cell)][0] == "whole-struct-assign":
                blocks.add(bi)
    for bi, t in body.calls():
        cn_ = t.get("cn") or ""
        if cn_.endswith(("RefCell::take",)) and t["args"]:
            ch, _ = field_chain(sy.operand(t["args"][0]))
            if ch and ch[-1] == cell:
                blocks.add(bi)
        if cn_.endswith(("RefCell::replace",)) and len(t["args"]) > 1:
            ch, _ = field_chain(sy.operand(t["args"][0]))
            v = sy.operand(t["args"][1])
            if ch and ch[-1] == cell and v[0] == "agg" and v[2].endswith("Option::None"):
                blocks.add(bi)
        if cn_.endswith("Option::take") and t["args"]:
            ch, _ = field_chain(sy.operand(t["args"][0]))
            if ch and ch[-1] == cell:
                blocks.add(bi)
        tgt = t.get("resolved") or t.get("callee")
        cb = ctx.facts.bodies.get(tgt)
        if cb is not None and t.get("callee_local"):
            if cell in ctx.eff.trans(cb.id) and must_reset(ctx, cb, cell, visiting):
                blocks.add(bi)
            elif ctx.eff.param_writes.get(cb.id):
                # helper that resets through a parameter bound to the cell here
                for pi in ctx.eff.param_writes[cb.id]:
                    if pi - 1 < len(t["args"]):
                        ch, _ = field_chain(sy.operand(t["args"][pi - 1]))
                        if ch and ch[-1] == cell and _param_must_reset(ctx, cb, pi):
                            blocks.add(bi)
    if not blocks:
        return False
    return cfg.every_path_passes(0, blocks)


def _param_must_reset(ctx, body, pi):
    """helper `fn f(cell: &RefCell<Option<_>>)`: assigns None / a fresh value through parameter `pi` on every path"""
    sy = ctx.sym(body)
    cfg = ctx.cfg(body)
    blocks = set()
    for bi, si, st in body.iter_stmts():
        if st["k"] == "assign" and st["place"]["p"] and not body.blocks[bi]["cleanup"]:
            ch, root = field_chain(sy.dest(st["place"]))
            if not ch and root == ("arg", pi):
                v = sy.rvalue(st["rv"])
                if (v[0] == "agg" and v[2].endswith("Option::None")) or (v[0] == "call" and v[1].endswith("RefCell::new")):
                    blocks.add(bi)
    return bool(blocks) and cfg.every_path_passes(0, blocks)


def _reach_avoiding_ret(cfg, start, avoid_block):
    seen = set()
    st = [start]
    while st:
        x = st.pop()
        if x in seen or x == avoid_block:
            continue
        seen.add(x)
        if x in cfg.returns:
            return True
        st.extend(cfg.succ[x])
    return False


def _hit_guarded_by(ctx, fb, cfg, fill_bi, sid, dep):
    """every path from entry to a return that avoids the fill passes a switch whose condition reads self.<dep>"""
    sy = ctx.sym(fb)
    guards = set()
    for bi, t in fb.iter_terms():
        if t["k"] != "switch":
            continue
        e = sy.operand(t["discr"])
        if any(isinstance(x, tuple) and x and x[0] == "field" and len(x) > 3 and x[3] == sid and x[2] == dep
               for x in S.walk(e)):
            # only an equality test validates: an inequality admits several values of the dep for one cached value
            bt = U.bool_switch_targets(t)
            if e[0] == "binop" and e[1] in ("Eq", "Ne") and bt is not None:
                hit_target = bt[1] if e[1] == "Eq" else bt[0]
                miss_target = bt[0] if e[1] == "Eq" else bt[1]
                # the equal branch must be the one that can return without filling
                if _reach_avoiding_ret(cfg, hit_target, fill_bi) and not _reach_avoiding_ret(cfg, miss_target, fill_bi):
                    guards.add(bi)
    if not guards:
        return False
    # search for a hit path avoiding guards and the fill
    seen = set()
    st = [0]
    while st:
        x = st.pop()
        if x in seen or x == fill_bi or x in guards:
            continue
        seen.add(x)
        if x in cfg.returns:
            return False
        st.extend(cfg.succ[x])
    return True


def consistency_group(ctx, rule, include_memo=True, frame=True):
    """R10.b: the canonical mutation (Store::add) defines the group of fields that move with `records`; every other
    entry point that writes `records` writes the whole group"""
    facts = ctx.facts
    store = _store_adt(ctx)
    if not ctx.require(rule, "Store", store):
        return
    sid = store["id"]
    eff = ctx.eff
    eps = entry_points(ctx, store)
    scratch = set()
    for sc in scratch_scopes(ctx, rule):
        if sc.cell[0] == "field":
            scratch.add((sc.cell[1], sc.cell[2]))
    writers = [ep for ep in eps if (sid, "records") in eff.trans(ep.id)]
    if not ctx.floor(rule, "records_writers", len(writers), 2):
        return
    def persistent(e):
        return set(x for x in e if _long_lived_struct(ctx, x[0]) and x not in scratch
                   and not x[0].endswith(("Lang", "WordShape", "Text", "Record")))
    group = set()
    adders = [w for w in writers if w.kind == "method" and any(
        U.callee_is(t, "Vec::push") for _, t in w.calls())]
    if not ctx.require(rule, "canonical-mutation", adders, what="pub Store method that pushes a record"):
        return
    for a in adders:
        group |= persistent(eff.trans(a.id))
    # memo cells depending on records belong to the group
    memo_set = set((sid, m) for m in memo_cells(ctx, store))
    if include_memo:
        group |= memo_set
    else:
        group -= memo_set
    ctx.count("consistency_group_size", len(group))
    gnames = sorted("%s.%s" % (a.rsplit("::", 1)[-1], f) for a, f in group)
    ctx.floor(rule, "group_members", len(group), 4)
    # frame rule: an entry point that changes the records must leave the store's settings (the fields of Store that
    # are not part of the group) alone; each setting has its own setter
    group_adts = set(a for a, _ in group)
    settings = set()
    for f in store["variants"][0]["fields"]:
        if (sid, f["name"]) in group or (sid, f["name"]) in memo_set:
            continue
        if any(a in group_adts for a in eff._adts_in_type(f["ty"])):
            continue        # container of group members (e.g. the index cell)
        settings.add((sid, f["name"]))
    for w in (writers if frame else []):
        te_all = eff.trans(w.id)
        touched = sorted(f for (a, f) in settings if (a, f) in te_all)
        key = "frame:%s" % w.id
        if not touched:
            ctx.ok(rule, key, w.where(), "%s leaves the settings %s untouched" % (w.id, sorted(f for _, f in settings)),
                   nontrivial=True, kind="S")
        else:
            wb, how = eff.explain(w.id, (sid, touched[0]))
            ctx.fail(rule, key + ":writes=" + ",".join(touched), w.where(),
                     "%s changes the record set and also overwrites the setting(s) %s (%s in %s): after this call the store no "
                     "longer behaves like a fresh store with the current settings" % (w.id, touched, how[0] if how else "?", wb),
                     {"witness": "set markers / limit; call this entry point; add a record; search: default settings are back"},
                     kind="S")
    for w in writers:
        te = persistent(eff.trans(w.id))
        missing = sorted("%s.%s" % (a.rsplit("::", 1)[-1], f) for (a, f) in group if (a, f) not in te)
        key = "group:%s" % w.id
        if not missing:
            ctx.ok(rule, key, w.where(), "%s writes `records` and every field that moves with it (%s)" % (w.id, ", ".join(gnames)),
                   nontrivial=True, kind="S")
        else:
            ctx.fail(rule, key + ":missing=" + ",".join(missing), w.where(),
                     "%s changes Store.records but not %s: derived state goes out of step with the record vector"
                     % (w.id, ", ".join(missing)),
                     {"group": gnames,
                      "witness": "add two records, call this entry point, search: stale positions / stale ranking"},
                     kind="S")


# ------------------------------------------------------------------ diagnostic (write-only) state

ARITH_CALLEES = ("wrapping_add", "wrapping_sub", "saturating_add", "saturating_sub", "checked_add", "checked_sub",
                 "overflowing_add", "Add::add", "AddAssign::add_assign", "Option::unwrap_or", "Option::unwrap", "cmp::max", "cmp::min",
                 "Clone::clone", "Cell::get", "Cell::take", "RefCell::borrow", "RefCell::borrow_mut", "Deref::deref", "DerefMut::deref_mut")
WRITE_BACK_CALLEES = ("Cell::set", "Cell::replace", "Cell::swap", "RefCell::replace", "Cell::update")


def value_never_leaves(ctx, bodies, is_state):
    """True iff the content of a piece of long-lived state is only ever (re)written, or read to compute the value written
    back into the same state (counters: `x += 1`, `c.set(c.get() + 1)`, `stats.hits = stats.hits.wrapping_add(n)`), or
    handed out by getters whose results in turn are used in no other way.  `is_state(expr)` recognises a (reference-
    stripped) symbolic expression that denotes the state.  Such state cannot influence any result computed by the library:
    it is diagnostic.  All functions of the crate are examined (not only the search path: a counter read by `add` to take a
    decision is state like any other).  Returns (ok, first leak description)."""
    if bodies is None:
        bodies = [b for b in ctx.facts.fns()]
    getters = set()          # ids of bodies that return a value derived from the state
    for _round in range(4):
        new_getters = set(getters)
        leak = None
        for b in bodies:
            if (b.impl_trait or "").startswith(("std::fmt::Debug", "std::fmt::Display", "core::fmt::Debug", "core::fmt::Display")):
                continue            # formatting for humans: feeds no result
            if (b.impl_trait or "").startswith(("std::cmp::PartialEq", "std::cmp::Eq", "std::clone::Clone", "std::hash::Hash",
                                                "std::cmp::PartialOrd", "std::cmp::Ord", "std::default::Default")):
                continue            # structural impls of the state's own type: a *use* of them elsewhere is what counts
            sy = ctx.sym(b)
            try:
                is_state.cur = b          # lets a recogniser depend on the body it is asked about
            except AttributeError:
                pass

            def mentions(e):
                for x in S.walk(e):
                    if isinstance(x, tuple) and x:
                        if is_state(S.strip_refs(x)):
                            return True
                        if x[0] == "call" and getters:
                            if any(g == x[1] or ctx.facts.bodies[g].cn == x[1] for g in getters if g in ctx.facts.bodies):
                                return True
                        if x[0] == "agg" and x[1] == "closure" and x[2] in getters:
                            return True
                return is_state(S.strip_refs(e))
            for bi, si, st in b.iter_stmts():
                if st["k"] != "assign" or b.blocks[bi]["cleanup"]:
                    continue
                try:
                    e = sy.rvalue(st["rv"])
                except Exception:
                    continue
                if not mentions(e):
                    continue
                pl = st["place"]
                if not pl["p"]:
                    if pl["l"] == 0:
                        new_getters.add(b.id)
                    continue            # a temporary: its uses are seen through symbolic resolution
                dest = S.strip_refs(sy.dest(pl))
                if mentions(dest) or is_state(dest):
                    continue            # written back into the same state
                leak = leak or "%s stores a value derived from it in %s" % (b.id, S.show(dest, b)[:60])
            for bi, t in b.iter_terms():
                if t["k"] == "switch":
                    if mentions(sy.operand(t["discr"])):
                        leak = leak or "%s branches on it" % b.id
                elif t["k"] == "call":
                    args = [sy.operand(a) for a in t["args"]]
                    hit = [i_ for i_, a in enumerate(args) if mentions(a)]
                    if not hit:
                        continue
                    cn = t.get("cn") or ""
                    if cn.endswith(ARITH_CALLEES):
                        if t["dest"]["l"] == 0 and not t["dest"]["p"]:
                            new_getters.add(b.id)
                        continue
                    if cn.endswith(WRITE_BACK_CALLEES) and hit[0] == 0:
                        continue        # Cell::set(&state, f(state))
                    if cn.endswith(("LocalKey::with", "LocalKey::try_with")):
                        # the closure's result is the call's result
                        if t["dest"]["l"] == 0 and not t["dest"]["p"]:
                            new_getters.add(b.id)
                        continue
                    if cn.endswith(("fmt::Arguments::new", "Argument::new_debug", "Argument::new_display", "DebugStruct::field",
                                    "Formatter::debug_struct")):
                        continue
                    tgt = t.get("resolved") or t.get("callee")
                    if tgt in getters or (t["args"] and U.closure_body(ctx, args[0]) is not None and U.closure_body(ctx, args[0]).id in getters):
                        if t["dest"]["l"] == 0 and not t["dest"]["p"]:
                            new_getters.add(b.id)
                        continue
                    leak = leak or "%s passes it to %s" % (b.id, cn.rsplit("::", 1)[-1])
        if leak:
            return False, leak
        if new_getters == getters:
            break
        getters = new_getters
    return True, None


# ------------------------------------------------------------------ records / next_ix / index move in lock-step

def length_lockstep(ctx, rule):
    """Every public Store method that changes one of {records, next_ix, index} changes all three by the same abstract
    amount on every path: `+1` (push / += 1 / TrigramIndex::add) or `reset` (clear or fresh vector / 0 / fresh index).
    This is the value side of the consistency group (R10.b looks only at WHICH fields are written): the debug assertion
    `next_ix == records.len()` and the posting-position lemma of C19 rest on it, and `clear` must really empty the store."""
    store = _store_adt(ctx)
    if not ctx.require(rule, "Store", store):
        return
    sid = store["id"]
    n = 0
    for b in ctx.facts.fns():
        if not (b.kind == "method" and b.arg_count >= 1 and U.adt_of(ctx.facts, b.local_ty(1)) == sid):
            continue
        sy = ctx.sym(b)
        cfg = ctx.cfg(b)
        eff = {"records": [], "next_ix": [], "index": []}

        def fld(e):
            p = U.field_path(e)
            return p[2][0] if p and p[0] == "arg" and p[1] == 1 and p[2] else None

        def through_cell(e):
            # RefCell::borrow_mut(&self.index) / get_mut / deref chains -> the field
            e = S.strip_refs(e)
            while e[0] == "call" and e[1].endswith(("RefCell::borrow_mut", "RefCell::get_mut", "DerefMut::deref_mut", "Deref::deref")) and e[2]:
                e = S.strip_refs(e[2][0])
            return fld(e)
        for bi, si, st in b.iter_stmts():
            if st["k"] != "assign" or not st["place"]["p"] or b.blocks[bi]["cleanup"]:
                continue
            d = sy.dest(st["place"])
            f_ = fld(d) if U.field_path(d) and len(U.field_path(d)[2]) == 1 else None
            if f_ is None:
                tc = through_cell(d)
                f_ = tc if tc == "index" and S.strip_refs(d)[0] in ("call", "deref") else None
            if f_ not in eff:
                continue
            v = S.strip_refs(sy.rvalue(st["rv"]))
            kind = "unknown"
            if f_ == "next_ix":
                if U.is_const(v) and S.const_value(v) == 0:
                    kind = "reset"
                elif v[0] == "binop" and v[1] == "Add" and fld(v[2]) == "next_ix" and U.is_const(v[3]) and S.const_value(v[3]) == 1:
                    kind = "+1"
            elif f_ == "records":
                if v[0] == "call" and v[1].endswith(("Vec::new", "Vec::with_capacity", "Default::default")):
                    kind = "reset"
            elif f_ == "index":
                inner = v
                while inner[0] == "call" and inner[1].endswith(("RefCell::new", "Cell::new")) and inner[2]:
                    inner = S.strip_refs(inner[2][0])
                if inner[0] == "call" and inner[1].endswith(("TrigramIndex::new", "Default::default")):
                    kind = "reset"
            eff[f_].append((bi, kind))
        for bi, t in b.calls():
            if not t["args"]:
                continue
            m = (t.get("cn") or "").rsplit("::", 1)[-1]
            r = sy.operand(t["args"][0])
            if fld(r) == "records" and (t.get("cn") or "").startswith(("std::vec::Vec", "alloc::vec::Vec")):
                if m == "push":
                    eff["records"].append((bi, "+1"))
                elif m == "clear":
                    eff["records"].append((bi, "reset"))
                elif m in ("pop", "remove", "insert", "truncate", "retain", "drain", "extend", "append", "swap_remove", "resize", "dedup"):
                    eff["records"].append((bi, "unknown"))
            if (t.get("cn") or "").endswith("TrigramIndex::add") and through_cell(r) == "index":
                eff["index"].append((bi, "+1"))
            elif (t.get("cn") or "").startswith("store::trigram_index::TrigramIndex::") and through_cell(r) == "index" and \
                    m not in ("prepare", "collect_grams", "len", "dict") and not (t.get("cn") or "").endswith("TrigramIndex::add"):
                tb = [x for x in ctx.facts.fns() if x.cn == t.get("cn")]
                if tb and tb[0].arg_count >= 1 and tb[0].local_ty(1).startswith("&mut"):
                    eff["index"].append((bi, "unknown"))
        if not any(eff.values()):
            continue
        n += 1
        key = "lockstep:%s" % b.id
        summary = {}
        for f_, evs in eff.items():
            if not evs:
                summary[f_] = "same"
            elif len(evs) == 1 and cfg.every_path_passes(0, [evs[0][0]]) and not cfg.in_loop(evs[0][0]):
                summary[f_] = evs[0][1]
            else:
                summary[f_] = "unknown"
        vals = set(summary.values())
        if len(vals) == 1 and "unknown" not in vals:
            ctx.ok(rule, key, b.where(), "%s changes records, next_ix and the index alike (%s) on every path" % (b.id, list(vals)[0]),
                   nontrivial=True, kind="S")
        else:
            ctx.fail(rule, key, b.where(), "%s changes the record vector, the position counter and the index differently: %s" %
                     (b.id, ", ".join("%s: %s" % kv for kv in sorted(summary.items()))),
                     {"witness": "add a record, call this method, add another record, search: positions handed out by next_ix no longer "
                                 "index `records` (debug assertion `Invalid store.next_ix` / wrong or missing hits)"}, kind="S")
    ctx.floor(rule, "lockstep_methods", n, 2)
