"""WASM bridge rules (R20.e, R02.e): rust/wasm/src/lib.rs analysed through a no-op wasm_bindgen shim, per `lang` cfg."""
import os
import re

from .. import facts as F
from .. import sym as S
from .. import util as U
from ..engine import Ctx, where

LANG_CTOR = {"": "Lang::new", "de": "lang_german", "en": "lang_english", "es": "lang_spanish", "fr": "lang_french",
             "pt": "lang_portuguese", "ru": "lang_russian"}
FORWARDERS = ("create_store", "destroy_store", "highlight_with", "set_limit", "add_record", "run_search")


def _wasm(ctx, langs):
    try:
        return F.extract_wasm(ctx.facts.meta.get("repo"), langs)
    except F.ExtractionError as e:
        return str(e)


def forwarders(ctx, rule, langs=F.LANG_CFGS):
    w = _wasm(ctx, langs)
    if isinstance(w, str):
        ctx.fail(rule, "bridge-extraction", "-", "the WASM bridge could not be analysed: %s" % w[-300:], kind="S")
        return None
    ctx.count("bridge_lang_cfgs", len(w))
    for lang, wf in sorted(w.items()):
        wctx = Ctx(wf)
        tag = lang or "none"
        for name in FORWARDERS:
            b = wf.bodies.get(name)
            key = "forward:%s:%s" % (name, tag)
            if b is None:
                ctx.fail(rule, key, "-", "bridge export `%s` is missing (cfg lang=%s)" % (name, tag))
                continue
            sy = wctx.sym(b)
            calls = [(bi, t) for bi, t in b.calls() if (t.get("callee") or "").startswith("lucid_suggest_core::") and
                     not (t.get("callee") or "").startswith("lucid_suggest_core::lang")]
            if len(calls) != 1 or not calls[0][1]["callee"].endswith("::" + name):
                ctx.fail(rule, key, b.where(), "bridge export `%s` does not call the like-named core function exactly once: %s"
                         % (name, [t["callee"] for _, t in calls]), {"witness": "the JS API call does something else"})
                continue
            bi, t = calls[0]
            args = [S.strip_refs(sy.operand(a)) for a in t["args"]]
            flat = []
            for a in args:
                if a[0] == "agg" and a[1] == "tuple":
                    flat.extend(S.strip_refs(x) for x in a[3])
                else:
                    flat.append(a)
            want = [("arg", i) for i in range(1, b.arg_count + 1)]
            ok = flat[:len(want)] == want
            if name == "create_store":
                ok = ok and len(flat) == 2 and flat[1][0] == "call" and flat[1][1].endswith("get_lang")
            else:
                ok = ok and len(flat) == len(want)
            if ok:
                if lang == "":
                    ctx.ok(rule, key, where(b, bi, t), "`%s` forwards its parameters positionally to core::%s" % (name, name), nontrivial=True)
                else:
                    ctx.ok(rule, key, where(b, bi, t), "`%s` forwards positionally (lang=%s)" % (name, tag))
            else:
                ctx.fail(rule, key, where(b, bi, t), "bridge export `%s` passes %s to core::%s instead of its parameters in order"
                         % (name, [S.show(a, b) for a in flat], name),
                         {"witness": "add_record(store, id, title, rating) through the JS API stores swapped fields / addresses another store"})
        # get_lang for this cfg
        g = wf.bodies.get("get_lang")
        key = "get_lang:%s" % tag
        if g is None:
            ctx.fail(rule, key, "-", "get_lang missing for cfg lang=%s" % tag)
        else:
            e = S.strip_refs(wctx.sym(g).local(0))
            wantfn = LANG_CTOR[lang]
            if e[0] == "call" and e[1].endswith(wantfn):
                ctx.ok(rule, key, g.where(), "cfg lang=%s builds stores with %s" % (tag, e[1].rsplit("::", 1)[-1]), nontrivial=True)
            else:
                ctx.fail(rule, key, g.where(), "cfg lang=%s builds stores with %s, expected %s" % (tag, S.show(e, g), wantfn),
                         {"witness": "the '%s' package tokenises with another language" % tag})
        # result readers
        ids = wf.bodies.get("get_result_ids")
        key = "result-ids:%s" % tag
        ok = False
        if ids is not None:
            isy = wctx.sym(ids)
            for bi, t in ids.calls():
                if (t.get("callee") or "").endswith("using_results") and S.strip_refs(isy.operand(t["args"][0])) == ("arg", 1):
                    cb = U.closure_body(wctx, isy.operand(t["args"][1]))
                    if cb is not None:
                        src, stages = U.chain(wctx.sym(cb).local(0))
                        names = [s_[0] for s_ in stages]
                        ms = [s_ for s_ in stages if s_[0] == "map"]
                        if names == ["iter", "map", "collect"] and S.strip_refs(src) == ("arg", 2) and ms:
                            mb = U.closure_body(wctx, ms[0][1][0])
                            if mb is not None:
                                me = S.strip_refs(wctx.sym(mb).local(0))
                                ok = me[0] == "field" and me[2] == "id" and S.strip_refs(me[1]) == ("arg", 2)
        if ok:
            ctx.ok(rule, key, ids.where(), "get_result_ids returns the ids of the addressed result buffer in order")
        else:
            ctx.fail(rule, key, ids.where() if ids else "-", "get_result_ids no longer returns `results.iter().map(|r| r.id)` of the addressed buffer",
                     {"witness": "ids and titles of the JS result list do not belong together"})
    return w


def title_framing(ctx, rule):
    """R02.e: get_result_titles appends title then the separator for every result in order; the separator is NUL and
    javascript/src/index.js splits on the same character"""
    w = _wasm(ctx, ("",))
    if isinstance(w, str):
        ctx.fail(rule, "bridge-extraction", "-", "the WASM bridge could not be analysed: %s" % w[-300:], kind="S")
        return
    wf = w[""]
    wctx = Ctx(wf)
    b = wf.bodies.get("get_result_titles")
    if not ctx.require(rule, "get_result_titles", b):
        return
    sy = wctx.sym(b)
    cb = None
    for bi, t in b.calls():
        if (t.get("callee") or "").endswith("using_results") and S.strip_refs(sy.operand(t["args"][0])) == ("arg", 1):
            cb = U.closure_body(wctx, sy.operand(t["args"][1]))
    if not ctx.require(rule, "titles-closure", cb, b.where()):
        return
    csy = wctx.sym(cb)
    cfg = wctx.cfg(cb)
    out = S.strip_refs(csy.local(0))
    evs = [(bi, t, m) for (bi, t, rk, m) in U.receiver_events(wctx, cb) if rk == out]
    pushes = [(bi, t, m) for bi, t, m in evs if m in ("push_str", "push", "extend", "insert", "insert_str")]
    key = "frame"
    sep = None
    ok = len(pushes) == 2 and pushes[0][2] == "push_str" and pushes[1][2] == "push" and cfg.in_loop(pushes[0][0]) and \
        cfg.dominates(pushes[0][0], pushes[1][0]) and cfg.inner_header(pushes[0][0]) == cfg.inner_header(pushes[1][0])
    if ok:
        v = S.strip_refs(csy.operand(pushes[0][1]["args"][1]))
        ttl = [x for x in S.walk(v) if isinstance(x, tuple) and x and x[0] == "field" and x[2] == "title"]
        it = any(isinstance(x, tuple) and x and x[0] == "call" and x[1].endswith("Iterator::next") for x in S.walk(v))
        sepv = csy.operand(pushes[1][1]["args"][1])
        sep = S.const_value(sepv) if U.is_const(sepv) else None
        ok = bool(ttl) and it and sep == "\0"
    if ok:
        ctx.ok(rule, key, cb.where(), "for every result in order: title, then the NUL separator", nontrivial=True)
    else:
        ctx.fail(rule, key, cb.where(), "get_result_titles no longer appends `title` followed by the NUL separator for every result "
                 "(separator %r)" % sep, {"witness": "the JS wrapper splits titles at the wrong places"})
    # JS side: one constant
    js = os.path.join(ctx.facts.meta.get("repo") or "/repo", "javascript", "src", "index.js")
    key = "js-split"
    try:
        txt = open(js).read()
        m = re.search(r"get_result_titles\([^)]*\)\s*\.split\(\s*(['\"])(.*?)\1\s*\)", txt)
        if m and m.group(2) == "\\0":
            ctx.ok(rule, key, "javascript/src/index.js", "the JS wrapper splits the joined titles on '\\0'")
        else:
            ctx.fail(rule, key, "javascript/src/index.js", "the JS wrapper does not split get_result_titles() on '\\0' (found %r)"
                     % (m.group(2) if m else None), {"witness": "titles are not separated / separated on a character that titles may contain"})
    except OSError:
        ctx.assumed(rule, key, js, "javascript/src/index.js not present: JS side of the framing not checked")


def bridge_arithmetic(ctx, rule):
    """R01.j: the bridge does no arithmetic that can trap — no subtraction, multiplication or shift on the way in or out (its
    only arithmetic is the capacity sum `bytelen + results.len()`, a sum of lengths of live buffers).  The expected count of
    trapping operations is zero; the number of bridge bodies scanned is the vacuity guard."""
    w = _wasm(ctx, ("",))
    if isinstance(w, str):
        ctx.fail(rule, "bridge-extraction", "-", "the WASM bridge could not be analysed: %s" % w[-300:], kind="S")
        return
    wf = w[""]
    adds = 0
    bad = []
    for b in wf.fns():
        for bi, t in b.iter_terms():
            if t["k"] != "assert" or t["msg"].get("kind") != "Overflow":
                continue
            if t["msg"].get("op") == "Add":
                adds += 1
            else:
                bad.append((b, bi, t))
        for bi, si, st in b.iter_stmts():
            if st["k"] == "assign" and st["rv"]["k"] == "binop" and st["rv"]["op"] in ("Sub", "SubUnchecked", "Mul", "Shl", "Shr", "Div", "Rem") \
                    and not b.blocks[bi]["cleanup"]:
                bad.append((b, bi, st))
    for b, bi, node in bad:
        ctx.fail(rule, "bridge-arithmetic:%s" % b.id, where(b, bi, node), "the bridge function %s performs `%s`: a subtraction / product "
                 "of lengths can trap (checked build) or wrap into a huge allocation request" % (b.id, (node.get("dbg") or "")[:80]),
                 {"witness": "a store whose only hit has an empty title: `bytelen - results.len()` underflows in get_result_titles"}, kind="S")
    if not bad:
        ctx.ok(rule, "bridge-arithmetic", "rust/wasm/src/lib.rs", "no subtraction / multiplication / shift in the bridge (%d checked "
               "additions of buffer lengths)" % adds, kind="S")
    ctx.count("bridge_checked_additions", adds)
    ctx.floor(rule, "bridge_bodies_scanned", len(list(wf.fns())), 8)
