"""C04 — one typo in a >=5-letter word still finds the record (necessary constants)."""
from . import r_gates as RG
from . import C20 as RC20
from . import r_join as RJ
from . import C17 as RC17
from .common import info


def run(ctx):
    gates = RG._gates(ctx, "R04.a")
    if gates is not None:
        RG.gate_presence(ctx, "R04.a", gates, ["jaccard", "length", "damlev", "slice"])
        RG.check_worst(ctx, "R04.a", "C04", gates, ["length"])
        RG.check_worst(ctx, "R04.b", "C04", gates, ["jaccard"])
        RG.shape_length(ctx, "R04.a", gates)
        RG.shape_damlev(ctx, "R04.c", gates)
        RG.cost_bounds_C04(ctx, "R04.c", gates)
        from ..engine import where
        for g in RG._by_kind(gates).get("slice", []):
            key = "slice-tolerance>=1:%s" % g.body.id
            if g.accepts(1):
                ctx.ok("R04.e", key, where(g.body, g.bi), "prefix pairs differing by one character are compared "
                       "(needed for an inserted/deleted letter): %s" % g.describe(), nontrivial=True)
            else:
                ctx.fail("R04.e", key, where(g.body, g.bi),
                         "prefix pairs differing by one character are skipped (%s): an inserted or deleted letter "
                         "can never match" % g.describe(), {"witness": "title 'bcdfg', query 'bcxdfg'"})
    RJ.failed_attempt_is_pure(ctx, "R04.f")
    from . import r_trigram as RT
    from . import r_token as RK
    RT.grams_from_whole_words(ctx, "R04.h")
    RT.shared_generator(ctx, "R04.h")
    RT.every_posting_counted(ctx, "R04.h")
    RK.lower_rules(ctx, "R04.i")
    RC17.chain_rule(ctx, "R04.g")
    from . import C10 as RC10
    from . import r_state as RS
    RC10.hidden_state_inventory(ctx, "R10.e", RS.reset_before_read(ctx, "R04.j", floor=8))
    # an adjacent swap costs one transposition only if the DP looks up the *last* earlier occurrence of a letter
    RG.last_occurrence_rules(ctx, "R04.k")
    from . import r_rank as RR
    RR.search_chain_shape(ctx, "R06.a", parts=("complete", "score", "filter"))
    RC20.buffer_rules(ctx, None, None, "R20.f")
    from . import C20 as _RC20
    _RC20.api_effects(ctx, "R04.l", which=("add",))
    from . import r_rank as _RR
    _RR.filter_passes(ctx, "R04.m", "one-match-passes", 1, 1, 1, "a hit with one matched word for a one-word query", "typing a prefix of a function word ('th' for 'the') finds nothing")
    from . import r_join as _RJ
    _RJ.plain_attempt_unguarded(ctx, "R04.n")
    from . import r_rank as _RR2
    from .common import Only as _Only
    # of the selection rules only what a store no larger than the limit needs: the limit reaches the selection unnarrowed
    # and every item is buffered (how exactly the cut is made is C06's business)
    _RR2.bounded_selection(_Only(ctx, ("ctor-roles", "every-item-buffered", "anchor")), "R06.a")
    _RR2.limit_provenance(ctx, "R06.a")
    from . import r_trigram as _RT4
    _RT4.unfinished_prefix_clip(ctx, "R04.o")
    return info("R04.h also: every posting of every query gram is counted (a typo that leaves only the one-letter word start in common still makes the record a candidate). R04.o: for an unfinished query word the Jaccard gate compares the WHOLE query word with the record prefix of min(query length + 1, record length). R06.a: the bounded selection keeps `limit` items at full width (a store no larger than the limit loses no hit to the cut). R04.n: the word-to-word alternative of text_match calls word_match on every path (no pre-test in front of the gates). R04.m: a hit with one matched word for a one-word query passes hit_matches whatever the match looks like (abstract run). R04.l: add_record really adds the record to the addressed store on every call (the registry API is not exercised by the repository's tests). Necessary constants for single-typo tolerance at the n=5 worst cases: length gate accepts 1-5/6, "
                "Jaccard gate accepts 1/2, the DL gate accepts c/5 for every edit-cost constant c, every cost <= 1.0, "
                "gate shapes (1-min/max, dist/max) are confirmed before the bounds are applied, and the prefix-pair "
                "tolerance admits a length difference of one.")
