"""Rules on the small per-word / per-text helpers everything else leans on (round 9: files the earlier rounds seldom
touched).  Each rule states the structural fact it decides; none of them runs the code."""
from .. import sym as S
from .. import util as U
from .. import bounds as B
from ..engine import where


def _fn(ctx, suffix):
    for b in ctx.facts.fns():
        if b.cn.endswith(suffix):
            return b
    return None


# ---------------------------------------------------------------------------------------------------------------------
def get_pos_lookup(ctx, rule):
    """Lang::get_pos(word) is the entry of the function-word table for exactly that word: decision table by abstract
    interpretation (A13) — a table hit is returned as it is, a miss is None, whatever the word looks like"""
    from .. import absint as AI
    fb = _fn(ctx, "Lang::get_pos")
    if not ctx.require(rule, "Lang::get_pos", fb):
        return
    sy = ctx.sym(fb)
    key = "get-pos-lookup"
    gets = [(bi, t) for bi, t in fb.calls() if U.callee_is(t, "HashMap::get")]
    ok_src = False
    for bi, t in gets:
        p = U.field_path(sy.operand(t["args"][0]))
        k = S.strip_refs(sy.operand(t["args"][1]))
        if p and p[0] == "arg" and p[1] == 1 and p[2] == ["pos_map"] and k == ("arg", 2):
            ok_src = True
    if not ok_src:
        ctx.fail(rule, key, fb.where(), "Lang::get_pos no longer looks its `word` argument up in self.pos_map",
                 {"witness": "function words are not recognised, or recognised under another spelling"})
        return
    outcomes = {}
    for name, val in (("hit", AI.some(("sym", "entry"))), ("miss", AI.NONE)):
        def oracle(t, args, body, val=val):
            if (t.get("cn") or "").endswith("HashMap::get"):
                return [val]
            return None
        try:
            outcomes[name] = AI.AbsInt(ctx, oracle).run_body(fb, [("sym", "self"), ("sym", "word")])
        except AI.Limit:
            outcomes[name] = {AI.UNKNOWN}
    if outcomes["hit"] == {AI.some(("sym", "entry"))} and outcomes["miss"] == {AI.NONE}:
        ctx.ok(rule, key, fb.where(), "get_pos returns the table entry of the word unfiltered (hit -> Some(entry), miss -> None)",
               nontrivial=True)
    else:
        ctx.fail(rule, key, fb.where(), "Lang::get_pos does not return the table entry as it is: hit -> %s, miss -> %s" %
                 (sorted(AI.show(x) for x in outcomes["hit"]), sorted(AI.show(x) for x in outcomes["miss"])),
                 {"witness": "a one-letter function word ('a', 'o', 'y') is treated as a content word: the title 'a' outranks 'ab' "
                             "for the query 'a'"})


def word_field_from_lang(ctx, rule, method="set_pos", field="pos", callee="Lang::get_pos"):
    """WordShape::set_pos / set_stem assign, on every path, what the language says about exactly this word's characters
    chars[slice.0 .. slice.1] — no length cut-off, no other slice"""
    fb = _fn(ctx, "WordShape::" + method)
    if not ctx.require(rule, "WordShape::" + method, fb):
        return
    sy = ctx.sym(fb)
    cfg = ctx.cfg(fb)
    key = "word-%s-from-lang" % field
    asg = []
    for bi, si, st in fb.iter_stmts():
        if st["k"] == "assign" and st["place"]["p"] and not fb.blocks[bi]["cleanup"]:
            p = U.field_path(sy.dest(st["place"]))
            if p and p[0] == "arg" and p[1] == 1 and p[2] == [field]:
                asg.append((bi, sy.rvalue(st["rv"])))
    for bi, t in fb.calls():
        if t["dest"]["p"]:
            p = U.field_path(sy.dest(t["dest"]))
            if p and p[0] == "arg" and p[1] == 1 and p[2] == [field]:
                asg.append((bi, sy.call_expr(t, bi)))
    problem = None
    if len(asg) != 1:
        problem = "%d assignments to self.%s (expected one)" % (len(asg), field)
    elif not cfg.every_path_passes(0, [asg[0][0]]):
        problem = "self.%s is not assigned on every path" % field
    else:
        v = S.strip_refs(asg[0][1])
        if not (v[0] == "call" and v[1].endswith(callee)):
            problem = "self.%s = %s is not the plain result of %s" % (field, S.show(v, fb)[:100], callee)
        else:
            args = [S.strip_refs(a) for a in v[2]]
            langs = [a for a in args if a[0] == "arg" and "Lang" in fb.locals[a[1]]["ty"]]
            sl = [a for a in args if a[0] == "call" and a[1].endswith("Index::index")]
            good = False
            if langs and len(sl) == 1:
                base, rng = S.strip_refs(sl[0][2][0]), S.strip_refs(sl[0][2][1])
                if base[0] == "arg" and rng[0] == "agg" and rng[2].endswith("Range::Range") and len(rng[3]) == 2:
                    p0, p1 = U.field_path(rng[3][0]), U.field_path(rng[3][1])
                    good = bool(p0 and p1 and p0[1] == 1 and p1[1] == 1 and p0[2] == ["slice", "0"] and p1[2] == ["slice", "1"])
            if not good:
                problem = "%s is not called with chars[self.slice.0 .. self.slice.1]: %s" % (callee, S.show(v, fb)[:120])
    if problem is None:
        ctx.ok(rule, key, fb.where(), "WordShape::%s assigns %s(chars[slice.0..slice.1]) on every path" % (method, callee), nontrivial=True)
    else:
        ctx.fail(rule, key, fb.where(), "WordShape::%s: %s" % (method, problem),
                 {"witness": "a long function word ('alrededor', 'gegenüber') is ranked like a content word"
                  if field == "pos" else "the stem of a word is computed from other characters than the word's own"})


# ---------------------------------------------------------------------------------------------------------------------
def dist_formula(ctx, rule):
    """Word::dist(a, b) is the gap between the two words: start of the later one minus END of the earlier one — decided
    region-wise (A11) for both orders"""
    from .. import regions as RG
    fb = _fn(ctx, "Word::dist")
    if not ctx.require(rule, "Word::dist", fb):
        return
    sy = ctx.sym(fb)
    cn = None
    for bi, t in fb.calls():
        if (t.get("cn") or "").endswith("Word::slice"):
            cn = t["cn"]
    if not ctx.require(rule, "Word::slice in Word::dist", cn, fb.where()):
        return
    def at(i, k):
        return B.lin(("field", ("call", cn, (("arg", i),)), str(k), None))
    rets = [bi for bi, bl in enumerate(fb.blocks) if bl["term"] and bl["term"]["k"] == "return" and not bl["cleanup"]]
    if not ctx.require(rule, "return of Word::dist", rets, fb.where()):
        return
    wf = [B.ge(at(1, 1), at(1, 0), "self is well-formed"), B.ge(at(2, 1), at(2, 0), "other is well-formed")]
    problems = []
    n = 0
    for name, later, earlier in (("self after other", 1, 2), ("other after self", 2, 1)):
        # strictly apart, so that the order of the two words is decided by the assumptions
        facts = wf + [B.gt(at(later, 0), at(earlier, 1), name), B.gt(at(earlier, 1), at(earlier, 0), "earlier word not empty")]
        region = RG.Region(name, facts)
        vals, und = RG.values_at(ctx, fb, region, rets[0], sy.local(0))
        if not vals:
            problems.append("%s: no value reaches the return (%s)" % (name, und))
            continue
        want = at(later, 0) - at(earlier, 1)
        for v in vals:
            n += 1
            d = B.lin(S.strip_sites(v)) - want
            if d.co or d.c != 0:
                problems.append("%s: returns %s, expected start(later) - end(earlier)" % (name, S.show(v, fb)[:110]))
    key = "dist-is-gap"
    if not problems:
        ctx.ok(rule, key, fb.where(), "Word::dist is start(later) - end(earlier) in both orders (%d path values)" % n, nontrivial=True)
    else:
        ctx.fail(rule, key, fb.where(), "Word::dist is no longer the gap between the words: %s" % "; ".join(problems[:2]),
                 {"witness": "title 'wi fi' with query 'wifi' (second word not at offset 0: 'my wi fi'): the joined match is rejected "
                             "because the gap is measured from the wrong position"})


# ---------------------------------------------------------------------------------------------------------------------
def text_is_empty_words(ctx, rule):
    """Text::is_empty() is true exactly when the text has no words (not: no characters) — a query of separators only is
    the empty query"""
    fb = _fn(ctx, "Text::is_empty") or next((b for b in ctx.facts.fns() if b.id.endswith("::is_empty") and "Text" in (b.impl_self or "")), None)
    if not ctx.require(rule, "Text::is_empty", fb):
        return
    e = ctx.sym(fb).local(0)
    key = "is-empty-words"
    lt = U.len_test(e)
    good = False
    if lt is not None:
        x, f = lt
        fields = [str(y[2]) for y in S.walk(x) if isinstance(y, tuple) and y and y[0] == "field" and S.strip_refs(y[1]) == ("arg", 1)]
        good = fields == ["words"] and f(0) is True and f(1) is False and f(7) is False
    if good:
        ctx.ok(rule, key, fb.where(), "Text::is_empty tests `words` for emptiness", nontrivial=True)
    else:
        ctx.fail(rule, key, fb.where(), "Text::is_empty is no longer `self.words` being empty: %s" % S.show(e, fb)[:120],
                 {"witness": "the query ' ' (or '-') has characters but no words: it is not treated as the empty query and finds nothing"})


def record_source_unchanged(ctx, rule):
    """Record::new hands its `source` parameter to tokenize_record as it is (no trimming / slicing / copy through a
    transformation): the stored title is the title that was added"""
    fb = _fn(ctx, "Record::new")
    if not ctx.require(rule, "Record::new", fb):
        return
    sy = ctx.sym(fb)
    key = "record-source-unchanged"
    calls = [(bi, t) for bi, t in fb.calls() if (t.get("cn") or "").endswith("tokenize_record")]
    if not ctx.require(rule, "tokenize_record in Record::new", calls, fb.where()):
        return
    bad = []
    for bi, t in calls:
        a = S.strip_refs(sy.operand(t["args"][0]))
        if not (a[0] == "arg" and "str" in fb.locals[a[1]]["ty"]):
            bad.append((bi, t, a))
    # ... and the record's title is that call's result
    e = S.strip_refs(sy.local(0))
    title_ok = False
    if e[0] == "agg":
        d = dict(zip(e[4], e[3]))
        tt = S.strip_refs(d.get("title") or ("?",))
        title_ok = tt[0] == "call" and tt[1].endswith("tokenize_record")
    if not bad and title_ok:
        ctx.ok(rule, key, fb.where(), "Record::new tokenises its `source` parameter as it is and stores the result as the title", nontrivial=True)
    elif bad:
        bi, t, a = bad[0]
        ctx.fail(rule, key, where(fb, bi, t), "Record::new tokenises %s instead of its `source` parameter" % S.show(a, fb)[:100],
                 {"witness": "the title ' x ' comes back as 'x'"})
    else:
        ctx.fail(rule, key, fb.where(), "Record::new does not store tokenize_record(source) as the title: %s" % S.show(e, fb)[:120])


# ---------------------------------------------------------------------------------------------------------------------
def _prefix_key_problem(fb, k, show_body):
    """None when `k` (sites stripped) is window[..len] with len ranging over 1..=window.len(); else a description"""
    k = S.strip_sites(S.strip_refs(k))
    if not (k[0] == "call" and k[1].endswith("Index::index")):
        return "the looked-up key is not a prefix window[..len]: %s" % _show(k, show_body)[:100]
    w, rng = k[2][0], k[2][1]
    end = None
    if rng[0] == "agg" and rng[2].endswith("RangeTo::RangeTo"):
        end = rng[3][0]
    elif rng[0] == "agg" and rng[2].endswith("Range::Range") and U.is_const(rng[3][0]) and S.const_value(rng[3][0]) == 0:
        end = rng[3][1]
    elif rng[0] == "agg" and rng[2].endswith("RangeToInclusive::RangeToInclusive"):
        end = ("binop", "Add", rng[3][0], ("const", "usize", 1))
    if end is None:
        return "the looked-up key is not a prefix window[..len]: %s" % _show(k, show_body)[:100]
    wlen = B.lin(("call", "core::slice::<impl [T]>::len", (w,)))
    # the prefix length is the range item itself (only `rev` / `into_iter` between the range and its use)
    x = S.strip_refs(end)
    it = None
    if x[0] == "field" and str(x[2]) == "0" and S.strip_refs(x[1])[0] == "down" and S.strip_refs(x[1])[2] == "Some":
        c = S.strip_refs(S.strip_refs(x[1])[1])
        if c[0] == "call" and c[1].endswith("Iterator::next"):
            it = c[2][0]
    elif x[0] == "item":
        it = x[1]
    if it is None:
        return "the prefix length is not the item of a range: %s" % _show(end, show_body)[:100]
    src, stages = U.chain(it)
    extra = [s_[0] for s_ in stages if s_[0] not in ("rev", "into_iter", "by_ref")]
    if extra:
        return "the pattern lengths are restricted by `%s`" % extra[0]
    src = S.strip_refs(src)
    if src[0] == "agg" and src[2].endswith("Range::Range") and len(src[3]) == 2:
        st, last = src[3][0], B.lin(src[3][1]).plus(-1)
    elif src[0] == "call" and "RangeInclusive" in src[1] and src[1].endswith("::new") and len(src[2]) == 2:
        st, last = src[2][0], B.lin(src[2][1])
    else:
        return "the pattern lengths do not come from a range: %s" % _show(src, show_body)[:100]
    d = last - wlen
    if not (U.is_const(st) and S.const_value(st) == 1) or d.co or d.c != 0:
        return "pattern lengths start at %s and end at a bound other than window.len() (difference %s)" % \
            (_show(st, show_body)[:30], sorted(str(k_)[:60] for k_ in d.co) or d.c)
    return None


def _show(e, body):
    try:
        return S.show(e, body)
    except Exception:
        return str(e)


def normalize_next_lengths(ctx, rule):
    """Normalize::next tries every prefix of the window as a pattern — lengths window.len() down to 1 — on every path
    that yields an item: a fast path that skips the multi-character patterns for some windows silently loses
    compositions.  Loop form and closure form (find_map / find over the lengths) are both read."""
    fb = None
    for x in ctx.facts.fns():
        if "Normalize" in (x.impl_self or "") and x.cn.endswith("::next"):
            fb = x
    if not ctx.require(rule, "Normalize::next", fb):
        return
    sy = ctx.sym(fb)
    cfg = ctx.cfg(fb)
    key = "pattern-lengths"

    def is_map(body, e):
        e2 = S.strip_refs(U.rooted(ctx, body, S.strip_sites(S.strip_refs(e))))
        p = U.field_path(e2)
        if p and p[2][-1:] == ["map"]:
            return True
        return any(isinstance(y, tuple) and y and y[0] == "field" and str(y[2]) == "map" for y in S.walk(e2))

    sites = []       # (site block in fb, key expression rooted in fb, where)
    for bi, t in fb.calls():
        if U.callee_is(t, "HashMap::get") and is_map(fb, sy.operand(t["args"][0])):
            h = cfg.inner_header(bi)
            sites.append((h, sy.operand(t["args"][1]), where(fb, bi, t), "loop" if h is not None else None))
    for cb in U.nested_closures(ctx, fb):
        csy = ctx.sym(cb)
        for bi, t in cb.calls():
            if U.callee_is(t, "HashMap::get") and is_map(cb, csy.operand(t["args"][0])):
                pb, item = U.closure_param_item(ctx, cb)
                if pb is None or pb.id != fb.id:
                    sites.append((None, csy.operand(t["args"][1]), where(cb, bi, t), None))
                    continue
                k = U.rooted(ctx, cb, S.strip_sites(S.strip_refs(csy.operand(t["args"][1]))))
                k = U.subst(k, lambda y, item=item: item if y == ("arg", 2) else (("arg", y[2]) if y[0] == "parg" and y[1] == fb.id else None))
                # the call in Normalize::next that consumes the closure
                c = ctx.model.creation.get(cb.id)
                site = None
                restricted = None
                for cbi, ct in fb.calls():
                    if any(U.closure_body(ctx, sy.operand(a)) is cb for a in ct["args"][1:]):
                        site = cbi
                        _, stages = U.chain(sy.operand(ct["args"][0]))
                        restricted = [s_[0] for s_ in stages if s_[0] not in ("rev", "into_iter", "by_ref", "map")]
                        if not U.callee_is(ct, "Iterator::find_map", "Iterator::find", "Iterator::map"):
                            restricted = restricted or [(ct.get("cn") or "?").rsplit("::", 1)[-1]]
                sites.append((site, k, where(cb, bi, t), "closure" if not restricted else None))
    if not ctx.require(rule, "self.map.get in Normalize::next", sites, fb.where()):
        return
    problem = None
    h, k, wh, form = sites[0]
    if len(sites) != 1:
        problem = "%d lookups in the pattern map (expected one)" % len(sites)
    elif form is None or h is None:
        problem = "the pattern lookup is neither in a loop over the pattern lengths nor in a closure applied to them"
    else:
        problem = _prefix_key_problem(fb, k, fb)
    if problem is None:
        # every path from the entry to a return goes through the lookup, apart from the exits that yield None
        none_exits = [b_ for b_, t_ in fb.calls() if U.callee_is(t_, "FromResidual::from_residual")]
        for b_, si, st in fb.iter_stmts():
            if st["k"] == "assign" and not st["place"]["p"] and st["place"]["l"] == 0 and st["rv"]["k"] == "agg" and \
                    str(st["rv"].get("variant")) in ("None", "0") and st["rv"].get("did", "").endswith("Option") and not st["rv"]["ops"]:
                none_exits.append(b_)
        rets = [b_ for b_, bl in enumerate(fb.blocks) if bl["term"] and bl["term"]["k"] == "return" and not bl["cleanup"]]
        if any(cfg.path_exists(0, r, avoid=[h] + none_exits) for r in rets if r != 0):
            problem = "a path yields an item without trying the patterns"
    if problem is None:
        ctx.ok(rule, key, wh, "every prefix window[..len], len = window.len() .. 1, is looked up on every path that yields an item (%s form)" % form,
               nontrivial=True)
    else:
        ctx.fail(rule, key, wh, "Normalize::next: %s" % problem,
                 {"witness": "'a' + U+0300 (decomposed à) is no longer composed: the decomposed spelling stops matching the precomposed title"})


# ---------------------------------------------------------------------------------------------------------------------
def no_shadowed_defaults(ctx, rule):
    """The provided methods of the crate's own traits (Word::len / is_empty / is_function / dist, LimitSort::limit_sort*) are
    what every rule reads when it meets a call through the trait.  An impl that overrides one of them (`impl Word for
    WordView { fn len(&self) -> usize { .. } }`) silently replaces that body for one type: the rules would still be reading
    the default.  Expected count: zero; the number of provided methods found is the vacuity guard."""
    facts = ctx.facts
    provided = {}
    for b in facts.fns():
        if b.kind == "method" and not b.impl_trait and not b.impl_self and "::" in b.id:
            trait, name = b.id.rsplit("::", 1)
            provided.setdefault(trait, set()).add(name)
    n = sum(len(v) for v in provided.values())
    bad = []
    for b in facts.fns():
        if b.kind == "method" and b.impl_trait in provided:
            name = b.id.rsplit("::", 1)[-1]
            if name in provided[b.impl_trait]:
                bad.append(b)
    for b in bad:
        ctx.fail(rule, "shadowed-default:%s" % b.id, b.where(), "%s overrides the provided method of %s: calls through the trait on `%s` "
                 "no longer run the body the rules analyse" % (b.id, b.impl_trait, b.impl_self),
                 {"witness": "words of that type report another length / distance / function-word status than the trait's default computes"})
    if not bad:
        ctx.ok(rule, "shadowed-default", "-", "no impl overrides a provided method of the crate's traits (%d provided methods in %d traits)"
               % (n, len(provided)))
    ctx.floor(rule, "provided_trait_methods", n, 4)


def build_mode_cfgs(ctx, rule):
    """R01.k: the non-test sources contain no code that is compiled in or out by the build mode (`cfg(debug_assertions)`,
    `cfg!(debug_assertions)`, `cfg(overflow_checks)`) or by the pointer width / architecture: the facts are extracted from one
    configuration (debug assertions and overflow checks on), so code guarded that way is invisible to every other rule, and
    C01 demands that the checked and the unchecked build return the same hits.  `debug_assert!` itself is the only accepted
    build-mode dependence (its conditions are obligations of R01.g).  Lexical rule over rust/core/src and rust/wasm/src;
    expected count zero, the number of files and `debug_assert` uses seen is the vacuity guard."""
    import os
    import re
    repo = ctx.facts.meta.get("repo") or "/repo"
    pat = re.compile(r"cfg!?\s*\(([^)]*\b(debug_assertions|overflow_checks|target_pointer_width|target_arch|target_os|panic)\b[^)]*)\)")
    files = 0
    dbg = 0
    hits = []
    for base in ("rust/core/src", "rust/wasm/src"):
        for dp, dn, fns in os.walk(os.path.join(repo, base)):
            for fn_ in sorted(fns):
                if not fn_.endswith(".rs"):
                    continue
                files += 1
                path = os.path.join(dp, fn_)
                try:
                    lines = open(path, encoding="utf-8").read().split("\n")
                except OSError:
                    continue
                in_tests = False
                for i, l in enumerate(lines):
                    if l.strip().startswith("#[cfg(test)]"):
                        in_tests = True            # test modules close the files of this crate
                    code = l.split("//")[0]
                    if "debug_assert" in code and not in_tests:
                        dbg += 1
                    m = pat.search(code)
                    if m and not in_tests:
                        hits.append((os.path.relpath(path, repo), i + 1, m.group(0)))
    for rel, ln, txt in hits:
        ctx.fail(rule, "build-mode-cfg:%s:%s" % (rel, txt.replace(" ", "")), "%s:%d" % (rel, ln), "`%s` compiles code in or out by the build "
                 "configuration: the analysed configuration does not contain the other variant, and checked / unchecked builds may differ"
                 % txt, {"witness": "a release build takes a path no debug run and no rule has seen"}, kind="S")
    if not hits:
        ctx.ok(rule, "build-mode-cfg", "-", "no build-mode / target cfg in the non-test sources (%d files, %d debug_assert uses)" % (files, dbg), kind="S")
    ctx.floor(rule, "source_files_scanned", files, 30)
