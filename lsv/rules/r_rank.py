"""Ranking / selection rules: R06.a,d,e  R07.a,b  R08.a–e  R09.c  R12.a–c,e."""
from .. import comparators as C
from .. import sym as S
from .. import util as U
from ..effects import field_chain
from ..engine import where
from . import r_state as RS


# ------------------------------------------------------------------ bounded selection (R06.a)

def _limitsort(ctx):
    nexts = [b for b in ctx.facts.fns() if b.kind == "method" and b.impl_trait == "std::iter::Iterator"
             and "LimitSortIter" in (b.impl_self or "")]
    ctors = [b for b in ctx.facts.fns() if b.kind == "method" and b.cn.startswith("utils::limitsort::LimitSort::limit_sort")]
    return (nexts[0] if len(nexts) == 1 else None), ctors


def bounded_selection(ctx, rule, check_limit_arg=True):
    nb, ctors = _limitsort(ctx)
    if not ctx.require(rule, "LimitSortIter::next", nb):
        return
    if not ctx.floor(rule, "limit_sort_constructors", len(ctors), 1):
        return
    facts = ctx.facts
    # which field receives the `limit` parameter / the comparator / the source in the constructors
    roles = {}
    for c in ctors:
        sy = ctx.sym(c)
        for bi, si, st in c.iter_stmts():
            if st["k"] == "assign" and st["rv"]["k"] == "agg" and "LimitSortIter" in st["rv"].get("did", ""):
                e = sy.rvalue(st["rv"])
                for fname, op in zip(e[4], e[3]):
                    op = S.strip_refs(op)
                    if op == ("arg", 2):
                        roles.setdefault("limit", set()).add(fname)
                    elif op == ("arg", 3):
                        roles.setdefault("cmp", set()).add(fname)
                    elif op == ("arg", 1):
                        roles.setdefault("source", set()).add(fname)
                    elif op[0] == "call" and op[1].endswith("Vec::with_capacity"):
                        roles.setdefault("buffer", set()).add(fname)
    key = "ctor-roles"
    if all(len(roles.get(r, ())) == 1 for r in ("limit", "cmp", "source", "buffer")):
        ctx.ok(rule, key, ctors[0].where(), "constructors store (source, limit, comparator) in fields %s" %
               {r: sorted(v)[0] for r, v in roles.items()}, nontrivial=True, kind="S")
    else:
        ctx.fail(rule, key, ctors[0].where(), "constructors of the bounded selection do not store their `limit`/comparator/source "
                 "parameters in one field each: %s" % {r: sorted(v) for r, v in roles.items()}, kind="S")
        return
    f_limit, f_buf, f_cmp, f_src = (sorted(roles[r])[0] for r in ("limit", "buffer", "cmp", "source"))
    sy = ctx.sym(nb)
    cfg = ctx.cfg(nb)

    def is_field(e, name):
        p = U.field_path(e)
        return p is not None and p[0] == "arg" and p[1] == 1 and p[2] == [name]

    evs = []
    for bi, t in nb.calls():
        args = [sy.operand(a) for a in t["args"]]
        m = (t.get("cn") or "?").rsplit("::", 1)[-1]
        if args and is_field(args[0], f_buf):
            evs.append((bi, m, t, args))
        elif any(is_field(x, f_buf) for a in args for x in S.walk(a) if isinstance(x, tuple)):
            # buffer handed to the sort closure
            cb = None
            for a in args:
                cb = cb or U.closure_body(ctx, a)
            evs.append((bi, "sort-call" if cb is not None or "call_mut" in m or "call_once" in m else m, t, args))
    pops = [bi for bi, m, t, a in evs if m == "pop"]
    pushes = [bi for bi, m, t, a in evs if m in ("push", "extend", "insert")]
    sorts = [bi for bi, m, t, a in evs if m == "sort-call" or m.startswith("sort")]
    truncs = [(bi, t, a) for bi, m, t, a in evs if m == "truncate"]
    revs = [bi for bi, m, t, a in evs if m == "reverse"]
    ctx.count("selection_buffer_events", len(evs))
    if not (pops and pushes and sorts and truncs):
        ctx.fail(rule, "selection-shape", nb.where(), "bounded selection no longer consists of push / sort / truncate / pop on one "
                 "buffer (fail closed): %s" % [m for _, m, _, _ in evs], kind="S")
        return
    pop = pops[0]
    # the pop that follows the fill phase (a fast `if done { return buffer.pop() }` may come first)
    for p_ in pops:
        if any(cfg.path_exists(tb, p_) for tb, _, _ in truncs):
            pop = p_
    # (i) every truncate: argument is the limit field and a sort dominates it with no push in between
    for (tb, tt, ta) in truncs:
        key = "truncate@%s" % ("drain" if cfg.in_loop(tb) else "final")
        lim_ok = is_field(ta[1], f_limit) or not check_limit_arg
        # every path from the entry and from every push to this truncate passes through a sort (the stable and the
        # unstable sort are alternatives of one `if`), and once sorted the truncate is reached on every path
        sdom = not cfg.path_exists(0, tb, avoid=sorts) and not any(cfg.path_exists(p, tb, avoid=sorts) for p in pushes if p != tb) \
            and all(cfg.every_path_passes(s_, [tb]) for s_ in sorts if cfg.path_exists(s_, tb, avoid=[x for x in sorts if x != s_] + pushes))
        if lim_ok and sdom:
            ctx.ok(rule, key, where(nb, tb, tt), "truncate(limit) directly follows a sort of the buffer", nontrivial=True, kind="S")
        elif not lim_ok:
            ctx.fail(rule, key, where(nb, tb, tt), "the buffer is truncated to `%s`, not to the limit field" % S.show(ta[1], nb),
                     {"witness": "a search returns limit+1 hits / fewer than min(limit, n) hits"}, kind="S")
        else:
            ctx.fail(rule, key, where(nb, tb, tt), "the buffer is truncated without having been sorted since the last push",
                     {"witness": "better-ranked records are cut off"}, kind="S")
    # (ii) final phase: a truncate and a sort lie on every path from the end of the source to the first pop
    fin_truncs = [tb for tb, _, _ in truncs if not cfg.in_loop(tb) and cfg.path_exists(tb, pop)]
    done_asg = [bi for bi, si, st in nb.iter_stmts() if st["k"] == "assign" and st["place"]["p"] and not nb.blocks[bi]["cleanup"]
                and (U.field_path(sy.dest(st["place"])) or (0, 0, [None]))[2][-1:] == ["done"]]
    key = "final-sort-truncate-reverse"
    ok = bool(fin_truncs) and bool(revs) and bool(done_asg)
    if ok:
        ft = fin_truncs[0]
        rv = revs[0]
        ok = cfg.dominates(ft, rv) and all(cfg.dominates(rv, d) or rv == d for d in done_asg) and len(revs) == 1 \
            and not cfg.in_loop(rv)
        # the not-done branch: every path from the source-exhausted exit reaches pop only through ft and rv
    if ok:
        ctx.ok(rule, key, nb.where(), "after the source is exhausted: sort -> truncate(limit) -> reverse -> done = true, then pop",
               nontrivial=True, kind="S")
    else:
        ctx.fail(rule, key, nb.where(), "the final sort -> truncate(limit) -> reverse sequence before the first pop is broken "
                 "(final truncates: %d, reverses: %d)" % (len(fin_truncs), len(revs)),
                 {"witness": "more than `limit` hits, or the hit list comes out worst-first"}, kind="S")
    # done-flag guard: the fill phase runs only while !done, and pop is reached on both sides
    key = "done-guard"
    guard = None
    for bi, t in nb.iter_terms():
        bt = U.bool_switch_targets(t)
        if bt and is_field(sy.operand(t["discr"]), "done"):
            guard = (bi, bt)
    if guard and all(cfg.dominates(guard[0], p) for p in pushes) and not U.branch_reaches(cfg, guard[0], guard[1][1], set(pushes)) \
            and U.branch_reaches(cfg, guard[0], guard[1][0], set(pushes)):
        ctx.ok(rule, key, where(nb, guard[0]), "the fill phase runs only while the done flag is false", nontrivial=True, kind="S")
    else:
        ctx.fail(rule, key, nb.where(), "the fill/sort phase is not guarded by the done flag",
                 {"witness": "after the first item the remaining buffer is re-sorted and reversed again: order alternates"}, kind="S")
    # every item taken from the source is pushed: no path from the `Some` arm of source.next() back to the next
    # source.next() (or on to the final phase) avoids the push
    key = "every-item-buffered"
    def through_iter_identity(e):
        # `for x in source.by_ref()`: by_ref / into_iter of an iterator are the iterator itself
        e = S.strip_refs(e)
        while isinstance(e, tuple) and e and e[0] == "call" and e[1].endswith(("Iterator::by_ref", "IntoIterator::into_iter")) and e[2]:
            e = S.strip_refs(e[2][0])
        return e
    src_next = [bi for bi, t in nb.calls() if (t.get("cn") or "").endswith("Iterator::next") and t["args"] and
                is_field(through_iter_identity(sy.operand(t["args"][0])), f_src)]
    ok_items = False
    if src_next and pushes:
        nbi = src_next[0]
        tgt = nb.blocks[nbi]["term"].get("target")
        sw = nb.blocks[tgt]["term"] if tgt is not None else None
        if sw is not None and sw["k"] == "switch":
            some_t = [b_ for v, b_ in sw["targets"] if v == 1]
            some_t = some_t[0] if some_t else None
            if some_t is not None:
                goals = set([nbi] + [tb for tb, _, _ in truncs if not cfg.in_loop(tb)] + [pop])
                leak = any(cfg.path_exists(some_t, g, avoid=pushes) or some_t == g for g in goals) and some_t not in pushes
                ok_items = not leak
    if ok_items:
        ctx.ok(rule, key, nb.where(), "every item yielded by the source is pushed into the buffer before the next one is fetched",
               nontrivial=True, kind="S")
    else:
        ctx.fail(rule, key, nb.where(), "an item yielded by the source can be dropped without being buffered (a fast path / early "
                 "`continue` in the fill loop): the cut is no longer the best `limit` of all items",
                 {"witness": "a strong candidate arriving before the first sort makes later, better candidates be skipped"}, kind="S")
    # (iii) forwarders keep the argument order
    for cb in [c for c in facts.closures_of(nb)] + [c2 for c in facts.closures_of(nb) for c2 in facts.closures_of(c)]:
        if cb.arg_count != 3:
            continue
        csy = ctx.sym(cb)
        for bi, t in cb.calls():
            if (t.get("callee") or "") in ("std::ops::FnMut::call_mut", "std::ops::Fn::call", "std::ops::FnOnce::call_once"):
                tup = S.strip_refs(csy.operand(t["args"][1]))
                key = "forwarder:%s" % cb.id.rsplit("::", 2)[-2] + "::" + cb.id.rsplit("::", 1)[-1]
                if tup[0] == "agg" and len(tup[3]) == 2 and S.strip_refs(tup[3][0]) == ("arg", 2) and S.strip_refs(tup[3][1]) == ("arg", 3):
                    ctx.ok(rule, key, where(cb, bi, t), "the sort forwards (x, y) to the user comparator in that order", nontrivial=True, kind="S")
                else:
                    ctx.fail(rule, key, where(cb, bi, t), "the sort forwards its arguments to the user comparator in the wrong order: %s" %
                             S.show(tup, cb), {"witness": "every ranking is reversed"}, kind="S")


def _between(cfg, s, p, t):
    """a push block p lies on some path s -> t that does not revisit s"""
    return cfg.path_exists(s, p, avoid=[s]) and cfg.path_exists(p, t, avoid=[s]) if p != t else True


def _selection_sites(ctx):
    """[(body, limit expr, comparator body/expr, chain stages, source)] for every limit_sort* call outside utils"""
    out = []
    for b in ctx.facts.fns():
        sy = ctx.sym(b)
        for bi, t in b.calls():
            if (t.get("cn") or "").startswith("utils::limitsort::LimitSort::limit_sort"):
                lim = sy.operand(t["args"][1])
                cmpe = sy.operand(t["args"][2])
                out.append((b, bi, t, lim, cmpe))
    return out


def limit_provenance(ctx, rule):
    """limit handed to the final selection of Store::search and to top_ixs is self.limit; prepare gets self.limit as size"""
    facts = ctx.facts
    sites = _selection_sites(ctx)
    ctx.floor(rule, "selection_sites", len(sites), 3)
    for (b, bi, t, lim, cmpe) in sites:
        key = "limit:%s" % b.id
        store = U.adt_of(facts, b.local_ty(1)) if b.arg_count >= 1 else None
        if store and store.endswith("::Store"):
            p = U.field_path(lim)
            if p and p[0] == "arg" and p[1] == 1 and p[2] == ["limit"]:
                ctx.ok(rule, key, where(b, bi, t), "selection in %s is bounded by self.limit" % b.id, nontrivial=True)
            else:
                ctx.fail(rule, key, where(b, bi, t), "selection in %s is bounded by `%s`, not by self.limit" % (b.id, S.show(lim, b)),
                         {"witness": "a search returns more hits than the limit / misses hits"})
    # Store::search passes self.limit as `size` to the index
    for b in facts.fns():
        if b.cn.endswith("Store>::search") or (b.kind == "method" and b.id.endswith("::search") and U.adt_of(facts, b.local_ty(1) if b.arg_count else "") and
                                                U.adt_of(facts, b.local_ty(1)).endswith("::Store")):
            sy = ctx.sym(b)
            for bi, t in b.calls():
                if (t.get("rcn") or "").endswith("TrigramIndex::prepare"):
                    p = U.field_path(sy.operand(t["args"][2]))
                    key = "prepare-size:%s" % b.id
                    if p and p[0] == "arg" and p[1] == 1 and p[2] == ["limit"]:
                        ctx.ok(rule, key, where(b, bi, t), "the index is asked for candidates with size = self.limit", nontrivial=True)
                    else:
                        ctx.fail(rule, key, where(b, bi, t), "the index is asked for candidates with size `%s`, not self.limit"
                                 % S.show(sy.operand(t["args"][2]), b), {"witness": "stores with <= 10*limit records lose hits"})


def position_mapping(ctx, rule):
    """search maps candidate positions through self.records[ix]; top_ixs returns record.ix"""
    facts = ctx.facts
    sb = _search_body(ctx)
    if not ctx.require(rule, "Store::search", sb):
        return None
    sy = ctx.sym(sb)
    cands = [U.chain(a) for a in U.flatten_phi(sy.local(0))]
    cands = [c for c in cands if len(c[1]) >= 3]
    if len(cands) != 1:
        ctx.fail(rule, "ixs-sources", sb.where(), "search pipeline not recognised (%d pipelines; fail closed)" % len(cands))
        return None
    src, stages = cands[0]
    names = [s[0] for s in stages]
    ctx.count("search_chain_stages", len(stages))
    key = "ixs-sources"
    alts = U.flatten_phi(S.strip_refs(src))
    callees = sorted(set(a[1].rsplit("::", 1)[-1] for a in alts if a[0] == "call"))
    if callees == ["prepare", "top_ixs"]:
        ctx.ok(rule, key, sb.where(), "candidate positions come from the index (prepare) or from the empty-query ranking (top_ixs)",
               nontrivial=True)
    else:
        ctx.fail(rule, key, sb.where(), "candidate positions come from %s" % callees)
    maps = [s for s in stages if s[0] == "map"]
    key = "records[ix]"
    good = False
    if maps:
        cb = U.closure_body(ctx, maps[0][1][0])
        if cb is not None:
            e = ctx.sym(cb).local(0)
            idx = [x for x in S.walk(e) if isinstance(x, tuple) and x and x[0] == "call" and x[1].endswith("Index::index")]
            if not idx:
                # `records.get(ix).unwrap()` / `.expect(..)`: the same element (and the same panic) as `records[ix]`
                idx = [x for x in S.walk(e) if isinstance(x, tuple) and x and x[0] == "call" and
                       x[1].endswith(("<impl [T]>::get", "Vec::get")) and len(x[2]) == 2]
                if not any(isinstance(x, tuple) and x and x[0] == "call" and x[1].endswith(("Option::unwrap", "Option::expect"))
                           for x in S.walk(e)):
                    idx = []
            if e[0] == "call" and e[1].endswith("Hit::from_record") and idx:
                base = field_chain(idx[0][2][0])[0]
                ix = S.strip_refs(idx[0][2][1])
                if base and base[-1][1] == "records" and ix == ("arg", 2):
                    good = True
    if good:
        ctx.ok(rule, key, sb.where(), "each candidate position ix is turned into a hit from self.records[ix]", nontrivial=True)
    else:
        ctx.fail(rule, key, sb.where(), "candidate positions are not mapped through self.records[ix]",
                 {"witness": "hits show another record's title / id"})
    # top_ixs: final map returns r.ix of the selected record
    tb = [b for b in facts.fns() if b.cn.endswith("::top_ixs")]
    if tb:
        tsy = ctx.sym(tb[0])
        # the collected chain is assigned to a local that is returned / cached
        for bi, t in tb[0].calls():
            if U.callee_is(t, "Iterator::collect"):
                src2, st2 = U.chain(tsy.call_expr(t, bi))
                ms = [s for s in st2 if s[0] == "map"]
                key = "top_ixs-returns-ix"
                ok = False
                if ms:
                    mb = U.closure_body(ctx, ms[-1][1][0])
                    if mb is not None:
                        e = S.strip_refs(ctx.sym(mb).local(0))
                        ok = e[0] == "field" and e[2] == "ix" and S.strip_refs(e[1]) == ("arg", 2)
                p = U.field_path(src2)
                ok = ok and p is not None and p[2] == ["records"]
                if ok:
                    ctx.ok(rule, key, tb[0].where(), "the empty-query ranking lists record.ix of the selected records of self.records",
                           nontrivial=True)
                else:
                    ctx.fail(rule, key, tb[0].where(), "the empty-query ranking does not list `record.ix` of records taken from self.records",
                             {"witness": "empty query shows wrong records"})
    return stages


def _search_body(ctx):
    for b in ctx.facts.fns():
        if b.kind == "method" and b.id.endswith("::search") and b.arg_count >= 2 and \
                (U.adt_of(ctx.facts, b.local_ty(1)) or "").endswith("::Store"):
            return b
    return None


def search_chain_shape(ctx, rule, parts=("order", "score", "filter", "comparator", "result", "branch")):
    """ixs -> map(record) -> map(score) -> filter(hit_matches) -> limit_sort(limit, compare_hits) -> map(result) -> collect"""
    sb = _search_body(ctx)
    if sb is None:
        return
    sy = ctx.sym(sb)
    alts = U.flatten_phi(sy.local(0))
    chains = [U.chain(a) for a in alts]
    main = [c for c in chains if len(c[1]) >= 3]
    side = [a for a, c in zip(alts, chains) if len(c[1]) < 3]
    empty_side = [a for a in side if S.strip_refs(a)[0] == "call" and S.strip_refs(a)[1].endswith(("Vec::new", "Vec::with_capacity"))]
    other_side = [a for a in side if a not in empty_side]
    if (other_side and "order" in parts) or (side and "complete" in parts):
        side = other_side or side
        ctx.fail(rule, "early-return", sb.where(), "Store::search has a return path that bypasses the candidate -> score -> filter -> "
                 "selection pipeline (%s): hits can be lost or reported without being scored" % S.show(side[0], sb)[:80],
                 {"witness": "a query sequence that arms the shortcut returns [] (or unscored records) where a fresh store returns hits"})
    if len(main) != 1:
        if "order" in parts or "complete" in parts or not main:
            ctx.fail(rule, "chain", sb.where(), "search pipeline changed shape: %d pipelines found (fail closed)" % len(main))
        return
    src, stages = main[0]
    names = [s[0] for s in stages]
    key = "chain"
    # roles of the stages: what each one does, judged from the calls inside its closure (two `map`s may be fused into one)
    roles = []          # (role, stage)
    unknown = []
    for st in stages:
        n = st[0]
        if n == "inspect":
            continue                  # observes items, changes nothing
        if n in ("iter", "into_iter", "copied", "cloned"):
            roles.append(("source", st))
        elif n.startswith("limit_sort"):
            roles.append(("select", st))
        elif n == "filter":
            roles.append(("filter", st))
        elif n == "collect":
            roles.append(("collect", st))
        elif n == "map":
            cbody = U.closure_body(ctx, st[1][0]) if st[1] else None
            got = []
            if cbody is not None:
                ccfg = ctx.cfg(cbody)
                marks = []
                for cbi, ct in cbody.calls():
                    r_ = ct.get("rcn") or ""
                    if r_.endswith("Hit::from_record"):
                        marks.append((cbi, "hit"))
                    elif r_.endswith("score::score"):
                        marks.append((cbi, "score"))
                    elif r_.endswith("highlight::highlight"):
                        marks.append((cbi, "result"))
                for cbi, si_, st_ in cbody.iter_stmts():
                    if st_["k"] == "assign" and st_["rv"]["k"] == "agg" and st_["rv"].get("did", "").endswith("SearchResult"):
                        marks.append((cbi, "result"))
                # order inside the closure by dominance
                import functools
                def before(a, b):
                    if a[0] == b[0]:
                        return 0
                    return -1 if ccfg.dominates(a[0], b[0]) else (1 if ccfg.dominates(b[0], a[0]) else 0)
                marks.sort(key=functools.cmp_to_key(before))
                for _, r_ in marks:
                    if r_ not in got:
                        got.append(r_)
            if not got:
                unknown.append(n)
            for r_ in got:
                roles.append((r_, st))
        else:
            unknown.append(n)
    role_names = [r for r, _ in roles]
    want = ["source", "hit", "score", "filter", "select", "result", "collect"]
    if role_names == want and not unknown:
        if "order" in parts:
            ctx.ok(rule, key, sb.where(), "search is ixs -> hit -> score -> filter -> bounded selection -> result", {"stages": names},
                   nontrivial=True)
    elif "order" in parts:
        ctx.fail(rule, key, sb.where(), "search pipeline changed shape: %s (roles %s) — every record that is a hit on its own must reach the "
                 "bounded selection (filter before the cut)" % (names, role_names),
                 {"witness": "a rejected candidate takes a slot of the top-`limit` list and a genuine hit goes missing"})
        return
    else:
        # the stages this property needs are located by role below; a different overall order is not this property's business
        if sorted(role_names) != sorted(want) or unknown:
            ctx.fail(rule, key, sb.where(), "search pipeline lost or gained stages: %s (fail closed)" % names)
            return
    by_role = {}
    for r_, st in roles:
        by_role.setdefault(r_, st)
    stages = [by_role["source"], by_role["hit"], by_role["score"], by_role["filter"], by_role["select"], by_role["result"], by_role["collect"]]
    # score closure calls score::score on (query, hit) and returns the hit; filter closure calls hit_matches(query, hit)
    sc = U.closure_body(ctx, stages[2][1][0])
    fl = U.closure_body(ctx, stages[3][1][0])
    key = "score-stage"
    ok = sc is not None and any((t.get("rcn") or "").endswith("score::score") for _, t in sc.calls())
    if "score" in parts:
        if ok:
            ctx.ok(rule, key, sc.where(), "every candidate is scored with score(query, hit)")
        else:
            ctx.fail(rule, key, sb.where(), "the scoring stage no longer calls score(query, hit)")
    key = "filter-stage"
    ok = fl is not None
    if ok:
        e = ctx.sym(fl).local(0)
        ok = e[0] == "call" and e[1].endswith("filter::hit_matches")
    if "filter" in parts:
        if ok:
            ctx.ok(rule, key, fl.where(), "hits are filtered by hit_matches(query, hit) (not negated)", nontrivial=True)
        else:
            ctx.fail(rule, key, sb.where(), "the filter stage is not `hit_matches(query, hit)`",
                     {"witness": "non-matching records are returned / matching ones dropped"})
    # final comparator is compare_hits
    cmpe = stages[4][1][1]
    key = "final-comparator"
    if "comparator" in parts:
        if S.strip_refs(cmpe)[0] == "fn" and S.strip_refs(cmpe)[1].endswith("compare_hits"):
            ctx.ok(rule, key, sb.where(), "the final selection orders hits with compare_hits")
        else:
            ctx.fail(rule, key, sb.where(), "the final selection is ordered by %s" % S.show(cmpe, sb)[:80])
    # result stage: SearchResult { id: hit.id, title: highlight(&hit, dividers) }
    rb = U.closure_body(ctx, stages[5][1][0])
    key = "result-stage"
    ok = False
    if rb is not None:
        e = ctx.sym(rb).local(0)
        if e[0] == "agg" and e[2].endswith("SearchResult::SearchResult"):
            d = dict(zip(e[4], e[3]))
            ide = S.strip_refs(d.get("id"))
            te = d.get("title")
            ok = ide[0] == "field" and ide[2] == "id" and S.strip_refs(ide[1]) == ("arg", 2) and \
                te[0] == "call" and te[1].endswith("highlight::highlight") and S.strip_refs(te[2][0]) == ("arg", 2)
    if "result-id" in parts and "result" not in parts:
        # weaker form for properties that only need the id to belong to the hit: every SearchResult built in the stage
        # takes its id from the hit parameter
        ok_id = False
        if rb is not None:
            ok_id = True
            n_agg = 0
            rsy = ctx.sym(rb)
            for bi_, si_, st_ in rb.iter_stmts():
                if st_["k"] == "assign" and st_["rv"]["k"] == "agg" and st_["rv"].get("did", "").endswith("SearchResult"):
                    n_agg += 1
                    e_ = rsy.rvalue(st_["rv"])
                    d_ = dict(zip(e_[4], e_[3]))
                    ide_ = S.strip_refs(d_.get("id"))
                    if not (ide_[0] == "field" and ide_[2] == "id" and S.strip_refs(ide_[1]) == ("arg", 2)):
                        ok_id = False
            ok_id = ok_id and n_agg >= 1
        if ok_id:
            ctx.ok(rule, key, rb.where(), "each result carries the id of the hit it was built from", nontrivial=True)
        else:
            ctx.fail(rule, key, sb.where(), "a result does not take its id from the hit it was built from",
                     {"witness": "hit ids do not belong to the shown titles"})
    if "result" in parts:
        if ok:
            ctx.ok(rule, key, rb.where(), "each result is {id: hit.id, title: highlight(&hit, dividers)} of the same hit", nontrivial=True)
        else:
            ctx.fail(rule, key, sb.where(), "results are no longer built as {id: hit.id, title: highlight(&hit, dividers)}",
                     {"witness": "hit ids do not belong to the shown titles"})
    # the collected list is what is returned: nothing drops, reorders or merges results after the cut
    if "complete" in parts or "result" in parts or "order" in parts:
        ret = S.strip_sites(S.strip_refs(sy.local(0)))
        key = "result-unmodified"
        touched = None
        for bi, t in sb.calls():
            m = (t.get("cn") or "").rsplit("::", 1)[-1]
            if not t["args"] or m not in ("dedup", "dedup_by", "dedup_by_key", "retain", "retain_mut", "truncate", "remove", "swap_remove", "pop",
                                          "drain", "clear", "insert", "sort", "sort_by", "sort_by_key", "sort_unstable", "sort_unstable_by",
                                          "sort_unstable_by_key", "reverse", "swap", "rotate_left", "rotate_right", "split_off", "resize"):
                continue
            r = S.strip_sites(S.strip_refs(sy.operand(t["args"][0])))
            if r == ret and not sb.blocks[bi]["cleanup"]:
                touched = (bi, t, m)
        if touched:
            ctx.fail(rule, key, where(sb, touched[0], touched[1]), "Store::search changes the collected result list with `%s` before returning it"
                     % touched[2], {"witness": "two records with the same title: only one of them is returned although each is a hit on its own"})
        else:
            ctx.ok(rule, key, sb.where(), "the collected result list is returned as it is")
    if "branch" not in parts:
        return
    # branch: index iff query has words
    key = "index-iff-words"
    ok = False
    for bi, t in sb.iter_terms():
        bt = U.bool_switch_targets(t)
        if not bt:
            continue
        e = sy.operand(t["discr"])
        lt = U.len_test(e)
        if lt is not None:
            p = U.field_path(lt[0])
            if p and p[2] == ["words"]:
                truth0, truth1, truth5 = lt[1](0), lt[1](1), lt[1](5)
                cfg = ctx.cfg(sb)
                prep = set(bi2 for bi2, t2 in sb.calls() if (t2.get("rcn") or "").endswith("TrigramIndex::prepare"))
                top = set(bi2 for bi2, t2 in sb.calls() if (t2.get("rcn") or "").endswith("::top_ixs"))
                def side(v):
                    return bt[1] if v else bt[0]
                ok = (truth1 == truth5 != truth0 and U.branch_reaches(cfg, bi, side(truth1), prep)
                      and not U.branch_reaches(cfg, bi, side(truth1), top)
                      and U.branch_reaches(cfg, bi, side(truth0), top) and not U.branch_reaches(cfg, bi, side(truth0), prep))
    if ok:
        ctx.ok(rule, key, sb.where(), "the trigram index is consulted iff the query has at least one word; otherwise the "
               "top-rated listing is used", nontrivial=True)
    else:
        ctx.fail(rule, key, sb.where(), "the choice between index and top-rated listing is not `query.words.len() > 0`",
                 {"witness": "empty query returns nothing / one-word queries list all records"})


def per_record_purity(ctx, rule):
    """R06.e: scoring, filtering and highlighting write no long-lived state other than RS-covered scratch and the matrix"""
    facts = ctx.facts
    roots = [b.id for b in facts.fns() if b.id.endswith(("search::score::score", "search::filter::hit_matches",
                                                          "search::highlight::highlight", "search::sort::compare_hits"))]
    if not ctx.floor(rule, "per_record_roots", len(roots), 4):
        return
    eff = ctx.eff
    allowed = set()
    for sc in RS.scratch_scopes(ctx, rule):
        if sc.cell[0] == "field":
            allowed.add((sc.cell[1], sc.cell[2]))
    written = set()
    for r in roots:
        written |= eff.trans(r)
    n = 0
    for (adt, f) in sorted(written):
        if not RS._long_lived_struct(ctx, adt) or adt.endswith("WordMatch"):
            continue
        n += 1
        key = "write:%s.%s" % (adt.rsplit("::", 1)[-1], f)
        if (adt, f) in allowed or adt.endswith("DistMatrix"):
            ctx.ok(rule, key, "-", "per-record path writes only reset-before-read scratch: %s.%s" % (adt, f), kind="S")
        elif RS.value_never_leaves(ctx, None,
                                   lambda e, adt=adt, f=f: isinstance(e, tuple) and len(e) > 3 and e[0] == "field" and str(e[2]) == f and e[3] == adt)[0]:
            ctx.ok(rule, key, "-", "%s.%s is diagnostic state (written, or read only to update itself): no verdict depends on it" % (adt, f),
                   nontrivial=True, kind="S")
        else:
            wb, how = None, None
            for r in roots:
                wb, how = eff.explain(r, (adt, f))
                if wb:
                    break
            ctx.fail(rule, key, facts.bodies[wb].where() if wb else "-",
                     "scoring/filtering/highlighting writes long-lived state %s.%s (in %s): a record's verdict can depend on "
                     "other records or earlier searches" % (adt, f, wb),
                     {"witness": "the same record scores differently alone and next to other records"}, kind="S")
    ctx.count("long_lived_cells_written_per_record", n)
    # thread-locals touched: only RS-checked ones and struct-valued ones
    reach = ctx.cg.reachable(roots)
    for (b, bi, t, k, cid) in ctx.model.tls_sites:
        if b.id in reach:
            payload = ctx.model.tls_keys.get(k) or ""
            key = "tls:%s" % k
            pt = facts.ty(payload)
            if pt.get("k") == "adt" and (pt["did"] in facts.adts or payload.startswith("std::cell::RefCell<std::vec::Vec<")):
                ctx.ok(rule, key, where(b, bi, t), "thread-local %s on the per-record path is scratch (checked by RS)" % k, kind="S")
            else:
                ctx.fail(rule, key, where(b, bi, t), "thread-local %s is used on the per-record path" % k, kind="S")


# ------------------------------------------------------------------ comparators (R07.a, R12.a)

def comparators_wellformed(ctx, rule):
    sites = _selection_sites(ctx)
    res = {}
    for (b, bi, t, lim, cmpe) in sites:
        cb = U.closure_body(ctx, cmpe)
        key = "comparator:%s" % b.id
        if cb is None:
            ctx.fail(rule, key, where(b, bi, t), "comparator of the selection in %s is not a closure / fn item (fail closed)" % b.id)
            continue
        r = C.analyse(ctx, cb)
        res[b.id] = (cb, r)
        # every Ord::cmp resolves to an integer / char / Vec<char> implementation
        bad_ty = []
        for body in [cb] + ctx.facts.closures_of(cb):
            for cbi, ct in body.calls():
                if (ct.get("cn") or "").endswith("Ord::cmp"):
                    rs = ct.get("resolved") or ""
                    if not any(x in rs for x in ("for isize", "for usize", "for &A", "for u", "for i", "Vec<T, A> as std::cmp::Ord",
                                                 "for char", "for [")):
                        bad_ty.append(rs or "unresolved")
                if (ct.get("cn") or "").endswith("partial_cmp"):
                    bad_ty.append("partial_cmp")
        if r["malformed"] or bad_ty:
            ctx.fail(rule, key, cb.where(), "comparator %s is not a lexicographic composition of Ord::cmp on one projection of both "
                     "arguments: %s %s" % (cb.id, "; ".join(r["malformed"]), bad_ty),
                     {"witness": "the order of two hits depends on which other records are present (not a total pre-order)"}, kind="S")
        else:
            ctx.ok(rule, key, cb.where(), "comparator %s = %s (total pre-order by construction)" % (cb.id, r["keys"]),
                   {"keys": r["keys"]}, nontrivial=True, kind="S")
    ctx.floor(rule, "comparators", len(res), 3)
    return res


def scores_iter_in_order(ctx, rule):
    for b in ctx.facts.fns():
        if b.cn.endswith("Scores::iter"):
            e = ctx.sym(b).local(0)
            src, stages = U.chain(e)
            names = [s[0] for s in stages]
            key = "scores-iter"
            p = U.field_path(src)
            if names == ["iter"] and p and p[0] == "arg" and p[1] == 1:
                ctx.ok(rule, key, b.where(), "Scores::iter walks the score array front to back", nontrivial=True)
            else:
                ctx.fail(rule, key, b.where(), "Scores::iter is no longer a plain front-to-back iteration: %s" % names,
                         {"witness": "the rating outranks match quality"})
            return
    ctx.require(rule, "Scores::iter", None)


def empty_query_comparator(ctx, rule, comps):
    for bid, (cb, r) in comps.items():
        if bid.endswith("::top_ixs"):
            key = "top_ixs-order"
            if r["keys"] == [("rating", "Desc"), ("title.chars", "Asc")] and not r["malformed"]:
                ctx.ok(rule, key, cb.where(), "empty-query selection orders by (rating desc, normalised title asc)", nontrivial=True)
            else:
                ctx.fail(rule, key, cb.where(), "empty-query selection orders by %s, expected [(rating, Desc), (title.chars, Asc)]" % r["keys"],
                         {"witness": "with equal ratings at the cut-off a later (or raw-cased) title is listed instead of an earlier one"})
            return
    ctx.require(rule, "top_ixs comparator", None)


# ------------------------------------------------------------------ score vector (R08.a–e, R12.e, R07.b/c)

def score_table(ctx, rule):
    """[(variant, rank, score function id)] from score::score"""
    facts = ctx.facts
    sb = facts.one("search::score::score")
    if not ctx.require(rule, "score::score", sb):
        return None
    st_adt = [a for a in facts.adts.values() if a["kind"] == "enum" and a["id"].endswith("ScoreType")]
    if not ctx.require(rule, "ScoreType", st_adt):
        return None
    discr = {v["name"]: v["discr"] for v in st_adt[0]["variants"]}
    sy = ctx.sym(sb)
    table = []
    for bi, si, st in sb.iter_stmts():
        if st["k"] != "assign" or sb.blocks[bi]["cleanup"] or st["place"]["p"] != ["deref"]:
            continue
        tgt = sy.local(st["place"]["l"])
        if not (tgt[0] == "call" and tgt[1].endswith("IndexMut::index_mut")):
            continue
        var = U.agg_variant(tgt[2][1])
        val = sy.rvalue(st["rv"])
        fn = val[1] if val[0] == "call" else None
        recv = U.field_path(tgt[2][0])
        table.append((var, discr.get(var), fn, where(sb, bi, st), recv))
    # the Index impl really indexes by discriminant
    for b in facts.fns():
        if b.kind == "method" and b.impl_trait == "std::ops::IndexMut" and "Scores" in (b.impl_self or ""):
            e = S.strip_refs(ctx.sym(b).local(0))
            def is_discr(x, depth=0):
                x = S.strip_refs(x)
                if x[0] == "cast" and S.strip_refs(x[2])[0] == "discr":
                    return True
                # a conversion function that itself is `variant as usize` (impl From<ScoreType> for usize)
                if x[0] == "call" and len(x[2]) == 1 and depth < 2:
                    cands = [fb_ for fb_ in facts.fns() if fb_.kind in ("fn", "method") and (fb_.cn == x[1] or
                             (x[1].endswith("From::from") and fb_.impl_trait and fb_.impl_trait.startswith("std::convert::From") and
                              "ScoreType" in (fb_.impl_trait or "") + str(fb_.local_ty(1))))]
                    for fb_ in cands:
                        r_ = S.strip_refs(ctx.sym(fb_).local(0))
                        if r_[0] == "cast" and S.strip_refs(r_[2])[0] == "discr" and S.strip_refs(S.strip_refs(r_[2])[1]) == ("arg", 1):
                            return True
                return False
            ok = e[0] == "index" and is_discr(e[2])
            if ok:
                ctx.ok(rule, "index-by-discriminant", b.where(), "Scores[ScoreType] indexes the array with the variant's discriminant")
            else:
                ctx.fail(rule, "index-by-discriminant", b.where(), "Scores[ScoreType] no longer indexes by discriminant: %s" % S.show(e, b))
    return table, discr, st_adt[0]


ROLE_FNS = {"chars": "score_chars_up", "words": "score_words_up", "tails": "score_tails_down", "trans": "score_trans_down",
            "fin": "score_fin_up", "offset": "score_offset_down", "rating": "score_rating_up",
            "word_len": "score_word_len_down", "char_len": "score_char_len_down"}


def priorities(ctx, rule_a, rule_e12=None, match_before_rating=True):
    r = score_table(ctx, rule_a)
    if r is None:
        return None
    table, discr, adt = r
    ctx.floor(rule_a, "score_components_written", len(table), 7)
    by_fn = {}
    ranks = {}
    for (var, rank, fn, wh, recv) in table:
        short = (fn or "?").rsplit("::", 1)[-1]
        by_fn.setdefault(short, []).append((var, rank, wh))
        ranks.setdefault(rank, []).append((var, short, wh))
    n_variants = len(adt["variants"])
    # array length
    scores_len = None
    for a in ctx.facts.adts.values():
        if a["id"].endswith("score::Scores"):
            tyname = a["variants"][0]["fields"][0]["ty"]
            t = ctx.facts.ty(tyname)
            scores_len = t.get("len")
            if scores_len is None and ";" in tyname:
                n = tyname.rsplit(";", 1)[1].strip(" ]")
                if n.isdigit():
                    scores_len = int(n)
                else:
                    for cb in ctx.facts.bodies.values():
                        if cb.kind == "const" and (cb.id == n or cb.id.endswith("::" + n)):
                            v = ctx.sym(cb).local(0)
                            if U.is_const(v):
                                scores_len = S.const_value(v)
    key = "ranks-unique"
    dup = {r: v for r, v in ranks.items() if len(v) > 1}
    if not dup and all(r is not None for r in ranks):
        ctx.ok(rule_a, key, "-", "every score slot is written exactly once (%d slots)" % len(ranks), nontrivial=True)
    else:
        ctx.fail(rule_a, key, "-", "score slots written more than once / by unknown variant: %s" % dup,
                 {"witness": "one component overwrites another; a priority rule silently disappears"})
    key = "ranks-in-range"
    if scores_len is not None and n_variants == scores_len and all(v["discr"] < scores_len for v in adt["variants"]):
        ctx.ok(rule_a, key, "-", "all %d ScoreType discriminants index inside the %d-slot array" % (n_variants, scores_len))
    else:
        ctx.fail(rule_a, key, "-", "ScoreType has %d variants but the score array has %s slots" % (n_variants, scores_len),
                 {"witness": "index out of bounds in score() / a component is never compared"})
    def rank_of(role):
        v = by_fn.get(ROLE_FNS[role])
        return v[0][1] if v and len(v) == 1 else None
    rr = rank_of("rating")
    if rr is None:
        ctx.fail(rule_a, "rating-component", "-", "the rating is not a component of the compared score vector",
                 {"witness": "identical titles with different ratings come out in buffer order"})
    else:
        ctx.ok(rule_a, "rating-component", by_fn[ROLE_FNS["rating"]][0][2], "the rating is score component %d" % rr)
    for role in (("chars", "words", "tails", "trans", "offset") if match_before_rating else ()):
        r0 = rank_of(role)
        key = "priority:%s<rating" % role
        if r0 is not None and rr is not None and r0 < rr:
            ctx.ok(rule_a, key, by_fn[ROLE_FNS[role]][0][2], "%s (slot %d) is compared before the rating (slot %d)" % (role, r0, rr),
                   nontrivial=True)
        else:
            ctx.fail(rule_a, key, "-", "match-quality component `%s` (slot %s) is not compared before the rating (slot %s)" % (role, r0, rr),
                     {"witness": "a large enough rating outranks a better match"})
    if rule_e12:
        for role in ("word_len", "char_len"):
            r0 = rank_of(role)
            key = "priority:rating<%s" % role
            if r0 is not None and rr is not None and rr < r0:
                ctx.ok(rule_e12, key, by_fn[ROLE_FNS[role]][0][2], "the rating (slot %d) is compared before %s (slot %d)" % (rr, role, r0),
                       nontrivial=True)
            else:
                ctx.fail(rule_e12, key, "-", "`%s` (slot %s) is compared before the rating (slot %s)" % (role, r0, rr),
                         {"witness": "empty query on {('a b', 5), ('c', 1)} lists 'c' first"})
    return by_fn


def directions(ctx, rule, comps, roles=None):
    """compare_hits is Desc; score functions are negated / un-negated as the statement requires"""
    sb = _search_body(ctx)
    for bid, (cb, r) in comps.items():
        if cb.id.endswith("compare_hits"):
            key = "compare_hits-desc"
            if len(r["keys"]) == 1 and r["keys"][0][1] == "Desc" and r["keys"][0][0].startswith("scores"):
                ctx.ok(rule, key, cb.where(), "hits are compared component by component, larger score first", nontrivial=True)
            else:
                ctx.fail(rule, key, cb.where(), "compare_hits keys are %s, expected the score vector descending" % r["keys"],
                         {"witness": "worst match first"})
    want_neg = {"chars": False, "words": False, "rating": False, "tails": True, "trans": True, "offset": True}
    facts = ctx.facts
    for role, neg in sorted(want_neg.items()):
        if roles is not None and role not in roles:
            continue
        fb = facts.one("search::score::" + ROLE_FNS[role])
        key = "sign:%s" % role
        if fb is None:
            ctx.fail(rule, key, "-", "score function %s not found (fail closed)" % ROLE_FNS[role])
            continue
        alts = []
        for a0 in U.flatten_phi(ctx.sym(fb).local(0)):
            a1 = S.strip_refs(a0)
            if a1[0] == "call" and a1[1].endswith(("Option::map_or", "Option::map_or_else")) and len(a1[2]) == 3:
                # opt.map_or(default, |x| value): the alternatives are the default and what the closure returns
                mb_ = U.closure_body(ctx, a1[2][2])
                alts.append(a1[2][1])
                alts.extend(U.flatten_phi(ctx.sym(mb_).local(0)) if mb_ is not None else [a1])
            else:
                alts.append(a0)
        signs = set()
        for a in alts:
            x = a
            while x[0] == "cast":
                x = x[2]
            if U.is_const(x):
                continue
            signs.add(x[0] == "unop" and x[1] == "Neg")
        if signs == {neg}:
            ctx.ok(rule, key, fb.where(), "%s is returned %s" % (ROLE_FNS[role], "negated" if neg else "un-negated"), nontrivial=True)
        else:
            ctx.fail(rule, key, fb.where(), "%s is returned %s but the documented priority needs it %s" %
                     (ROLE_FNS[role], "negated" if True in signs else "un-negated", "negated" if neg else "un-negated"),
                     {"witness": {"tails": "title 'u' no longer outranks 'u' with trailing letters",
                                  "trans": "'u v x' no longer outranks 'u x v'", "offset": "'u x' no longer outranks 'x u'",
                                  "chars": "an exact word no longer outranks the same word with a typo",
                                  "words": "a title with both query words no longer outranks one with a single word",
                                  "rating": "among identical titles the lower rating comes first"}[role]})
    # earlier-ranked of word_len / char_len is negated (fewer words first at equal rating)
    for role in ("word_len", "char_len"):
        fb = facts.one("search::score::" + ROLE_FNS[role])
        if fb is None:
            continue
        e = ctx.sym(fb).local(0)
        key = "sign:%s" % role
        if e[0] == "unop" and e[1] == "Neg":
            ctx.ok(rule, key, fb.where(), "%s is negated (shorter titles first at equal rating)" % ROLE_FNS[role])
        else:
            ctx.fail(rule, key, fb.where(), "%s is not negated: at equal rating 'u x' outranks 'u'" % ROLE_FNS[role],
                     {"witness": "titles 'u' and 'u x' with equal rating, query 'u'"})


def rating_confinement(ctx, rule, injective=True, parts=("readers", "unscaled", "width")):
    facts = ctx.facts
    roots = [b.id for b in facts.fns() if b.id.endswith("search::score::score")]
    reach = ctx.cg.reachable(roots)
    readers = []
    for bid in sorted(reach):
        b = facts.bodies[bid]
        sy = ctx.sym(b)
        for bi, si, st in b.iter_stmts():
            if st["k"] != "assign" or b.blocks[bi]["cleanup"]:
                continue
            rv = st["rv"]
            ops = []
            if rv["k"] in ("use", "cast"):
                ops = [rv.get("op")]
            elif rv["k"] == "unop":
                ops = [rv.get("a")]
            elif rv["k"] == "binop":
                ops = [rv["a"], rv["b"]]
            elif rv["k"] == "ref":
                ops = [{"copy": rv["place"]}]
            for o in ops:
                p = (o or {}).get("copy") or (o or {}).get("move")
                if not p:
                    continue
                for pr in p["p"]:
                    if isinstance(pr, dict) and pr.get("name") == "rating" and (pr.get("owner_did") or "").endswith(("::Hit", "::Record")):
                        readers.append((b, bi, st))
    by_body = sorted(set(b.id for b, _, _ in readers))
    key = "rating-readers"
    ok = all(x.endswith("score_rating_up") for x in by_body) and by_body
    if "readers" not in parts:
        pass
    elif ok:
        ctx.ok(rule, key, "-", "on the scoring path the rating is read only by score_rating_up", nontrivial=True)
    else:
        extra = [x for x in by_body if not x.endswith("score_rating_up")]
        ctx.fail(rule, key, facts.bodies[extra[0]].where() if extra else "-",
                 "the rating is read on the scoring path outside score_rating_up: %s" % extra,
                 {"witness": "a rating large enough beats a better match"})
    # score_rating_up returns the rating unscaled (cast only)
    fb = facts.one("search::score::score_rating_up")
    if fb is not None and injective:
        e = ctx.sym(fb).local(0)
        x = e
        while x[0] == "cast":
            x = x[2]
        p = U.field_path(x)
        key = "rating-unscaled"
        narrow = None
        y = e
        while y[0] == "cast":
            if y[3] in ("u8", "i8", "u16", "i16", "u32", "i32"):
                narrow = y[3]
            y = y[2]
        fl = _float_cast_in(e)
        if p and p[2] == ["rating"] and fl and ("width" in parts or "unscaled" in parts):
            ctx.fail(rule, key, fb.where(), "score_rating_up routes the rating through `%s`: distinct ratings above 2^24 (f32) / 2^53 (f64) "
                     "get the same score, so their order falls back to insertion order" % fl,
                     {"witness": "ratings 16777216 and 16777217 on otherwise equal hits: the order depends on which was added first"})
        elif p and p[2] == ["rating"] and narrow and "width" in parts:
            ctx.fail(rule, key, fb.where(), "score_rating_up narrows the rating to `%s`: ratings that differ by a multiple of 2^%s tie or "
                     "change order, and the empty-query pre-selection (which compares the full-width rating) disagrees with the final order"
                     % (narrow, narrow[1:]), {"witness": "ratings 3_000_000_000 and 20 with limit 1 and the empty query"})
        elif p and p[2] == ["rating"]:
            ctx.ok(rule, key, fb.where(), "score_rating_up is the rating itself")
        elif "unscaled" not in parts:
            pass
        else:
            ctx.fail(rule, key, fb.where(), "score_rating_up is not the plain rating: %s" % S.show(e, fb),
                     {"witness": "ratings that differ only in low bits tie"})


def function_classes(ctx, rule):
    """R08.d: Word::is_function is true exactly for articles, prepositions, conjunctions and particles — decided as a
    decision table over the part of speech by abstract interpretation (A13)"""
    from .. import absint as AI
    facts = ctx.facts
    fb = None
    for b in facts.fns():
        if b.cn.endswith("Word::is_function"):
            fb = b
    if not ctx.require(rule, "Word::is_function", fb):
        return
    pos_adt = None
    for a in facts.adts.values():
        if a["id"].endswith("pos::PartOfSpeech"):
            pos_adt = a
    if not ctx.require(rule, "PartOfSpeech", pos_adt):
        return
    want = {"Article", "Preposition", "Conjunction", "Particle"}
    true_set, undecided = set(), []
    cases = [(v["name"], AI.some(("enum", pos_adt["id"], v["name"], ()))) for v in pos_adt["variants"]] + [("(none)", AI.NONE)]
    for name, val in cases:
        def oracle(t, args, body, val=val):
            if (t.get("cn") or "").endswith("Word::pos"):
                return [val]
            return None
        try:
            res = AI.AbsInt(ctx, oracle).run_body(fb, [("sym", "self")])
        except AI.Limit:
            res = {AI.UNKNOWN}
        if res == {AI.const(True)}:
            true_set.add(name)
        elif res != {AI.const(False)}:
            undecided.append("%s -> %s" % (name, sorted(AI.show(x) for x in res)))
    key = "function-classes"
    if true_set == want and not undecided:
        ctx.ok(rule, key, fb.where(), "function words are exactly %s (decision table over %d parts of speech and None)"
               % (sorted(want), len(pos_adt["variants"])), nontrivial=True)
    else:
        ctx.fail(rule, key, fb.where(), "is_function is true for %s%s, expected %s" %
                 (sorted(true_set), (" and undecided for " + "; ".join(undecided[:3])) if undecided else "", sorted(want)),
                 {"witness": "German query 'mal': the title 'mal' outranks 'malen'"})


def words_exclude_function(ctx, rule):
    fb = ctx.facts.one("search::score::score_words_up")
    if not ctx.require(rule, "score_words_up", fb):
        return
    e = ctx.sym(fb).local(0)
    x = e
    while x[0] == "cast":
        x = x[2]
    src, stages = U.chain(x)
    names = [s[0] for s in stages]
    key = "words-exclude-function"
    ok = False
    fl = [s for s in stages if s[0] == "filter"]
    p = U.field_path(src)
    if fl and names[-1] == "count" and p and p[2] == ["rmatches"]:
        cb = U.closure_body(ctx, fl[0][1][0])
        if cb is not None:
            ce = ctx.sym(cb).local(0)
            ok = ce[0] == "unop" and ce[1] == "Not" and S.strip_refs(ce[2])[0] == "field" and S.strip_refs(ce[2])[2] == "func"
    if ok:
        ctx.ok(rule, key, fb.where(), "matched function words are not counted as matched words", nontrivial=True)
    else:
        ctx.fail(rule, key, fb.where(), "score_words_up no longer counts only matches with !func: %s" % names,
                 {"witness": "query 'f' (a function word): the title 'f' outranks a title with a content word starting with f"})


def insertion_position_unread(ctx, rule):
    """R07.b: Record.ix / Store.next_ix are not read on the ranking path; Hit carries no position"""
    facts = ctx.facts
    roots = [b.id for b in facts.fns() if b.id.endswith(("search::score::score", "search::filter::hit_matches",
                                                          "search::highlight::highlight", "search::sort::compare_hits",
                                                          "search::hit::Hit::<'a>::from_record"))]
    ctx.floor(rule, "ranking_path_roots", len(roots), 5)
    reach = ctx.cg.reachable(roots)
    bad = []
    for bid in sorted(reach):
        b = facts.bodies[bid]
        for bi, si, st in b.iter_stmts():
            txt = st.get("dbg", "")
            if st["k"] != "assign":
                continue
            def scan(o):
                p = (o or {}).get("copy") or (o or {}).get("move")
                if p:
                    for pr in p["p"]:
                        if isinstance(pr, dict) and pr.get("name") in ("ix", "next_ix") and \
                                (pr.get("owner_did") or "").endswith(("::Record", "::Store")):
                            bad.append((b, bi, st))
            rv = st["rv"]
            for k in ("op", "a", "b"):
                if isinstance(rv.get(k), dict):
                    scan(rv[k])
            if rv["k"] == "ref":
                scan({"copy": rv["place"]})
            for o in rv.get("ops", []):
                scan(o)
    key = "position-unread"
    if not bad:
        ctx.ok(rule, key, "-", "no body on the ranking path (%d bodies) reads Record.ix or Store.next_ix" % len(reach),
               nontrivial=True)
    else:
        b, bi, st = bad[0]
        ctx.fail(rule, key, where(b, bi, st), "the insertion position is read on the ranking path in %s" % b.id,
                 {"witness": "two records swap places in the hit list when they are inserted in the other order"})
    # the sort closure of prepare's selection compares counts only (position is the enumerate index, field 0)
    return reach


def hit_filter(ctx, rule):
    """R09.c: empty query => pass; otherwise a hit needs at least one record match"""
    fb = ctx.facts.one("search::filter::hit_matches")
    if not ctx.require(rule, "hit_matches", fb):
        return
    sy = ctx.sym(fb)
    cfg = ctx.cfg(fb)
    rets = {True: [], False: []}
    for bi, si, st in fb.iter_stmts():
        if st["k"] == "assign" and st["place"]["l"] == 0 and not st["place"]["p"]:
            e = sy.rvalue(st["rv"])
            if U.is_const(e) and isinstance(S.const_value(e), bool):
                rets[S.const_value(e)].append(bi)
            else:
                rets.setdefault("other", []).append(bi)
    # is_empty switch
    empty_sw = None
    nomatch_sw = None
    for bi, t in fb.iter_terms():
        bt = U.bool_switch_targets(t)
        if not bt:
            continue
        e = sy.operand(t["discr"])
        if e[0] == "call" and e[1].endswith("Text::is_empty") and S.strip_refs(e[2][0]) == ("arg", 1):
            empty_sw = (bi, bt, True)
        elif U.len_test(e) is not None:
            lt_x, lt_f = U.len_test(e)
            p = U.field_path(lt_x)
            if p and p[0] == "arg" and p[1] == 2 and p[2] == ["rmatches"]:
                if lt_f(0) != lt_f(1) and lt_f(1) == lt_f(7):
                    if nomatch_sw is None:
                        zero_side = bt[1] if lt_f(0) else bt[0]
                        nomatch_sw = (bi, zero_side)
    key = "empty-query-passes"
    if empty_sw and empty_sw[0] == 0 or (empty_sw and cfg.dominates(empty_sw[0], min(rets[True] + rets[False] + [10 ** 6]))):
        tb = empty_sw[1][1]
        if any(U.branch_reaches(cfg, empty_sw[0], tb, {r}) for r in rets[True]) and \
                not any(U.branch_reaches(cfg, empty_sw[0], tb, {r}) for r in rets[False]):
            ctx.ok(rule, key, where(fb, empty_sw[0]), "an empty query passes every record, tested before anything else", nontrivial=True)
        else:
            ctx.fail(rule, key, where(fb, empty_sw[0]), "for an empty query hit_matches does not always return true",
                     {"witness": "an empty query returns nothing"})
    else:
        ctx.fail(rule, key, fb.where(), "hit_matches no longer tests `query.is_empty()` first (fail closed)",
                 {"witness": "an empty query returns nothing"})
    key = "no-match-no-hit"
    if nomatch_sw:
        bi, zero_side = nomatch_sw
        reaches_true = any(U.branch_reaches(cfg, bi, zero_side, {r}) for r in rets[True])
        reaches_false = any(U.branch_reaches(cfg, bi, zero_side, {r}) for r in rets[False])
        # the test is made on every path on which the query is not empty (whatever the shape of the rest)
        start = empty_sw[1][0] if empty_sw else 0
        others_dominated = cfg.every_path_passes(start, [bi])
        if reaches_false and not reaches_true and others_dominated:
            ctx.ok(rule, key, where(fb, bi), "a record without any word match is rejected before any `true` result", nontrivial=True)
        else:
            ctx.fail(rule, key, where(fb, bi), "a record without any word match can still be returned",
                     {"witness": "hits without any highlighted span"})
    else:
        ctx.fail(rule, key, fb.where(), "hit_matches no longer rejects records with `rmatches.len() == 0`",
                 {"witness": "every candidate of the index becomes a hit, with no highlighted span"})


def hit_from_record(ctx, rule):
    """R02.b part: Hit { id: record.id, title: record.title.to_ref(), rating: record.rating }"""
    for b in ctx.facts.fns():
        if b.cn.endswith("Hit::from_record"):
            e = ctx.sym(b).local(0)
            key = "hit-fields"
            ok = False
            if e[0] == "agg":
                d = dict(zip(e[4], e[3]))
                def fld(x):
                    p = U.field_path(x)
                    return p[2] if p and p[0] == "arg" and p[1] == 1 else None
                t = d.get("title")
                ok = fld(d.get("id")) == ["id"] and fld(d.get("rating")) == ["rating"] and t is not None and \
                    t[0] == "call" and t[1].endswith("::to_ref") and fld(t[2][0]) == ["title"]
            if ok:
                ctx.ok(rule, key, b.where(), "a hit copies id, title and rating from the same record", nontrivial=True)
            else:
                ctx.fail(rule, key, b.where(), "Hit::from_record no longer copies (id, title, rating) field by field: %s" % S.show(e, b)[:160],
                         {"witness": "hits carry the rating as id"})
            return
    ctx.require(rule, "Hit::from_record", None)


def component_formulas(ctx, rule):
    """R08.g: tails = -(sum(word_len - match_len)); trans = gaps between consecutive matches, zero only for < 2 matches;
    offset = -(min offset); fin reads the last match"""
    facts = ctx.facts
    # tails
    fb = facts.one("search::score::score_tails_down")
    if fb is not None:
        e = ctx.sym(fb).local(0)
        x = e[2] if e[0] == "unop" else e
        while x[0] == "cast":
            x = x[2]
        src, stages = U.chain(x)
        ok = False
        ms = [s for s in stages if s[0] == "map"]
        p = U.field_path(src)
        if ms and stages[-1][0] == "sum" and p and p[2] == ["rmatches"]:
            cb = U.closure_body(ctx, ms[0][1][0])
            if cb is not None:
                ce = ctx.sym(cb).local(0)
                ok = ce[0] == "binop" and ce[1] == "Sub" and bool(U.expr_calls(ce[2], "WordMatch::word_len")) and \
                    bool(U.expr_calls(ce[3], "WordMatch::match_len"))
        key = "tails-formula"
        if ok:
            ctx.ok(rule, key, fb.where(), "tails = -(sum over record matches of word_len - match_len)", nontrivial=True)
        else:
            ctx.fail(rule, key, fb.where(), "score_tails_down is no longer -(sum(word_len - match_len)) over the record matches",
                     {"witness": "title 'u' does not outrank 'u' with trailing letters"})
    # trans: early return 0 only when there are fewer than 2 matches
    fb = facts.one("search::score::score_trans_down")
    if fb is not None:
        sy = ctx.sym(fb)
        cfg = ctx.cfg(fb)
        key = "trans-early-exit"
        bad = None
        found_guard = False
        for bi, t in fb.iter_terms():
            bt = U.bool_switch_targets(t)
            if not bt:
                continue
            e = sy.operand(t["discr"])
            n_of = None
            if e[0] == "call" and e[1].endswith("is_empty"):
                n_of = lambda n: n == 0
            elif e[0] == "binop" and e[1] in U.CMP_OPS and U.is_const(e[3]) and e[2][0] == "call" and e[2][1].endswith("::len"):
                c = S.const_value(e[3])
                op = e[1]
                n_of = lambda n, op=op, c=c: U.cmp_eval(op, n, c)
            if n_of is None:
                continue
            p = None
            inner = e[2][0] if e[0] == "call" else e[2][2][0]
            p = U.field_path(inner)
            if not (p and p[2] == ["rmatches"]):
                continue
            # does the true branch return a constant 0 without looping?
            tb = bt[1]
            re = U.arm_ret_expr(ctx, fb, tb)
            if re is not None and U.is_const(re) and S.const_value(re) == 0:
                found_guard = True
                if any(n_of(n) for n in (2, 3, 5)):
                    bad = (bi, [n for n in (2, 3, 5) if n_of(n)])
        if bad:
            ctx.fail(rule, key, where(fb, bad[0]), "score_trans_down returns 0 early for %s matched words: the gap penalty is skipped"
                     % bad[1], {"witness": "'u v x' no longer outranks 'u x v' for the query 'u v'"})
        elif found_guard:
            ctx.ok(rule, key, fb.where(), "the gap penalty is skipped only for fewer than two matches", nontrivial=True)
        else:
            ctx.ok(rule, key, fb.where(), "no early exit in score_trans_down")
        # the loop pairs consecutive matches: zip(rmatches[..len-1], rmatches[1..])
        zips = [t for bi, t in fb.calls() if U.callee_is(t, "Iterator::zip")]
        key = "trans-consecutive"
        def over_rmatches(t_):
            fs = set(str(x[2]) for a_ in t_["args"] for x in S.walk(sy.operand(a_)) if isinstance(x, tuple) and x and x[0] == "field")
            return "rmatches" in fs and "qmatches" not in fs
        wins = [t for bi, t in fb.calls() if U.callee_is(t, "<impl [T]>::windows") and len(t["args"]) > 1
                and S.const_value(S.strip_refs(sy.operand(t["args"][1]))) == 2 and over_rmatches(t)]
        zips = [t for t in zips if over_rmatches(t)]
        if wins:
            ctx.ok(rule, key, fb.where(), "gaps are computed over consecutive match pairs (windows(2))")
        elif zips:
            ctx.ok(rule, key, fb.where(), "gaps are computed over consecutive match pairs (zip of the shifted slices)")
        else:
            ctx.fail(rule, key, fb.where(), "score_trans_down no longer pairs consecutive matches")
    fb = facts.one("search::score::score_offset_down")
    if fb is not None:
        e = ctx.sym(fb).local(0)
        x = e[2] if e[0] == "unop" else e
        while x[0] == "cast":
            x = x[2]
        key = "offset-formula"
        alt_ok = False
        e1 = S.strip_refs(e)
        if e1[0] == "call" and e1[1].endswith("Option::map_or") and len(e1[2]) == 3:
            # rmatches.iter().min_by_key(|m| m.offset).map_or(0, |m| -(m.offset as isize))
            src_, st_ = U.chain(e1[2][0])
            p_ = U.field_path(src_)
            kb = U.closure_body(ctx, st_[-1][1][0]) if st_ and st_[-1][0] == "min_by_key" and st_[-1][1] else None
            vb = U.closure_body(ctx, e1[2][2])
            def off_of_arg(z):
                z = S.strip_refs(z)
                while z[0] in ("cast",) or (z[0] == "unop" and z[1] == "Neg"):
                    z = S.strip_refs(z[2])
                return z[0] == "field" and z[2] == "offset" and S.strip_refs(z[1]) in (("arg", 2), ("deref", ("arg", 2)))
            if kb is not None and vb is not None and p_ and p_[2] == ["rmatches"] and \
                    all(n_[0] in ("iter", "into_iter", "min_by_key") for n_ in st_):
                alt_ok = off_of_arg(ctx.sym(kb).local(0)) and off_of_arg(ctx.sym(vb).local(0))
        ok = x[0] == "call" and x[1].endswith("Option::unwrap_or") and bool(U.expr_calls(x, "Iterator::min"))
        if ok:
            src, stages = U.chain(x[2][0])
            ms = [s for s in stages if s[0] == "map"]
            cb = U.closure_body(ctx, ms[0][1][0]) if ms else None
            ce = S.strip_refs(ctx.sym(cb).local(0)) if cb is not None else None
            ok = ce is not None and ce[0] == "field" and ce[2] == "offset"
        if ok or alt_ok:
            ctx.ok(rule, key, fb.where(), "offset = -(smallest matched word position)", nontrivial=True)
        else:
            ctx.fail(rule, key, fb.where(), "score_offset_down is no longer -(min over matches of the word offset)",
                     {"witness": "'u x' no longer outranks 'x u' for the query 'u'"})


def _float_cast_in(e):
    """an integer value routed through a floating-point type (`x as f32 as isize`): no longer injective above 2^24 / 2^53"""
    found = None
    for y in S.walk(e):
        if isinstance(y, tuple) and y and y[0] == "cast" and (str(y[1]) in ("IntToFloat", "FloatToInt", "FloatToFloat") or
                                                             str(y[3]) in ("f32", "f64")):
            if str(y[3]) in ("f32", "f64"):
                return str(y[3])
            found = found or "a float"
    return found


def rating_monotone(ctx, rule):
    """C08 needs: for ratings in [0, 2^31) a higher rating gives a strictly higher component.  Accepted shapes of
    score_rating_up: the rating itself (cast), or min(rating, C) with C >= 2^31 - 1."""
    fb = ctx.facts.one("search::score::score_rating_up")
    if not ctx.require(rule, "score_rating_up", fb):
        return
    e = ctx.sym(fb).local(0)
    x = e
    while x[0] == "cast":
        x = x[2]
    key = "rating-monotone"
    ok = False
    p = U.field_path(x)
    if _float_cast_in(e):
        ctx.fail(rule, key, fb.where(), "score_rating_up routes the rating through a floating-point type: distinct ratings above 2^24 "
                 "(f32) / 2^53 (f64) get the same score", {"witness": "identical titles with ratings 16777216 and 16777217 tie"})
        return
    if p and p[2] == ["rating"]:
        ok = True
    elif x[0] == "call" and x[1].endswith("cmp::min"):
        a, b = x[2]
        def unc(z):
            while z[0] == "cast":
                z = z[2]
            return z
        ca = unc(a) if U.is_const(unc(a)) else (unc(b) if U.is_const(unc(b)) else None)
        other = b if (ca is not None and U.is_const(unc(a))) else a
        po = U.field_path(other)
        if ca is not None and po and po[2] == ["rating"] and S.const_value(ca) is not None and S.const_value(ca) >= 2 ** 31 - 1:
            ok = True
    if ok:
        ctx.ok(rule, key, fb.where(), "the rating component is strictly increasing in the rating on [0, 2^31)", nontrivial=True)
    else:
        ctx.fail(rule, key, fb.where(), "the rating component is not the rating itself (or a clamp above 2^31-1): %s" % S.show(e, fb),
                 {"witness": "among identical titles a higher rating does not come first"})


def matcher_reads_normalised_text(ctx, rule):
    """R11.i: on the matching path (word_match, text_match, the gates, the distance, the index) the text is read only through the
    normalised views (`chars`, `classes`); the original `source` is read by the title builder alone"""
    facts = ctx.facts
    roots = [b.id for b in facts.fns() if b.cn.endswith(("matching::text::text_match", "matching::word::word_match",
                                                          "TrigramIndex::collect_grams", "search::filter::hit_matches"))]
    if not ctx.floor(rule, "matching_roots", len(roots), 3):
        return
    reach = ctx.cg.reachable(roots)
    bad = []
    for bid in sorted(reach):
        b = facts.bodies[bid]
        if b.cn.endswith(("WordView::new", "WordView::join", "WordShape::to_view", "Text::to_ref", "WordView::to_shape")) or b.impl_trait:
            continue
        sy = ctx.sym(b)
        for bi, t in b.calls():
            if (t.get("rcn") or "").endswith("WordView::source"):
                bad.append((b, bi, t, "WordView::source()"))
        for bi, si, st in b.iter_stmts():
            if st["k"] != "assign" or b.blocks[bi]["cleanup"]:
                continue
            rv = st["rv"]
            ops = [rv.get(k) for k in ("op", "a", "b") if isinstance(rv.get(k), dict)]
            if rv["k"] == "ref":
                ops.append({"copy": rv["place"]})
            for o in ops:
                p = o.get("copy") or o.get("move")
                if p:
                    for pr in p["p"]:
                        if isinstance(pr, dict) and pr.get("name") == "source" and (pr.get("owner_did") or "").endswith(("::Text", "::WordView")):
                            bad.append((b, bi, st, "field `source`"))
    key = "no-source-on-matching-path"
    if not bad:
        ctx.ok(rule, key, "-", "no body on the matching path (%d bodies) reads the original text" % len(reach), nontrivial=True)
    else:
        b, bi, node, what = bad[0]
        ctx.fail(rule, key, where(b, bi, node), "%s reads %s on the matching path: case and accents of the query/title leak into "
                 "the comparison" % (b.id, what), {"witness": "query 'METAL' (or 'été') no longer matches 'metal' ('ete')"})


def trans_gap_penalty(ctx, rule):
    """R08.g (value part, region-wise A11): for a pair of consecutive matches (prev, next) score_trans_down adds nothing
    when next.offset = prev.offset + 1 and at least 1 when next.offset >= prev.offset + 2 — the strict preference of
    'u v x' over 'u x v'.  prev / next are told apart by their position in the pair (tuple field or window index 0 / 1); the
    pair source must list the earlier match first."""
    from .. import regions as RG_
    from .. import bounds as B_
    fb = ctx.facts.one("search::score::score_trans_down")
    if not ctx.require(rule, "score_trans_down", fb):
        return
    key = "trans-gap-penalty"
    # the body that handles one pair: the function itself (loop form) or the closure mapped over the pairs
    cands = [fb] + U.nested_closures(ctx, fb)
    verdicts = []
    for body in cands:
        sy = ctx.sym(body)
        cfg = ctx.cfg(body)
        offs = {}
        for bi, bl in enumerate(body.blocks):
            if bl["cleanup"]:
                continue
            exprs = [sy.rvalue(st["rv"]) for st in bl["stmts"] if st["k"] == "assign"]
            if bl["term"] and bl["term"]["k"] == "switch":
                exprs.append(sy.operand(bl["term"]["discr"]))
            for e in exprs:
                for x in S.walk(e):
                    if isinstance(x, tuple) and x and x[0] == "field" and str(x[2]) == "offset":
                        base = S.strip_sites(S.strip_refs(x[1]))
                        pos = None
                        if base[0] == "field" and str(base[2]) in ("0", "1"):
                            pos = int(base[2])
                        elif base[0] == "cidx" and base[2] in (0, 1) and not base[3]:
                            pos = base[2]
                        elif base[0] == "index" and U.is_const(S.strip_refs(base[2])) and S.const_value(S.strip_refs(base[2])) in (0, 1):
                            pos = S.const_value(S.strip_refs(base[2]))
                        elif base[0] == "call" and base[1].endswith("Index::index") and len(base[2]) == 2 and \
                                U.is_const(S.strip_refs(base[2][1])) and S.const_value(S.strip_refs(base[2][1])) in (0, 1):
                            pos = S.const_value(S.strip_refs(base[2][1]))
                        if pos is not None:
                            offs.setdefault(pos, set()).add(S.strip_sites(S.strip_refs(x)))
        if set(offs) != {0, 1} or any(len(v) != 1 for v in offs.values()):
            continue
        P = B_.lin(list(offs[0])[0])
        N = B_.lin(list(offs[1])[0])
        regions = [("adjacent", [B_.ge(N, P.plus(1), "next = prev+1"), B_.ge(P.plus(1), N, "next = prev+1")], "zero"),
                   ("gap", [B_.ge(N, P.plus(2), "next >= prev+2")], "positive")]
        problems = []
        n = 0
        if body.kind == "closure":
            rets = [bi for bi, bl in enumerate(body.blocks) if bl["term"] and bl["term"]["k"] == "return" and not bl["cleanup"]]
            for name, fs, want in regions:
                reg = RG_.Region(name, fs)
                vals, und = RG_.values_at(ctx, body, reg, rets[0], sy.local(0))
                for v in vals or [None]:
                    n += 1
                    if v is None:
                        problems.append("%s: no value" % name)
                        continue
                    lv = B_.lin(v)
                    if want == "zero" and (B_.prove(lv, fs) is None or B_.prove(B_.Lin() - lv, fs) is None):
                        problems.append("adjacent matches in order are charged %s" % S.show(v, body)[:60])
                    if want == "positive" and B_.prove(lv.plus(-1), fs + [B_.Fact(B_.Lin({k: 1}), "unsigned") for k in lv.co] * 2) is None:
                        problems.append("a gap between consecutive matches is not charged (value %s)" % S.show(v, body)[:60])
        else:
            hs = sorted(cfg.headers())
            cvars = [l for l, ds in body.defs().items() if len(ds) > 1 and body.local_ty(l) in ("usize", "isize")
                     and any(B_.lin(sy.rvalue(nd["rv"])).co.get(("var", l)) == 1 and k == "assign" for k, _, _, nd in ds)]
            if len(hs) != 1 or len(cvars) != 1:
                continue
            h, cv = hs[0], cvars[0]
            from ..cfg import term_succs
            latches = [bi for bi in range(len(body.blocks)) if not body.blocks[bi]["cleanup"] and bi != h and
                       body.blocks[bi]["term"] and h in term_succs(body.blocks[bi]["term"]) and cfg.in_natural_loop(bi, h)]
            for name, fs, want in regions:
                reg = RG_.Region(name, fs)
                paths, und = RG_.feasible_paths(ctx, body, reg, latches)
                for p in paths or []:
                    if h not in p:
                        continue
                    inloop = p[p.index(h):]
                    tot = B_.Lin()
                    for kind, dbi, dsi, nd in body.defs().get(cv, []):
                        if kind == "assign" and dbi in inloop:
                            v = RG_.resolve_on_path(body, sy, sy.rvalue(nd["rv"]), p)
                            tot = tot + (B_.lin(S.strip_sites(v)) - B_.Lin({("var", cv): 1}))
                    n += 1
                    if want == "zero" and (B_.prove(tot, fs) is None or B_.prove(B_.Lin() - tot, fs) is None):
                        problems.append("adjacent matches in order are charged")
                    if want == "positive" and B_.prove(tot.plus(-1), fs + [B_.Fact(B_.Lin({k: 1}), "unsigned") for k in tot.co] * 2) is None:
                        problems.append("a gap between consecutive matches is not charged on some path")
                if not paths:
                    problems.append("%s: the loop body is not reached" % name)
        verdicts.append((body, n, problems))
    # the pair source lists the earlier match first
    sy = ctx.sym(fb)
    order_problem = None
    for bi, t in fb.calls():
        if U.callee_is(t, "Iterator::zip") and len(t["args"]) == 2:
            def start_of(a):
                for x in S.walk(sy.operand(a)):
                    if isinstance(x, tuple) and x and x[0] == "agg" and x[2].endswith("RangeTo::RangeTo"):
                        return 0
                    if isinstance(x, tuple) and x and x[0] == "agg" and x[2].endswith(("RangeFrom::RangeFrom", "Range::Range")) and x[3] \
                            and U.is_const(x[3][0]):
                        return S.const_value(x[3][0])
                return None
            for a_ in t["args"]:
                _, st_ = U.chain(sy.operand(a_))
                extra = [x[0] for x in st_ if x[0] not in ("iter", "into_iter", "by_ref", "copied", "cloned")]
                if extra:
                    order_problem = "the zipped match sequences are restricted by `%s`: consecutive matches are no longer paired" % extra[0]
            s0, s1 = start_of(t["args"][0]), start_of(t["args"][1])
            if s0 is not None and s1 is not None and not (s0 == 0 and s1 == 1):
                order_problem = "the zipped slices start at %s and %s (expected 0 and 1): prev / next are swapped or shifted" % (s0, s1)
    if not verdicts:
        ctx.fail(rule, key, fb.where(), "score_trans_down: the per-pair penalty (offsets of a (prev, next) pair) was not recognised (fail closed)")
        return
    body, n, problems = verdicts[0]
    if order_problem:
        problems = problems + [order_problem]
    if not problems and n:
        ctx.ok(rule, key, body.where(), "a pair of consecutive matches adds 0 when adjacent in order and at least 1 when there is a gap "
               "(%d path values, both regions)" % n, nontrivial=True)
    else:
        ctx.fail(rule, key, body.where(), "score_trans_down: %s" % "; ".join(sorted(set(problems))[:2] or ["no path evaluated"]),
                 {"witness": "'u v x' no longer outranks 'u x v' for the query 'u v'"})



def filter_passes(ctx, rule, key, n_r, n_q, n_words, descr, witness):
    """abstract run (A13) of hit_matches for a non-empty query of n_words words with n_r matched record words and n_q matched
    query words: the filter must answer `true` whatever the matches look like (their fields are unknown to the run)"""
    from .. import absint as AI
    fb = ctx.facts.one("search::filter::hit_matches")
    if not ctx.require(rule, "hit_matches", fb):
        return
    counts = {"rmatches": n_r, "qmatches": n_q, "words": n_words}

    def oracle(t, args, body):
        cn = t.get("cn") or ""
        sy = ctx.sym(body)
        if cn.endswith("Text::is_empty"):
            return [AI.const(False)]
        if cn.endswith(("Vec::as_slice", "Deref::deref")) and t["args"]:
            p = U.field_path(sy.operand(t["args"][0]))
            if p and p[2] and p[2][-1] in counts:
                return [("slice", counts[p[2][-1]])]
        if cn.endswith(("::len", "::is_empty")) and t["args"]:
            p = U.field_path(sy.operand(t["args"][0]))
            if p and p[2] and p[2][-1] in counts:
                n = counts[p[2][-1]]
                return [AI.const(n) if cn.endswith("len") else AI.const(n == 0)]
        return None
    try:
        res = AI.AbsInt(ctx, oracle).run_body(fb, [("sym", "query"), ("sym", "hit")])
    except AI.Limit:
        res = {AI.UNKNOWN}
    if res == {AI.const(True)}:
        ctx.ok(rule, key, fb.where(), "%s passes the filter (abstract run of hit_matches)" % descr, nontrivial=True)
    else:
        ctx.fail(rule, key, fb.where(), "hit_matches can reject %s: %s" % (descr, sorted(AI.show(x) for x in res)), {"witness": witness})
