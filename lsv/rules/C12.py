"""C12 — an empty query lists the top-rated records."""
from . import r_rank as RR
from . import r_state as RS
from . import C20 as RC20
from .common import info


def run(ctx):
    comps = RR.comparators_wellformed(ctx, "R12.a")
    RR.empty_query_comparator(ctx, "R12.a", comps)
    RR.limit_provenance(ctx, "R12.b")
    RR.bounded_selection(ctx, "R12.b")
    RR.search_chain_shape(ctx, "R12.c", parts=("result-id", "branch", "comparator"))
    RR.hit_filter(ctx, "R12.c")
    RR.position_mapping(ctx, "R12.c")
    from . import r_token as RK
    RK.class_predicates(ctx, "R12.f")
    RK.sibling_agreement(ctx, "R12.f", "R12.f", stages_too=False, only=("query",), which_stages=("strip",))
    RS.memo_coherence(ctx, "R12.d")
    RS.consistency_group(ctx, "R12.d", frame=False)
    RR.priorities(ctx, "R12.e", "R12.e", match_before_rating=False)
    RR.directions(ctx, "R12.e", comps, roles=("rating",))
    RC20.buffer_rules(ctx, None, None, "R20.f")
    RR.rating_confinement(ctx, "R12.e", parts=("width",))
    # "hits with no highlighting" are the stored titles: every return of the title builder passes the NUL sanitiser
    from . import r_highlight as RH
    RH.analyse_builder(ctx, "R12.g", None, None)
    # a separator-only query stays without words after normalisation: table keys / targets are letters or marks
    from . import r_lang as RL
    RL.table_rules(ctx, None, None, None, None, None, rule_m="R12.h")
    from . import r_word as RW
    RW.text_is_empty_words(ctx, "R12.i")
    from . import C20 as _RC20
    _RC20.api_effects(ctx, "R12.j", which=("add",))
    from . import r_rank as _RR3
    _RR3.hit_from_record(ctx, "R12.k")
    return info("R12.k: a hit copies id, title and rating of its record unchanged (no narrowing of the rating on the way). R12.j: add_record really adds the record to the addressed store on every call (the registry API is not exercised by the repository's tests). R12.i: Text::is_empty tests the words (a query of separators only is the empty query). "
                "R12.a: the empty-query selection orders by exactly (rating desc, normalised title asc); R12.b: bounded by "
                "self.limit with the R06.a selection rules; R12.c: the non-index branch is taken iff the query has no word, an "
                "empty query passes the filter first, positions map to records; R12.d: the memoised ranking is coherent (R10.a/b); "
                "R12.e: the rating is compared before word/char counts and descending.")
