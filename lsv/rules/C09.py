"""C09 — markup balanced, word-aligned, present exactly when expected."""
from . import r_highlight as RH
from . import r_rank as RR
from . import r_token as RK
from .common import info


def run(ctx):
    RH.analyse_builder(ctx, None, None, "R09.a")
    RH.span_arithmetic(ctx, "R09.b")
    RR.hit_filter(ctx, "R09.c")
    RH.new_pair_guards(ctx, "R09.e")
    RH.marker_provenance(ctx, "R09.f")
    RH.split_nonempty(ctx, "R09.g")
    RK.sibling_agreement(ctx, "R15.b", "R15.c", stages_too=False)
    from . import C20 as RC20
    RC20.buffer_rules(ctx, "R20.c", None, None)
    RH.dividers_writers(ctx, "R09.h")
    # spans are computed on the normalised text and drawn on the original: both keep the same length through lower-casing
    RK.lower_rules(ctx, "R09.i")
    RK.normalize_assigns_together(ctx, "R09.i")
    from . import C20 as _RC20
    _RC20.api_effects(ctx, "R09.j", which=("markers",))
    from . import r_lang as _RL
    _RL.table_rules(ctx, None, None, None, None, None, rule_m="R09.k")
    from . import r_word as _RW2
    _RW2.no_shadowed_defaults(ctx, "R09.l")
    return info("R09.l: no impl overrides a provided method of the crate's traits (Word::len / dist / is_function, LimitSort). R09.k: reduction tables map letters / marks to letters / marks and Lang::new starts with empty tables (a query with a letter keeps a word). R09.j: highlight_with really hands the markers to the store on every call (the registry API is not exercised by the repository's tests). R09.a: abstract walk of every loop-iteration / exit path of the title builder: markers are emitted as left, exactly "
                "one source slice, right, every path ends closed; R09.b: spans are word.slice.0 + subslice.{0,1}, the match is "
                "looked up by word offset, every WordMatch is built with subslice.0 = 0; R09.c: empty query passes, no match => "
                "no hit; R09.e: new_pair only with slice <= len(word); R09.f: (left, right) travel in order from highlight_with "
                "through Store.dividers to the builder; R09.g: the guard in WordMatch::split implies a non-empty second half "
                "(linear-arithmetic discharge); R15.b/c: the record tokeniser splits like the public query tokeniser. Joined-match "
                "typo split arithmetic is not decided.")
