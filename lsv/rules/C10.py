"""C10 — no stale state (structural clauses: RS, R10.a, R10.b, R10.d, R10.e)."""
from . import r_state as RS
from .. import util as U
from .common import info


def hidden_state_inventory(ctx, rule, rs_cells):
    """R10.e: every interior-mutable long-lived cell written on the &self search path is accounted for"""
    facts = ctx.facts
    cg = ctx.cg
    roots = [b.id for b in facts.fns() if b.id.endswith(RS.SEARCH_PATH_ROOT_SUFFIXES)]
    reach = cg.reachable(roots)
    eff = ctx.eff
    written = set()
    for r in roots:
        written |= eff.trans(r)
    store = RS._store_adt(ctx)
    memos = set(RS.memo_cells(ctx, store)) if store else set()
    n = 0
    for adt in sorted(facts.adts.values(), key=lambda a: a["id"]):
        if adt["kind"] != "struct" or not RS._long_lived_struct(ctx, adt["id"]):
            continue
        for f in adt["variants"][0]["fields"]:
            t = facts.ty(f["ty"])
            is_cell = t.get("k") == "adt" and t["did"] in ("std::cell::RefCell", "std::cell::Cell",
                                                           "std::cell::UnsafeCell", "std::cell::OnceCell")
            if not is_cell:
                continue
            n += 1
            name = "%s.%s" % (adt["id"].rsplit("::", 1)[-1], f["name"])
            key = "cell:%s" % name
            payload = t["args"][0] if t.get("args") else ""
            inner_adt = U.adt_of(facts, payload)
            if name in rs_cells:
                ctx.ok(rule, key, "-", "%s is a scratch buffer checked by RS" % name, kind="S")
            elif store and adt["id"] == store["id"] and f["name"] in memos:
                ctx.ok(rule, key, "-", "%s is a memo cell checked by R10.a" % name, kind="S")
            elif inner_adt in facts.adts:
                ctx.ok(rule, key, "-", "%s holds the struct %s whose fields are accounted for individually" % (name, inner_adt), kind="S")
            elif (adt["id"], f["name"]) not in written:
                ctx.ok(rule, key, "-", "%s is not written on the search/tokenise path" % name, kind="S")
            elif _diagnostic(ctx, reach, adt["id"], f["name"])[0]:
                ctx.ok(rule, key, "-", "%s is diagnostic state: on the search path it is only written, or read to compute the value "
                       "written back into itself (a counter); no result can depend on it" % name, nontrivial=True, kind="S")
            else:
                ctx.fail(rule, key, "-", "interior-mutable cell %s is written on the &self search path but is neither a "
                         "reset-before-read scratch buffer, a validated memo cell nor a nested struct: hidden state" % name,
                         {"witness": "repeating a search can change its answer"}, kind="S")
    # plain fields of the long-lived singleton structs (Store, the index, Lang, the matcher scratch structs) written on the
    # search path through `&mut` access behind a RefCell: scratch (RS), the matrix, or reported as hidden state
    singles = _singletons(ctx)
    for (a, fname) in sorted(written):
        if a not in singles:
            continue
        fdef = [f for f in facts.adts[a]["variants"][0]["fields"] if f["name"] == fname]
        if not fdef:
            continue
        t = facts.ty(fdef[0]["ty"])
        if t.get("k") == "adt" and t["did"] in ("std::cell::RefCell", "std::cell::Cell", "std::cell::UnsafeCell", "std::cell::OnceCell"):
            continue        # handled above
        name = "%s.%s" % (a.rsplit("::", 1)[-1], fname)
        key = "field:%s" % name
        if name in rs_cells:
            ctx.ok(rule, key, "-", "%s is a scratch buffer checked by RS" % name, kind="S")
        elif a.endswith("DistMatrix"):
            ctx.ok(rule, key, "-", "%s belongs to the distance matrix (R10.d)" % name, kind="S")
        elif U.adt_of(facts, fdef[0]["ty"]) in facts.adts and facts.adts[U.adt_of(facts, fdef[0]["ty"])]["kind"] == "struct":
            ctx.ok(rule, key, "-", "%s holds a struct whose fields are accounted for individually" % name, kind="S")
        elif _diagnostic(ctx, reach, a, fname)[0]:
            ctx.ok(rule, key, "-", "%s is diagnostic state: on the search path it is only written, or read to compute the value "
                   "written back into itself (a counter); no result can depend on it" % name, nontrivial=True, kind="S")
        else:
            wb = None
            for r in roots:
                wb, how = eff.explain(r, (a, fname))
                if wb:
                    break
            ctx.fail(rule, key, facts.bodies[wb].where() if wb in facts.bodies else "-",
                     "%s is written on the search path (in %s) and is neither reset-before-read scratch nor the distance matrix: "
                     "state that survives a search (e.g. a result cache) — later answers can depend on earlier queries, adds or "
                     "limit changes" % (name, wb), {"witness": "search q; add a matching record (or change the limit); search q again"},
                     kind="S")
    # thread-local keys touched on the search path
    for (b, bi, t, k, cid) in ctx.model.tls_sites:
        if b.id not in reach:
            continue
        payload = ctx.model.tls_keys.get(k) or ""
        pt = facts.ty(payload)
        key = "tls:%s" % k
        if k in rs_cells or k.rsplit("::", 1)[-1] in rs_cells:
            ctx.ok(rule, key, "-", "thread-local %s is a scratch buffer checked by RS" % k, kind="S")
        elif pt.get("k") == "adt" and pt["did"] in facts.adts:
            ctx.ok(rule, key, "-", "thread-local %s holds the struct %s whose cells are accounted for individually" % (k, pt["did"]), kind="S")
        elif _diagnostic_tls(ctx, reach, k)[0]:
            ctx.ok(rule, key, "-", "thread-local %s is diagnostic state: only written (or read to update itself) on the search path" % k,
                   nontrivial=True, kind="S")
        else:
            ctx.fail(rule, key, "-", "thread-local %s (payload %s) is used on the search path and is not covered by RS" % (k, payload),
                     kind="S")
    ctx.floor(rule, "interior_mutable_cells", n, 4)


def _diagnostic(ctx, reach, adt_id, fname):
    def is_state(e):
        return isinstance(e, tuple) and len(e) > 3 and e[0] == "field" and str(e[2]) == fname and e[3] == adt_id
    return RS.value_never_leaves(ctx, None, is_state)


def _diagnostic_tls(ctx, reach, key):
    """the thread-local's cell is only handed to closures that write it / update it from itself"""
    accessors = set()
    for (b, bi, t, k, cid) in ctx.model.tls_sites:
        if k == key and cid in ctx.facts.bodies:
            accessors.add(cid)
    if not accessors:
        return False, "no accessor"

    def is_state(e):
        cur = getattr(is_state, "cur", None)
        if cur is None or cur.id not in accessors:
            return False
        return e == ("arg", 2) or (isinstance(e, tuple) and e and e[0] == "deref" and e[1] == ("arg", 2))
    return RS.value_never_leaves(ctx, None, is_state)


def _singletons(ctx):
    """struct types of which one instance lives per thread / per store id: reachable from thread-local payloads through struct
    fields, RefCell / Option wrappers and registry maps keyed by id — not through Vec element types"""
    facts = ctx.facts
    out = set()

    def visit(tyname, depth=0):
        if depth > 6:
            return
        t = facts.ty(tyname)
        if t.get("k") != "adt":
            return
        did = t["did"]
        if did in facts.adts:
            if did in out or facts.adts[did]["kind"] != "struct":
                return
            out.add(did)
            for f in facts.adts[did]["variants"][0]["fields"]:
                visit(f["ty"], depth + 1)
        elif did in ("std::cell::RefCell", "std::cell::Cell", "std::option::Option"):
            for a in t.get("args", []):
                visit(a, depth + 1)
        elif did == "std::collections::HashMap" and t.get("args") and t["args"][0] == "usize":
            visit(t["args"][1], depth + 1)
    for key, payload in ctx.model.tls_keys.items():
        if payload:
            visit(payload)
    return out


def run(ctx):
    cells = RS.reset_before_read(ctx, "RS", floor=12)
    RS.matrix_rules(ctx, "R10.d")
    RS.memo_coherence(ctx, "R10.a")
    RS.consistency_group(ctx, "R10.b")
    RS.length_lockstep(ctx, "R10.b")
    hidden_state_inventory(ctx, "R10.e", cells)
    from . import C20 as RC20
    RC20.buffer_rules(ctx, "R20.c", None, None)
    return info("RS: every long-lived scratch collection obtained mutably on the search/tokenise path is reset before its "
                "first observing use on every path (or every exit passes a full reset); R10.a: the memoised ranking is reused "
                "only under a validation of scalar deps and is reset by every entry point that changes collection deps; "
                "R10.b: every entry point that changes `records` changes the whole group defined by the canonical mutation "
                "Store::add, and records / next_ix / index change by the same abstract amount (+1 or reset) on every path of every Store method; R10.d: matrix growth does resize+size+init together, borders are rebuilt on every call, prepare "
                "dominates all accesses; R10.e: closed inventory of interior-mutable cells and thread-locals on the &self path.")
