"""C19 — unchecked fast paths stay inside their buffers (bounds obligations, proof level)."""
from .. import bounds as B
from .. import sym as S
from .. import util as U
from ..bounds import Lin, Fact, ge, gt
from ..effects import field_chain
from ..engine import where
from . import r_trigram as RT
from . import r_state as RS
from .common import info

MACRO_UNSAFE = ("std::fmt::Arguments::new", "std::fmt::Arguments::new_v1", "std::thread::local_impl::LazyStorage::get_or_init",
                "core::fmt::rt::Argument::new_display", "std::fmt::Arguments::from_str")


def unsafe_sites(ctx):
    out = []
    for b in ctx.facts.fns():
        for bi, t in b.calls():
            if not t.get("unsafe"):
                continue
            cn = t.get("cn") or ""
            if cn in MACRO_UNSAFE or ((t.get("loc") or {}).get("exp") and t.get("callee_crate") in ("std", "core", "alloc")):
                continue
            out.append((b, bi, t))
    return out


def raw_pointer_ops(ctx):
    """dereferences of raw pointers written in the crate itself (not through std macros)"""
    out = []
    for b in ctx.facts.fns():
        for bi, si, st in b.iter_stmts():
            if b.blocks[bi]["cleanup"] or (st.get("loc") or {}).get("exp"):
                continue
            found = []

            def walk(x):
                if isinstance(x, dict):
                    if "l" in x and isinstance(x.get("p"), list) and x["p"] and x["p"][0] == "deref":
                        ty = b.local_ty(x["l"]) if x["l"] < len(b.locals) else ""
                        if ty.startswith(("*const ", "*mut ")):
                            found.append(ty)
                    for v in x.values():
                        walk(v)
                elif isinstance(x, list):
                    for v in x:
                        walk(v)
            walk(st)
            for ty in found:
                out.append((b, bi, st, "dereference of a raw pointer of type %s" % ty))
    return out


# ------------------------------------------------------------------ lemmas

def lemma_accessors(ctx, rule):
    """L-acc: WordView::chars / ::classes slice their arrays with the same range (slice.0 .. slice.1) and Word::len is
    slice.1 - slice.0, so len(chars(w)) = len(classes(w)) = Word::len(w) whenever the accessors return"""
    facts = ctx.facts
    ok = {}
    for name in ("chars", "classes"):
        b = None
        for x in facts.fns():
            if x.cn.endswith("WordView::" + name):
                b = x
        good = False
        if b is not None:
            e = S.strip_refs(ctx.sym(b).local(0))
            if e[0] == "call" and e[1].endswith("Index::index"):
                base = U.field_path(e[2][0])
                rng = S.strip_refs(e[2][1])
                if base and base[0] == "arg" and base[1] == 1 and base[2] == [name] and rng[0] == "agg" and rng[2].endswith("Range::Range"):
                    lo, hi = U.field_path(rng[3][0]), U.field_path(rng[3][1])
                    good = bool(lo and hi and lo[2] == ["slice", "0"] and hi[2] == ["slice", "1"])
        ok[name] = good
    lb = None
    for x in facts.fns():
        if x.cn.endswith("tokenization::word::Word::len"):
            lb = x
    good = False
    if lb is not None:
        e = ctx.sym(lb).local(0)
        if e[0] == "binop" and e[1] == "Sub":
            def tup(x):
                x = S.strip_refs(x)
                return (str(x[2]), S.strip_refs(x[1])) if x[0] == "field" else (None, None)
            (i1, c1), (i0, c0) = tup(e[2]), tup(e[3])
            good = i1 == "1" and i0 == "0" and c1 == c0 and c1[0] == "call" and c1[1].endswith("Word::slice")
    ok["len"] = good
    sb = None
    for x in facts.fns():
        if x.kind == "method" and (x.impl_trait or "").endswith("tokenization::word::Word") and "WordView" in (x.impl_self or "") \
                and x.id.endswith("::slice"):
            sb = x
    good = False
    if sb is not None:
        p = U.field_path(ctx.sym(sb).local(0))
        good = bool(p and p[0] == "arg" and p[1] == 1 and p[2] == ["slice"])
    ok["slice"] = good
    allok = all(ok.values())
    if allok:
        ctx.ok(rule, "L-acc", "-", "WordView::chars and ::classes use the same range slice.0..slice.1 and Word::len = slice.1 - slice.0",
               nontrivial=True, kind="S")
    else:
        ctx.fail(rule, "L-acc", "-", "accessor agreement lemma does not hold any more: %s" % ok, kind="S")
    return allok


def lemma_matrix_capacity(ctx, rule):
    """L1: after DistMatrix::prepare(c1, c2): size >= len(c1)+2 and size >= len(c2)+2.
    Returns (prepare body, join-ok predicate for sites in prepare) or None"""
    facts = ctx.facts
    pb = None
    for x in facts.fns():
        if x.cn.endswith("DistMatrix::prepare"):
            pb = x
    if pb is None:
        ctx.fail(rule, "L1", "-", "DistMatrix::prepare not found", kind="S")
        return None
    sy = ctx.sym(pb)
    cfg = ctx.cfg(pb)
    found = None
    for bi, t in pb.iter_terms():
        bt = U.bool_switch_targets(t)
        if not bt:
            continue
        e = sy.operand(t["discr"])
        if e[0] != "binop" or e[1] not in ("Gt", "Lt", "Ge", "Le"):
            continue
        a, b = e[2], e[3]
        op = e[1]
        pa, pb_ = U.field_path(a), U.field_path(b)
        if pa and pa[2] == ["size"]:
            a, b, op = b, a, U.FLIP[op]
        elif not (pb_ and pb_[2] == ["size"]):
            continue
        # now: need <op> self.size
        need = a
        mx = U.max_like(ctx, pb, need)
        if mx is None:
            continue
        parts = []
        for arg in mx:
            l = B.lin(arg)
            parts.append(l)
        grow_target = bt[1] if op in ("Gt", "Ge") else bt[0]
        keep_target = bt[0] if op in ("Gt", "Ge") else bt[1]
        strict = op in ("Gt", "Lt")
        # the growth test is the comparison whose "need exceeds size" side assigns the size field (a debug_assert! on the
        # same two quantities is not)
        assigns_size = False
        for abi, si, st in pb.iter_stmts():
            if st["k"] == "assign" and st["place"]["p"] and not pb.blocks[abi]["cleanup"]:
                pth = U.field_path(sy.dest(st["place"]))
                if pth and pth[0] == "arg" and pth[1] == 1 and pth[2] == ["size"] and (cfg.dominates(grow_target, abi) or grow_target == abi):
                    assigns_size = True
        if found is not None and not assigns_size:
            continue
        found = (bi, need, parts, grow_target, keep_target, strict)
    if not found:
        ctx.fail(rule, "L1", pb.where(), "growth test `max(len1+2, len2+2) > self.size` not recognised (fail closed)", kind="S")
        return None
    bi, need, parts, grow_t, keep_t, strict = found
    # parts must be len(c1)+2, len(c2)+2
    lens = {}
    for p in parts:
        if len(p.co) == 1:
            (atom, coef), = p.co.items()
            if coef == 1 and atom[0] == "call" and atom[1].endswith("::len"):
                lens[S.strip_refs(atom[2][0])] = p.c
            elif coef == 1 and atom[0] == "len":
                lens[S.strip_refs(atom[1])] = p.c
    if not (lens.get(("arg", 2)) is not None and lens.get(("arg", 3)) is not None):
        ctx.fail(rule, "L1", where(pb, bi), "the required size is not max(len(coefs1)+k, len(coefs2)+k): %s" % S.show(need, pb), kind="S")
        return None
    margin = min(lens[("arg", 2)], lens[("arg", 3)])
    # growth assigns size := g(need) with g >= need
    size_asg = []
    for abi, si, st in pb.iter_stmts():
        if st["k"] == "assign" and st["place"]["p"] and not pb.blocks[abi]["cleanup"]:
            pth = U.field_path(sy.dest(st["place"]))
            if pth and pth[0] == "arg" and pth[1] == 1 and pth[2] == ["size"]:
                size_asg.append((abi, st, sy.rvalue(st["rv"])))
    g_ok = False
    for (abi, st, g) in size_asg:
        if not (cfg.dominates(grow_t, abi) or grow_t == abi):
            continue
        gs = S.strip_refs(g)
        if S.norm(gs) == S.norm(need):
            g_ok = True
        elif gs[0] == "binop" and gs[1] == "Add" and (S.norm(gs[2]) == S.norm(need) or S.norm(gs[3]) == S.norm(need)):
            g_ok = True      # need + (unsigned term)
        elif gs[0] == "binop" and gs[1] == "Mul" and S.norm(gs[2]) == S.norm(need) and U.is_const(gs[3]) and S.const_value(gs[3]) >= 1:
            g_ok = True
        elif gs[0] == "binop" and gs[1] == "Div" and U.is_const(gs[3]) and S.strip_refs(gs[2])[0] == "binop" and \
                S.strip_refs(gs[2])[1] == "Mul" and S.norm(S.strip_refs(gs[2])[2]) == S.norm(need) and \
                U.is_const(S.strip_refs(gs[2])[3]) and S.const_value(S.strip_refs(gs[2])[3]) >= S.const_value(gs[3]) >= 1:
            g_ok = True      # need * a / b with a >= b >= 1
        elif gs[0] == "call" and gs[1].endswith("cmp::max") and any(S.norm(a_) == S.norm(need) for a_ in gs[2]):
            g_ok = True
        grow_block = abi
    # without strictness `need >= size` on the keep side would still give size >= need only for Gt/Ge forms
    keep_ok = True   # keep side: !(need > size)  =>  size >= need ; for Ge form: !(need >= size) => size > need
    if g_ok and keep_ok:
        ctx.ok(rule, "L1", where(pb, bi), "after prepare: size >= max(len(coefs1), len(coefs2)) + %d (growth assigns size := g(need) >= need, "
               "otherwise need <= size)" % margin, {"need": S.show(need, pb), "margin": margin}, nontrivial=True, kind="S")
    else:
        ctx.fail(rule, "L1", where(pb, bi), "matrix capacity lemma fails: the growth branch does not establish size >= needed size", kind="S")
        return None
    # sites in prepare are after the join iff they are not reachable from the switch while avoiding both the
    # size assignment (growth side) and the keep edge — i.e. dominated by the switch and not inside the grow
    # region before the assignment
    def after_join(site_bi):
        if not cfg.dominates(bi, site_bi):
            return False
        # reachable from grow target without passing the assignment block?
        if size_asg:
            avoid = [a for a, _, _ in size_asg]
            if site_bi in cfg.reachable_from(grow_t, avoid=avoid) and site_bi not in avoid:
                return False
        return True
    return pb, after_join, margin


def lemma_flat_buffer(ctx, rule):
    """L2: every write of the buffer length uses the square of the value stored to `size` in the same body"""
    facts = ctx.facts
    ok_all = True
    n = 0
    for b in facts.fns():
        if not b.cn.startswith("matching::damlev::matrix::DistMatrix::"):
            continue
        sy = ctx.sym(b)
        # constructions: aggregate DistMatrix { size: s, raw: from_elem(_, s*s) }
        for bi, si, st in b.iter_stmts():
            if st["k"] == "assign" and st["rv"]["k"] == "agg" and st["rv"].get("did", "").endswith("DistMatrix"):
                e = sy.rvalue(st["rv"])
                d = dict(zip(e[4], e[3]))
                raw = S.strip_refs(d.get("raw"))
                sz = d.get("size")
                n += 1
                good = raw[0] == "call" and raw[1].endswith("from_elem") and len(raw[2]) >= 2
                if good:
                    cnt = raw[2][1]
                    good = cnt[0] == "binop" and cnt[1] == "Mul" and S.norm(cnt[2]) == S.norm(cnt[3]) == S.norm(sz)
                if not good:
                    ok_all = False
                    ctx.fail(rule, "L2:construct:%s" % b.id, where(b, bi, st), "a DistMatrix is constructed with a buffer that is not size*size long",
                             {"witness": "vec![0.0; size * (size - 1)]: the last row is outside the buffer"}, kind="S")
        # resizes of raw
        for (bi, t, rk, m) in U.receiver_events(ctx, b):
            p = U.field_path(rk)
            if m in ("resize", "truncate", "push", "pop", "clear", "extend", "shrink_to_fit", "set_len", "drain") and p and p[2] == ["raw"]:
                n += 1
                good = False
                if m == "resize":
                    cnt = sy.operand(t["args"][1])
                    if cnt[0] == "binop" and cnt[1] == "Mul" and S.norm(cnt[2]) == S.norm(cnt[3]):
                        # the same value is stored to self.size in this body
                        for abi, si, st in b.iter_stmts():
                            if st["k"] == "assign" and st["place"]["p"]:
                                pth = U.field_path(sy.dest(st["place"]))
                                if pth and pth[2] == ["size"] and S.norm(sy.rvalue(st["rv"])) == S.norm(cnt[2]):
                                    good = True
                if not good:
                    ok_all = False
                    ctx.fail(rule, "L2:%s:%s" % (m, b.id), where(b, bi, t), "the matrix buffer length is changed by `%s` without keeping "
                             "len(raw) == size*size" % m, kind="S")
    # size is written only together with raw (checked above) — any other writer of `size`?
    for b in facts.fns():
        if (("matching::damlev::matrix::DistMatrix", "size") in ctx.eff.direct.get(b.id, set())) and \
                not b.cn.endswith(("DistMatrix::prepare", "DistMatrix::new")):
            ok_all = False
            ctx.fail(rule, "L2:size-writer:%s" % b.id, b.where(), "%s changes DistMatrix.size outside prepare/new" % b.id, kind="S")
    if ok_all and n >= 2:
        ctx.ok(rule, "L2", "-", "len(raw) == size*size is established by every constructor/resize (%d sites) and size has no other writer" % n,
               nontrivial=True, kind="S")
    elif ok_all:
        ctx.fail(rule, "L2", "-", "constructor / resize of the matrix buffer not found (fail closed)", kind="S")
        ok_all = False
    return ok_all


# ------------------------------------------------------------------ site discharge

def discharge_sites(ctx):
    facts_db = ctx.facts
    sites = unsafe_sites(ctx)
    ctx.count("unsafe_call_sites", len(sites))
    acc_ok = lemma_accessors(ctx, "L-acc")
    l1 = lemma_matrix_capacity(ctx, "L1")
    l2_ok = lemma_flat_buffer(ctx, "L2")
    l3_ok = None
    matrix_adt = "matching::damlev::matrix::DistMatrix"
    n_ob = 0
    for (b, bi, t) in sites:
        sy = ctx.sym(b)
        cfg = ctx.cfg(b)
        cn = t.get("cn") or ""
        args = [sy.operand(a) for a in t["args"]]
        site_key = "%s:%s@%s" % (cn.rsplit("::", 1)[-1], b.id, "+".join(S.show(B.devar(a), b)[:40].replace(" ", "") for a in args[1:3] if True))
        obligations = []     # (name, Lin >= 0)
        facts = []
        kind = None
        if cn.endswith(("<impl [T]>::get_unchecked", "<impl [T]>::get_unchecked_mut")):
            kind = "slice"
            idx = B.lin(args[1])
            ln = Lin({B.len_atom(args[0]): 1})
            obligations.append(("index < len", (ln - idx).plus(-1)))
        elif cn.endswith(("DistMatrix::get_unchecked", "DistMatrix::set_unchecked")):
            kind = "matrix"
            sz = Lin({("size", B.norm_atom(args[0])): 1})
            obligations.append(("row < size", (sz - B.lin(args[1])).plus(-1)))
            obligations.append(("col < size", (sz - B.lin(args[2])).plus(-1)))
        else:
            ctx.fail("R19", "unknown-unsafe:%s" % site_key, where(b, bi, t), "call to unsafe fn %s is not covered by any bounds rule (fail closed)" % cn,
                     kind="S")
            continue
        # ---- generic facts
        for a in args[1:3]:
            B.index_facts(a, facts)
            B.calls_len_facts(a, facts)
        B.guard_facts(ctx, b, bi, facts)
        # every len / size / index atom is non-negative
        atoms = set()
        for _, ob in obligations:
            atoms |= set(ob.co)
        for f in list(facts):
            atoms |= set(f.form.co)
        # ---- body-specific lemma instances
        special = None
        if b.cn.endswith("DistMatrix::init"):
            # `self.size` reads equal the size atom; init does not write size
            if (matrix_adt, "size") not in ctx.eff.direct.get(b.id, set()):
                _size_field_facts(atoms | _atoms_of(facts), facts)
        elif b.cn.endswith("DistMatrix::prepare") and l1:
            pb, after_join, margin = l1
            if after_join(bi):
                sz = Lin({("size", ("arg", 1)): 1})
                for ai in (2, 3):
                    facts.append(ge(sz, Lin({("len", ("arg", ai)): 1}, margin), "L1 (matrix capacity)"))
        elif b.cn.endswith("DamerauLevenshtein::distance"):
            _distance_facts(ctx, b, bi, t, args, facts, l1, acc_ok)
        elif b.cn.endswith(("DistMatrix::get_unchecked", "DistMatrix::set_unchecked")) and kind == "slice":
            special = _flat_index(ctx, b, args, l2_ok)
        elif b.cn.endswith("TrigramIndex::prepare") and kind == "slice":
            if l3_ok is None:
                l3_ok = lemma_postings(ctx, "L3")
            special = l3_ok
        for a in list(_atoms_of(facts) | atoms):
            if isinstance(a, tuple) and a and a[0] == "call" and a[1].endswith("::len") and a[2] and \
                    a[1].startswith(("core::slice", "std::vec::Vec")):
                la = ("len", S.strip_refs(a[2][0]))
                facts.append(Fact(Lin({a: 1, la: -1}), "len() call"))
                facts.append(Fact(Lin({a: -1, la: 1}), "len() call"))
        for a in set(a_ for a_ in _atoms_of(facts) | atoms):
            facts.append(Fact(Lin({a: 1}), "unsigned"))
        # ---- discharge
        for (name, ob) in obligations:
            n_ob += 1
            key = "%s:%s" % (name.replace(" ", ""), site_key)
            if special is not None:
                if special:
                    ctx.ok("R19", key, where(b, bi, t), "%s follows from the %s lemma" % (name, "flat-buffer (L2)" if kind == "slice" and
                           "DistMatrix" in b.cn else "posting-position (L3)"), nontrivial=True, kind="S")
                else:
                    ctx.fail("R19", key, where(b, bi, t), "%s is not discharged: the lemma it relies on fails" % name,
                             {"witness": "out-of-bounds unchecked access"}, kind="S")
                continue
            used = B.prove(ob, facts)
            if used is not None:
                ctx.ok("R19", key, where(b, bi, t), "%s discharged from: %s" % (name, "; ".join(sorted(set(f.why for f in used))) or "constants"),
                       {"facts_available": len(facts)}, nontrivial=True, kind="S")
            else:
                ctx.fail("R19", key, where(b, bi, t),
                         "cannot derive `%s` for unchecked access %s(%s) from the facts available at this site (%d facts): the access may "
                         "be out of bounds" % (name, cn.rsplit("::", 1)[-1], ", ".join(S.show(B.devar(a), b)[:60] for a in args[1:3]), len(facts)),
                         {"facts": sorted(set(f.why for f in facts))[:14], "witness": "an index at or past the buffer/matrix dimension"},
                         kind="S")
    ctx.count("bounds_obligations", n_ob)
    return sites


def _atoms_of(facts):
    s = set()
    for f in facts:
        s |= set(f.form.co)
    return s


def _size_field_facts(atoms, facts):
    for a in list(atoms):
        if isinstance(a, tuple) and a and a[0] == "field" and str(a[2]) == "size" and len(a) > 3 and (a[3] or "").endswith("DistMatrix"):
            sz = ("size", S.strip_refs(a[1]))
            facts.append(Fact(Lin({a: 1, sz: -1}), "self.size read"))
            facts.append(Fact(Lin({a: -1, sz: 1}), "self.size read"))


def _flat_index(ctx, b, args, l2_ok):
    """index is i*self.size + j into self.raw; with i,j < size (callers' obligations) and len(raw) = size² (L2)"""
    sy = ctx.sym(b)
    base = U.field_path(args[0])
    idx = S.strip_refs(args[1])
    ok = bool(base and base[0] == "arg" and base[1] == 1 and base[2] == ["raw"])
    if ok:
        ok = idx[0] == "binop" and idx[1] == "Add" and S.strip_refs(idx[3]) == ("arg", 3) and \
            S.strip_refs(idx[2])[0] == "binop" and S.strip_refs(idx[2])[1] == "Mul"
    if ok:
        m = S.strip_refs(idx[2])
        p = U.field_path(m[3])
        ok = S.strip_refs(m[2]) == ("arg", 2) and bool(p and p[2] == ["size"])
    return bool(ok and l2_ok)


def _distance_facts(ctx, b, bi, t, args, facts, l1, acc_ok):
    sy = ctx.sym(b)
    cfg = ctx.cfg(b)
    # buffers
    bufs = {}
    for cbi, ct in b.calls():
        if U.callee_is(ct, "RefCell::borrow_mut"):
            key = B.norm_atom(sy.call_expr(ct, cbi))
            ch, _ = field_chain(sy.operand(ct["args"][0]))
            bufs[key] = ch[-1][1] if ch else "?"
    # L-ext: len(buf) >= len(classes(word)) when an extend(buf, iter(classes(w)).map(..)) dominates the site and no
    # shrinking event on buf lies between
    for (ebi, et, rk, m) in U.receiver_events(ctx, b):
        k = B.norm_atom(rk)
        if k in bufs and m == "extend" and cfg.dominates(ebi, bi):
            src, stages = U.chain(sy.operand(et["args"][1]))
            names = [s_[0] for s_ in stages]
            if names and names[0] == "iter" and all(n in ("iter", "map", "cloned", "copied") for n in names):
                shrinks = [x for (x, _, rk2, m2) in U.receiver_events(ctx, b)
                           if B.norm_atom(rk2) == k and m2 in ("clear", "truncate", "pop", "drain", "remove", "retain", "resize", "dedup", "swap_remove")
                           and cfg.path_exists(ebi, x) and cfg.path_exists(x, bi)]
                if not shrinks:
                    facts.append(ge(Lin({("len", k): 1}), Lin({("len", B.norm_atom(src)): 1}),
                                    "L-ext: %s was extended with one element per element of %s" % (bufs[k], S.show(src, b)[:40])))
    # L-ext, loop form: `for x in X { buf.push(f(x)) }` with the push on every trip round a loop that has finished
    # before the site
    for (ebi, et, rk, m) in U.receiver_events(ctx, b):
        k = B.norm_atom(rk)
        if k not in bufs or m != "push":
            continue
        h = cfg.inner_header(ebi)
        if h is None or not cfg.dominates(h, bi) or cfg.in_natural_loop(bi, h) if hasattr(cfg, "in_natural_loop") else False:
            continue
        for nbi, nt in b.calls():
            if not (nt.get("cn") or "").endswith("Iterator::next") or cfg.inner_header(nbi) != h:
                continue
            src, stages = U.chain(sy.operand(nt["args"][0]))
            if not stages or not all(s_[0] in ("iter", "into_iter") for s_ in stages):
                continue
            tg = nt.get("target")
            sw = b.blocks[tg]["term"] if tg is not None else None
            if sw is None or sw["k"] != "switch":
                continue
            some_t = [x for v, x in sw["targets"] if v == 1]
            if not some_t or cfg.path_exists(some_t[0], nbi, avoid=[ebi]) and some_t[0] != ebi:
                continue
            shrinks = [x for (x, _, rk2, m2) in U.receiver_events(ctx, b)
                       if B.norm_atom(rk2) == k and m2 in ("clear", "truncate", "pop", "drain", "remove", "retain", "resize", "dedup", "swap_remove")
                       and cfg.path_exists(ebi, x) and cfg.path_exists(x, bi)]
            if not shrinks:
                facts.append(ge(Lin({("len", k): 1}), Lin({("len", B.norm_atom(src)): 1}),
                                "L-ext: %s received one push per element of %s" % (bufs[k], S.show(src, b)[:40])))
    # L-acc
    if acc_ok:
        for w in range(2, b.arg_count + 1):
            wv = ("arg", w)
            ch = ("len", ("call", "tokenization::word_view::WordView::chars", (wv,)))
            cl = ("len", ("call", "tokenization::word_view::WordView::classes", (wv,)))
            wl = ("call", "tokenization::word::Word::len", (wv,))
            for (x, y) in ((ch, cl), (ch, wl)):
                facts.append(Fact(Lin({x: 1, y: -1}), "L-acc"))
                facts.append(Fact(Lin({x: -1, y: 1}), "L-acc"))
    # L1 at the prepare call
    if l1:
        pb, after_join, margin = l1
        for pbi, pt in b.calls():
            if (pt.get("rcn") or "").endswith("DistMatrix::prepare") and cfg.dominates(pbi, bi):
                m = B.norm_atom(sy.operand(pt["args"][0]))
                # nothing else may change the matrix size in this body
                others = [x for x, t2 in b.calls() if t2.get("callee_local") and x != pbi and
                          ("matching::damlev::matrix::DistMatrix", "size") in ctx.eff.trans((t2.get("resolved") or t2.get("callee")))]
                if not others:
                    for ai in (1, 2):
                        c = B.norm_atom(sy.operand(pt["args"][ai]))
                        facts.append(ge(Lin({("size", m): 1}), Lin({("len", c): 1}, margin), "L1 (matrix capacity) at the prepare call"))
    # l1 / l2 lemmas: values read from the last-occurrence map and the `l2` variable never exceed the current indices
    maps = [k for k, nme in bufs.items() if True]
    for (ebi, et, rk, m) in U.receiver_events(ctx, b):
        pass
    size_atom = ("size", B.norm_atom(args[0])) if (t.get("cn") or "").endswith(("DistMatrix::get_unchecked", "DistMatrix::set_unchecked")) else None
    _last_occurrence_facts(ctx, b, bi, args, facts, bufs, size_atom=size_atom, l1_ok=bool(l1))


def _lookup_or_zero(b, sy, ea):
    """the HashMap::get call if `ea` is "the value stored under a key, or 0 when absent", in any of the spellings
    `*get(k).unwrap_or(&0)`, `get(k).copied().unwrap_or(0)`, `match get(k) { Some(&i) => i, None => 0 }`"""
    def payload_of_get(x):
        x = S.strip_refs(x)
        while isinstance(x, tuple) and x and x[0] in ("field", "down", "deref", "ref"):
            x = S.strip_refs(x[1])
        if isinstance(x, tuple) and x and x[0] == "call" and x[1].endswith(("Option::copied", "Option::cloned")) and x[2]:
            x = S.strip_refs(x[2][0])
        if isinstance(x, tuple) and x and x[0] == "call" and x[1].endswith("HashMap::get"):
            return x
        return None
    if ea[0] == "call" and ea[1].endswith("Option::unwrap_or") and S.const_value(S.strip_refs(ea[2][1])) == 0:
        return payload_of_get(ea[2][0])
    if ea[0] == "var":
        ds = b.defs().get(ea[1], [])
        gets, zero = [], False
        for kind, dbi, dsi, node in ds:
            if kind != "assign":
                return None
            e = S.strip_refs(sy.rvalue(node["rv"]))
            if U.is_const(e) and S.const_value(e) == 0:
                zero = True
                continue
            g = payload_of_get(e) if e[0] in ("field", "down", "deref") else None
            if g is None:
                return None
            gets.append(g)
        if zero and gets and all(S.norm(g) == S.norm(gets[0]) for g in gets):
            return gets[0]
    return None


def _last_occurrence_facts(ctx, b, site_bi, args, facts, bufs, size_atom=None, l1_ok=False):
    sy = ctx.sym(b)
    cfg = ctx.cfg(b)
    for a in args[1:3]:
        ea = S.strip_refs(B.devar(a))
        # (i) value read from a HashMap buffer: *unwrap_or(HashMap::get(map, _), &0)
        g = _lookup_or_zero(b, sy, ea)
        if g is not None:
            if True:
                mkey = B.norm_atom(g[2][0])
                if mkey in bufs:
                    evs = [(x, tt, m) for (x, tt, rk, m) in U.receiver_events(ctx, b) if B.norm_atom(rk) == mkey]
                    inserts = [(x, tt) for x, tt, m in evs if m == "insert"]
                    # entry(k).or_insert(v) also writes v (when absent): same bound argument
                    for (x, tt, rk, m) in U.receiver_events(ctx, b):
                        if m in ("or_insert",) and isinstance(rk, tuple) and rk and rk[0] == "call" and rk[1].endswith("HashMap::entry") \
                                and B.norm_atom(rk[2][0]) == mkey:
                            fake = dict(tt)
                            fake["args"] = [tt["args"][0], tt["args"][0], tt["args"][1]]
                            inserts.append((x, fake))
                    evs = [(x, tt, ("entry-write" if m == "entry" else m)) for x, tt, m in evs]
                    clears = [x for x, tt, m in evs if m == "clear"]
                    others = [m for x, tt, m in evs if m not in ("insert", "clear", "get", "deref", "deref_mut", "borrow", "borrow_mut", "entry-write")]
                    gets = [x for x, tt, m in evs if m == "get"]
                    ok = bool(inserts) and bool(clears) and not others
                    idx_atom = None
                    if ok:
                        for (x, tt) in inserts:
                            B.index_facts(sy.operand(tt["args"][2]), facts)
                            v = B.lin(sy.operand(tt["args"][2]))
                            if not (len(v.co) == 1 and v.c == 1 and list(v.co.values())[0] == 1):
                                ok = False
                                break
                            at = list(v.co)[0]
                            idx_atom = at if idx_atom in (None, at) else False
                            hdr = cfg.loop_header(x)
                            # reads of this iteration precede the insert: no get reachable from the insert without
                            # passing the outer loop header; the map is cleared before the loop
                            if hdr is None or any(cfg.path_exists(x, gbi, avoid=[hdr]) for gbi in gets):
                                ok = False
                            if not any(cfg.dominates(c, hdr) and not cfg.in_loop(c) for c in clears):
                                ok = False
                    if ok and idx_atom:
                        facts.append(ge(Lin({idx_atom: 1}), Lin({B.norm_atom(a): 1}),
                                        "last-occurrence map holds only earlier index+1 values (cleared before the loop, inserted after the reads)"))
                    elif size_atom is not None and l1_ok and inserts and not others:
                        # weaker, history-independent bound: every value ever inserted was index+1 <= len <= size-2 at that time
                        # (L1), and the matrix dimension never shrinks (it is only assigned under `need > size` with g(need) >= need)
                        all_idx = True
                        for (x, tt) in inserts:
                            v = B.lin(sy.operand(tt["args"][2]))
                            if not (len(v.co) == 1 and v.c == 1 and list(v.co.values())[0] == 1):
                                all_idx = False
                                break
                            tmp = []
                            B.index_facts(sy.operand(tt["args"][2]), tmp)
                            if not tmp:
                                all_idx = False
                        if all_idx:
                            facts.append(Fact(Lin({size_atom: 1, B.norm_atom(a): -1}, -2),
                                              "map values were index+1 <= len <= size-2 when inserted (L1) and the matrix dimension never shrinks"))
        # (ii) a mutable local assigned only 0 or (inner index + 1) after the reads
        if ea[0] == "var":
            l = ea[1]
            ds = b.defs().get(l, [])
            ok = bool(ds)
            idx_atom = None
            for kind, dbi, dsi, node in ds:
                if kind != "assign":
                    ok = False
                    break
                B.index_facts(sy.rvalue(node["rv"]), facts)
                v = B.lin(sy.rvalue(node["rv"]))
                if not v.co and v.c == 0:
                    continue
                if len(v.co) == 1 and v.c == 1 and list(v.co.values())[0] == 1:
                    at = list(v.co)[0]
                    idx_atom = at if idx_atom in (None, at) else False
                    inner_hdr = cfg.inner_header(dbi)
                    if inner_hdr is None or dbi == site_bi or cfg.path_exists(dbi, site_bi, avoid=[inner_hdr]):
                        ok = False
                else:
                    ok = False
            if ok and idx_atom:
                facts.append(ge(Lin({idx_atom: 1}), Lin({ea: 1}), "variable is 0 or an earlier inner index + 1 (assigned after the reads)"))


def lemma_postings(ctx, rule):
    """L3: every position stored in a posting list is < the index's record count, and the counter vector is resized to
    that count before the unchecked increments"""
    before = len(ctx.obs)
    RT.counters(ctx, rule, need_clear=False)
    RT.only_store_add_feeds_index(ctx, rule)
    # next_ix <= index.len is preserved: both grow by one per add (above); an entry point that resets the index's record
    # count must reset next_ix too (the converse is harmless for memory safety)
    store = RS._store_adt(ctx)
    if store is not None:
        sid = store["id"]
        eff = ctx.eff
        idx_adt, _ = RT._index_bodies(ctx)
        for ep in RS.entry_points(ctx, store):
            te = eff.trans(ep.id)
            lenw = idx_adt and (idx_adt["id"], "len") in te
            adder = any(U.callee_is(t, "Vec::push") for _, t in ep.calls()) or any(
                (idx_adt["id"], "dict") in eff.trans(x) and U.calls_named(ctx.facts.bodies[x], "HashMap::entry", "HashMap::insert")
                for x in ctx.cg.reachable([ep.id]) if x in ctx.facts.bodies)
            if lenw and not adder:
                key = "len-reset-with-next_ix:%s" % ep.id
                if (sid, "next_ix") in te:
                    ctx.ok(rule, key, ep.where(), "%s resets the index's record count together with next_ix" % ep.id, kind="S")
                else:
                    ctx.fail(rule, key, ep.where(), "%s resets the index's record count but not Store.next_ix: the next add stores a "
                             "position >= the counter vector's length" % ep.id, kind="S")
    # postings are written only with the record's ix
    facts = ctx.facts
    ok = True
    for b in RT.posting_writer_bodies(ctx):
        if True:
            sy = ctx.sym(b)
            for bi, t in b.calls():
                if U.callee_is(t, "Vec::push"):
                    v = S.strip_refs(sy.operand(t["args"][1]))
                    good = False
                    if True:
                        pb, pe = U.out_of_closure(ctx, b, v)
                        p = U.field_path(pe) if pe is not None else None
                        good = bool(p and p[0] == "arg" and p[1] == 2 and p[2] == ["ix"] and pb.kind != "closure")
                    if not good:
                        ok = False
                        ctx.fail(rule, "posting-value:%s" % b.id, where(b, bi, t), "a posting list receives a value other than record.ix", kind="S")
    new = ctx.obs[before:]
    fails = [o for o in new if o.status == "fail"]
    if ok and not fails:
        ctx.ok(rule, "L3", "-", "stored positions are record.ix = next_ix at add time < index.len afterwards; len and next_ix move together; "
               "counters are resized to len before the unchecked increments", nontrivial=True, kind="S")
        return True
    return False


def run(ctx):
    sites = discharge_sites(ctx)
    # vacuity guard: the analysis must see at least one unsafe operation per `unsafe { }` block of the sources (fewer
    # unsafe blocks than before is never a violation; losing sight of one is)
    nblocks, per_file = U.lexical_unsafe_blocks(ctx.facts.meta.get("repo") or "/repo")
    ctx.count("unsafe_blocks_in_source", nblocks)
    raw = raw_pointer_ops(ctx)
    if len(sites) + len(raw) >= nblocks:
        ctx.ok("R19", "coverage:unsafe-blocks", "-", "%d unsafe operations analysed for %d `unsafe` blocks in the sources %s"
               % (len(sites) + len(raw), nblocks, per_file), kind="S")
    else:
        ctx.fail("R19", "coverage:unsafe-blocks", "-", "the sources contain %d `unsafe` blocks %s but only %d unsafe operations were "
                 "found in the MIR: some unsafe code is not analysed (fail closed)" % (nblocks, per_file, len(sites) + len(raw)), kind="S")
    for (b, bi, st, what) in raw:
        ctx.fail("R19", "raw-pointer:%s" % b.id, where(b, bi, st), "unsafe operation outside the analysed idioms (%s): no bound "
                 "argument applies to it" % what, kind="S")
    n_ob = ctx.counts.get("bounds_obligations", 0)
    return info("Every call to an unsafe fn in non-test code (macro-generated std calls excluded) is an obligation: slice accesses "
                "need index < len, matrix accesses need row < size and col < size individually. Obligations are discharged in a "
                "linear-inequality domain from facts read off the MIR (enumerate/range indices, dominating guards with stable "
                "variables, extend idiom) and four lemmas checked on the code: L-acc (accessor agreement), L1 (matrix capacity "
                "after prepare), L2 (len(raw) = size²), L3 (posting positions < len, counters resized to len). A site whose bound "
                "cannot be derived is reported as undischarged (fail closed).",
                level="proof",
                extra={"obligations": len(ctx.obs), "discharged": sum(1 for o in ctx.obs if o.status == "ok"),
                       "checker_cmd": "./check C19", "trusted_base": [
                           "rustc MIR and type resolution (driver)", "lsv/bounds.py linear combination search",
                           "lemma recognisers in lsv/rules/C19.py", "std: Index::index on a range returns a slice of exactly that length or panics; "
                           "Vec::extend appends one element per iterator item; enumerate yields 0,1,2,…"]})
