"""C02 — titles are stored titles, decorated; ids real; no NUL."""
from . import r_highlight as RH
from . import r_rank as RR
from . import r_token as RK
from . import r_lang as RL
from . import C20 as RC20
from . import r_bridge as RB
from .common import info


def run(ctx):
    RH.analyse_builder(ctx, "R02.a", "R02.c", "R09.a")
    RR.hit_from_record(ctx, "R02.b")
    RR.search_chain_shape(ctx, "R02.b", parts=("result",))
    RR.position_mapping(ctx, "R02.b")
    RC20.forwarders(ctx, "R02.b")
    RH.marker_provenance(ctx, "R02.d")
    RB.title_framing(ctx, "R02.e")
    RK.normalize_assigns_together(ctx, "R02.f")
    RL.reductions_never_shrink(ctx, "R02.f")
    RL.reduce_equal_length(ctx, "R02.f")
    RL.table_rules(ctx, "R11.a", "R11.b", "R11.c", "R11.d", "R11.g")
    from . import r_word as RW
    RW.record_source_unchanged(ctx, "R02.g")
    RW.normalize_next_lengths(ctx, "R02.h")
    from . import C20 as _RC20
    _RC20.api_effects(ctx, "R02.i", which=("add", "markers"))
    return info("R02.i: add_record really adds the record to the addressed store; highlight_with really hands the markers to the store on every call (the registry API is not exercised by the repository's tests). R02.g: Record::new tokenises its `source` parameter as it is and stores the result; R02.h: Normalize::next tries every prefix of the window (lengths window.len()..1) on every path that yields an item. "
                "R02.a: every return path of the title builder returns the one String that passed retain(ch != '\\0') after its "
                "last write; R02.c: the copied slices of hit.title.source tile [0, len) on every path; R09.a: markers are confined to "
                "left/slice/right triples; R02.b: id provenance record_id -> Record.id -> Hit.id -> SearchResult.id of the same hit, "
                "positions map to self.records[ix]; R02.d: marker pair provenance; R02.e: the WASM bridge frames every title with a trailing NUL and the JS wrapper splits on NUL; R02.f: normalize pairs source/chars correctly "
                "and padding is len(norm)-len(orig); composition tables equal Unicode NFC (R11.a). Composition behaviour of "
                "arbitrary Unicode is not decided beyond the tables.")
