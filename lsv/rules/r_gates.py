"""Gate / edit-cost obligations shared by C03, C04, C05, C14, C16 (DESIGN §5)."""
from .. import gates as G
from .. import sym as S
from .. import util as U
from ..engine import where

# worst-case values the property statements force the gates to accept (derivations in DESIGN §5).
# Values are computed with IEEE doubles exactly as the matcher computes them.
WORST = {
    "C03": {
        "jaccard": [(1.0 - 1.0 / 2.0, "first keystroke 'a' of a word 'ab…': |A∩B|/|A∪B| = 1/2")],
        "length": [(1.0 - 1.0 / 1.0, "exact prefix compared with same-length record prefix: distance 0")],
        "damlev": [(0.0, "exact prefix: zero edit distance at the pair (m, m)")],
    },
    "C04": {
        "jaccard": [(1.0 - 2.0 / 4.0, "5-letter word, 3 distinct letters, unique letter replaced by a new one: 2/4")],
        "length": [(1.0 - 5.0 / 6.0, "one inserted letter in a 5-letter word: 1 - 5/6")],
    },
    "C14": {
        "jaccard": [(1.0 - 1.0 / 2.0, "joined spelling adds the separator to the letter set: k/(k+1) >= 1/2")],
        "length": [(1.0 - 3.0 / 4.0, "3-letter word typed as two words (4 chars with the separator): 1 - 3/4")],
    },
}


def _gates(ctx, rule):
    np_id, gates = G.find_gates(ctx)
    if not ctx.require(rule, "WordMatch::new_pair", np_id, what="constructor of word matches"):
        return None
    return gates


def _by_kind(gates):
    d = {}
    for g in gates:
        d.setdefault(g.kind, []).append(g)
    return d


def gate_presence(ctx, rule, gates, kinds):
    """each needed kind exists (fail closed) and no unrecognised gate shape is present"""
    bk = _by_kind(gates)
    ok = True
    for k in kinds:
        if not bk.get(k):
            ctx.fail(rule, "gate-missing:%s" % k, "-",
                     "no %s gate found on the path to WordMatch::new_pair: the gate was removed or its shape "
                     "changed beyond what the rule recognises (fail closed)" % k)
            ok = False
    for k in ("jaccard_similarity", "damlev_abs"):
        for g in bk.get(k, []):
            ctx.fail(rule, "gate-shape:%s:%s" % (k, g.body.id), where(g.body, g.bi),
                     "gate on an unrecognised quantity (%s): %s" % (k, g.describe()))
            ok = False
    ctx.count("gates_found", len(gates))
    return ok


def check_worst(ctx, rule, prop, gates, kinds):
    bk = _by_kind(gates)
    for k in kinds:
        for g in bk.get(k, []):
            for (w, why) in WORST[prop].get(k, []):
                key = "%s:%s:%s" % (k, g.body.id, repr(w))
                if g.accepts(w):
                    ctx.ok(rule, key, where(g.body, g.bi),
                           "%s gate (%s) accepts the forced value %r — %s" % (k, g.describe(), w, why),
                           {"gate": g.describe(), "value": w, "polarity": g.note,
                            "expr": S.show(g.x, g.body)[:300]}, nontrivial=True)
                else:
                    ctx.fail(rule, key, where(g.body, g.bi),
                             "%s gate (%s) rejects %r, a value the property forces it to accept — %s"
                             % (k, g.describe(), w, why),
                             {"gate": g.describe(), "value": w, "polarity": g.note,
                              "witness": why, "expr": S.show(g.x, g.body)[:300]})


def _length_gate_setting(ctx, g):
    """(function body computing the gate value, block of the comparison, query param, record param, Q atom expr, R atom expr)"""
    fb = g.xbody
    sy = ctx.sym(fb)
    goal = None
    want = S.norm(g.cmp_e) if g.cmp_e is not None else None
    for bi, si, st in fb.iter_stmts():
        if st["k"] == "assign" and st["rv"]["k"] == "binop" and st["rv"]["op"] in U.CMP_OPS and not fb.blocks[bi]["cleanup"]:
            if want is not None and S.norm(sy.rvalue(st["rv"])) == want:
                goal = bi
    if goal is None:
        return None
    # the query parameter is the one whose `fin` flag is consulted
    fin_params = set()
    lens = {}
    for bi, t in fb.iter_terms():
        if t["k"] == "switch":
            for x in S.walk(sy.operand(t["discr"])):
                if isinstance(x, tuple) and x and x[0] == "field" and str(x[2]) == "fin":
                    base = S.strip_refs(x[1])
                    if base[0] == "arg":
                        fin_params.add(base[1])
    for bi, t in fb.calls():
        if (t.get("rcn") or t.get("cn") or "").endswith("Word::len") or (t.get("cn") or "").endswith("Word::len"):
            a0 = S.strip_refs(sy.operand(t["args"][0]))
            if a0[0] == "arg":
                lens[a0[1]] = sy.call_expr(t, bi)
    if len(lens) != 2:
        return None
    params = sorted(lens)
    q = sorted(fin_params)[0] if len(fin_params) == 1 else params[-1]
    r = [p for p in params if p != q][0]
    return fb, goal, q, r, lens[q], lens[r], bool(fin_params)


def _ratio_operands(v):
    """(x, y) if v is 1 - x/y or (y - x)/y over integer operands (converted to float), else None"""
    def unfloat(e):
        e = S.strip_refs(e)
        while isinstance(e, tuple) and e and e[0] == "cast":
            e = S.strip_refs(e[2])
        return e
    v = S.strip_refs(v)
    if v[0] == "binop" and v[1] == "Sub" and U.is_const(v[2]) and S.const_value(v[2]) == 1.0:
        d = S.strip_refs(v[3])
        if d[0] == "binop" and d[1] == "Div":
            return unfloat(d[2]), unfloat(d[3])
    if v[0] == "binop" and v[1] == "Div":
        num, den = unfloat(v[2]), unfloat(v[3])
        if num[0] == "binop" and num[1] == "Sub":
            y, x = S.strip_refs(num[2]), S.strip_refs(num[3])
            if S.strip_sites(y) == S.strip_sites(den):
                return x, den
    return None


def shape_length(ctx, rule, gates, clip_rule=None):
    """The length gate computes 1 - min(Q, R')/max(Q, R') with Q the query word's length and R' the record word's length,
    clipped to Q when the query word is unfinished.  Decided region by region (fin x order of the two lengths, both >= 2):
    on every feasible path the gate value must be the ratio of the two operands the formula prescribes for that region."""
    from .. import regions as RG_
    from .. import bounds as B
    for g in _by_kind(gates).get("length", []):
        setting = _length_gate_setting(ctx, g)
        key_s = "length-shape:%s" % g.body.id
        key_c = "length-clip:%s" % g.body.id
        if setting is None:
            ctx.fail(rule, key_s, where(g.body, g.bi), "length gate: cannot locate the comparison and the two word lengths in %s "
                     "(fail closed: the forced values were derived for 1 - min/max)" % g.xbody.id, {"expr": S.show(g.x, g.xbody)[:300]})
            continue
        fb, goal, qp, rp, Qe, Re, has_fin = setting
        Q, R = B.lin(Qe), B.lin(Re)
        fin_atom = None
        sy = ctx.sym(fb)
        for bi, t in fb.iter_terms():
            if t["k"] == "switch":
                for x in S.walk(sy.operand(t["discr"])):
                    if isinstance(x, tuple) and x and x[0] == "field" and str(x[2]) == "fin" and S.strip_refs(x[1]) == ("arg", qp):
                        fin_atom = B.norm_atom(x)
        problems = {True: [], False: []}
        checked = {True: 0, False: 0}
        for fin in (True, False):
            for order in ("lt", "eq", "gt"):
                facts = [B.ge(Q, B.Lin({}, 2), "Q >= 2"), B.ge(R, B.Lin({}, 2), "R >= 2")]
                if order == "lt":
                    facts.append(B.gt(R, Q, "Q < R"))
                elif order == "gt":
                    facts.append(B.gt(Q, R, "Q > R"))
                else:
                    facts += [B.ge(Q, R, "Q >= R"), B.ge(R, Q, "R >= Q")]
                region = RG_.Region("fin=%s,%s" % (fin, order), facts, {fin_atom: fin} if fin_atom is not None else {})
                vals, und = RG_.values_at(ctx, fb, region, goal, g.x)
                if vals is None or not vals:
                    problems[fin].append("%s: the comparison is not reached (%s)" % (region.name, und))
                    continue
                # expected operands
                if fin:
                    exp_x, exp_y = (Q, R) if order in ("lt", "eq") else (R, Q)
                else:
                    exp_x, exp_y = (Q, Q) if order in ("lt", "eq") else (R, Q)
                for v in vals:
                    checked[fin] += 1
                    xy = _ratio_operands(v)
                    if xy is None:
                        problems[fin].append("%s: value %s is not a ratio 1 - x/y" % (region.name, S.show(v, fb)[:120]))
                        continue
                    lx, ly = B.lin(xy[0]), B.lin(xy[1])
                    def equal(a, b_):
                        return B.prove(a - b_, region.facts) is not None and B.prove(b_ - a, region.facts) is not None
                    if not (equal(lx, exp_x) and equal(ly, exp_y)):
                        problems[fin].append("%s: value is 1 - (%s)/(%s), expected 1 - %s/%s" % (
                            region.name, S.show(xy[0], fb)[:60], S.show(xy[1], fb)[:60],
                            "Q" if exp_x is Q else "R", "Q" if exp_y is Q else "R"))
        if not problems[True] and checked[True]:
            ctx.ok(rule, key_s, where(g.body, g.bi), "length gate is 1 - min/max of the two word lengths in every region "
                   "(finished query word; Q<R, Q=R, Q>R)", {"expr": S.show(g.x, fb)[:300], "function": fb.id, "values_checked": checked[True]},
                   nontrivial=True)
        else:
            ctx.fail(rule, key_s, where(g.body, g.bi),
                     "length gate is not 1 - min(q,r)/max(q,r) (the forced values were derived for that formula): %s"
                     % "; ".join(problems[True][:3]), {"expr": S.show(g.x, fb)[:300]})
        if clip_rule is not None:
            if not problems[False] and checked[False] and has_fin:
                ctx.ok(clip_rule, key_c, where(g.body, g.bi), "for an unfinished query word the record length is clipped to the "
                       "typed length in every region (Q<R gives distance 0)", nontrivial=True)
            else:
                ctx.fail(clip_rule, key_c, where(g.body, g.bi),
                         "the length gate no longer clips the record word to the typed length for an unfinished query: %s"
                         % ("; ".join(problems[False][:3]) or "the query word's `fin` flag is not consulted"),
                         {"witness": "query 'ab' against title 'abcdefgh': length distance 1 - 2/8 rejects the prefix"})


def shape_damlev(ctx, rule, gates):
    """DL gate is dist / max(qslice, rslice, 1) with dist a matrix read"""
    for g in _by_kind(gates).get("damlev", []):
        x = g.x
        ok = x[0] == "binop" and x[1] == "Div" and bool(U.expr_calls(x[2], "DistMatrix::get", "DistMatrix::get_unchecked"))
        den = x[3] if ok else None
        if ok:
            ok = bool(U.expr_calls(den, "cmp::max")) and not U.expr_calls(den, "cmp::min")
        key = "damlev-shape:%s" % g.body.id
        if ok:
            ctx.ok(rule, key, where(g.body, g.bi), "DL gate has the shape dist / max(qslice, rslice, 1)",
                   {"expr": S.show(x, g.body)[:300]}, nontrivial=True)
        else:
            ctx.fail(rule, key, where(g.body, g.bi),
                     "DL gate no longer has the recognised shape dist / max(lengths) (fail closed)",
                     {"expr": S.show(x, g.body)[:300]})


def costs(ctx, rule):
    dist, info = G.cost_constants(ctx)
    if not ctx.require(rule, "DamerauLevenshtein::distance", dist):
        return None, None
    roles = info["roles"]
    ctx.count("cost_constants_direct", len(roles["direct"]))
    ctx.count("cost_constants_per_char", len(roles["per_char"]))
    ctx.floor(rule, "cost_add_sites", len(info["adds"]), 4, dist.where())
    ctx.floor(rule, "per_char_cost_constants", len(roles["per_char"]), 2, dist.where())
    return dist, info


def per_class_cost(ctx, cost_fn_id):
    """class name -> cost constant expression, read from the match on the CharClass discriminant"""
    b = ctx.facts.bodies.get(cost_fn_id)
    if b is None:
        return None
    sw = [x for x in U.enum_switches(ctx, b) if x[1]["id"].endswith("CharClass")]
    if len(sw) != 1:
        return None
    bi, adt, arms, otherwise = sw[0]
    out = {}
    for name, blk in arms.items():
        e = U.arm_ret_expr(ctx, b, blk)
        out[name] = e if (e is not None and U.is_const(e)) else None
    return out


def cost_bounds_C04(ctx, rule, gates):
    dist, info = costs(ctx, rule)
    if dist is None:
        return
    allc = [(v, n, w) for (v, n, w) in info["roles"]["direct"] + info["roles"]["per_char"]]
    dl = _by_kind(gates).get("damlev", [])
    for (v, n, w) in allc:
        name = (n or "literal").split("::")[-1]
        if v is None:
            ctx.fail(rule, "cost-nonconst:%s" % name, w, "edit cost is not a constant: %s (fail closed)" % n)
            continue
        key = "cost<=1:%s" % name
        if v <= 1.0:
            ctx.ok(rule, key, w, "edit cost %s = %r <= 1.0" % (name, v))
        else:
            ctx.fail(rule, key, w, "edit cost %s = %r exceeds 1.0: a single typo can cost more than one edit, "
                     "so a 5-letter word with one typo exceeds the 1/5 budget" % (name, v),
                     {"witness": "title word 'bcdfg', query 'xcdfg'"})
        for g in dl:
            wv = v / 5.0
            key = "dl-accepts:%s/5:%s" % (name, g.body.id)
            if g.accepts(wv):
                ctx.ok(rule, key, where(g.body, g.bi),
                       "DL gate (%s) accepts one edit of cost %s=%r in a 5-letter word (%r)" % (g.describe(), name, v, wv),
                       {"gate": g.describe()}, nontrivial=True)
            else:
                ctx.fail(rule, key, where(g.body, g.bi),
                         "DL gate (%s) rejects one edit of cost %s=%r in a 5-letter word (relative distance %r)"
                         % (g.describe(), name, v, wv),
                         {"witness": "title word 'bcdfg', query 'xcdfg' (first-letter substitution)"})


def cost_bounds_C14(ctx, rule, gates):
    dist, info = costs(ctx, rule)
    if dist is None:
        return
    dl = _by_kind(gates).get("damlev", [])
    found = False
    for fid in info["cost_fns"]:
        pc = per_class_cost(ctx, fid)
        if not pc:
            continue
        c = pc.get("NotAlpha")
        if c is None or not U.is_const(c):
            continue
        found = True
        v = S.const_value(c)
        for g in dl:
            wv = v / 4.0
            key = "dl-accepts:notalpha/4:%s" % g.body.id
            if g.accepts(wv):
                ctx.ok(rule, key, where(g.body, g.bi),
                       "DL gate (%s) accepts the separator inside a joined 3-letter word: cost(NotAlpha)=%r, "
                       "relative %r" % (g.describe(), v, wv), {"per_class": {k: S.const_value(x) if x else None for k, x in pc.items()}},
                       nontrivial=True)
            else:
                ctx.fail(rule, key, where(g.body, g.bi),
                         "DL gate (%s) rejects the separator inside a joined 3-letter word: cost(NotAlpha)=%r gives "
                         "relative distance %r" % (g.describe(), v, wv),
                         {"witness": "title 'abc', query 'a bc'; title 'b-cd', query 'bcd'"})
    if not found:
        ctx.fail(rule, "anchor:notalpha-cost", dist.where(),
                 "could not read the per-class cost of CharClass::NotAlpha from the cost function (fail closed)")


def costs_C16(ctx, rule_a, rule_c):
    dist, info = costs(ctx, rule_a)
    if dist is None:
        return
    roles = info["roles"]
    for (v, n, w) in roles["direct"] + roles["per_char"]:
        name = (n or "literal").split("::")[-1]
        key = "cost-in-{0.5,1}:%s" % name
        if v in (0.5, 1.0):
            ctx.ok(rule_a, key, w, "edit cost %s = %r is 0.5 or 1.0" % (name, v))
        else:
            ctx.fail(rule_a, key, w,
                     "edit cost %s = %r is not 0.5 or 1.0: the distance is then no multiple of 0.5 / not within "
                     "[DL/2, Levenshtein]" % (name, v), {"witness": "distance('a','b') or distance('ab','ba')"})
    # the only zero cost is the equal-character substitution
    sy = ctx.sym(dist)
    zero_ok = 0
    for bi, si, st in dist.iter_stmts():
        if st["k"] != "assign" or st["rv"]["k"] != "use":
            continue
        op = st["rv"]["op"]
        if "const" not in op or op["const"].get("ty") != "f64" or op["const"].get("fstr") not in ("0.0", "-0.0"):
            continue
        if dist.blocks[bi]["cleanup"]:
            continue
        # which switch guards this block?
        cfg = ctx.cfg(dist)
        preds = cfg.pred[bi]
        good = False
        for p in preds:
            t = dist.blocks[p]["term"]
            bt = U.bool_switch_targets(t)
            if bt is None:
                continue
            e = sy.operand(t["discr"])
            if e[0] == "binop" and e[1] == "Eq" and bt[1] == bi:
                ta = dist_char_operand(ctx, dist, t)
                good = ta
        key = "zero-cost:%s" % S.show(sy.dest(st["place"]), dist)
        if good:
            zero_ok += 1
            ctx.ok(rule_a, key, where(dist, bi, st), "zero cost is assigned only on the branch where the two "
                   "characters compare equal", nontrivial=True)
        else:
            ctx.fail(rule_a, key, where(dist, bi, st),
                     "a zero edit cost is assigned on a path not guarded by equality of the two characters: "
                     "distinct words can get distance 0", {"witness": "distance('a','b') == 0"})
    ctx.count("zero_cost_sites", zero_ok)
    # R16.c discounts only lower: per-class costs <= fallback; doubled-letter cost <= default; min / max combiners
    for fid in info["cost_fns"]:
        pc = per_class_cost(ctx, fid)
        if not pc:
            ctx.fail(rule_c, "anchor:per-class-costs", "-", "cannot read per-class costs from %s" % fid)
            continue
        default = pc.get("Any")
        dv = S.const_value(default) if default else None
        if dv is None:
            ctx.fail(rule_c, "anchor:default-cost", "-", "no constant cost for unclassified characters in %s" % fid)
            continue
        for cls, c in sorted(pc.items()):
            v = S.const_value(c) if c else None
            key = "discount<=default:%s" % cls
            if v is not None and v <= dv:
                ctx.ok(rule_c, key, ctx.facts.bodies[fid].where(), "cost(%s)=%r <= default %r" % (cls, v, dv))
            else:
                ctx.fail(rule_c, key, ctx.facts.bodies[fid].where(),
                         "cost(%s)=%r exceeds the default cost %r: a 'discount' raises the distance" % (cls, v, dv))
    # combiners
    for (bi, st, cost) in info["adds"]:
        shape = combiner_shape(ctx, cost)
        key = "combiner:%s" % shape["role"]
        if shape["ok"]:
            ctx.ok(rule_c, key, where(dist, bi, st), shape["msg"], {"expr": S.show(cost, dist)[:240]}, nontrivial=True)
        else:
            ctx.fail(rule_c, key, where(dist, bi, st), shape["msg"], {"expr": S.show(cost, dist)[:240]})
    # fmin / fmax / fmin4 really are min / max
    for b in ctx.facts.fns():
        if b.kind != "fn" or not b.cn.startswith(dist.cn.rsplit("::", 2)[0] + "::"):
            continue
        if b.local_ty(0) != "f64" or b.arg_count < 2:
            continue
        if not all(b.local_ty(i) == "f64" for i in range(1, b.arg_count + 1)):
            continue
        sel = selector_kind(ctx, b)
        want = "min" if "min" in b.id.rsplit("::", 1)[-1] else ("max" if "max" in b.id.rsplit("::", 1)[-1] else None)
        if want is None:
            continue
        key = "selector:%s" % b.id
        if sel == want:
            ctx.ok(rule_c, key, b.where(), "%s selects the %s of its arguments on every branch" % (b.id, want),
                   nontrivial=True)
        else:
            ctx.fail(rule_c, key, b.where(), "%s is named %s but its branches select %s" % (b.id, want, sel))


def dist_char_operand(ctx, dist, t):
    """the Eq compares two `char` values"""
    st_e = None
    # operands of the Eq: look at the defining statement
    d = t["discr"]
    p = d.get("copy") or d.get("move")
    if p is None:
        return False
    defs = dist.defs().get(p["l"], [])
    for _ in range(4):
        # the comparison may be kept in a named local (`let same = ch1 == ch2`) and copied to the switch operand
        if len(defs) == 1 and defs[0][0] == "assign" and defs[0][3]["rv"]["k"] == "use":
            o_ = defs[0][3]["rv"]["op"]
            p_ = o_.get("copy") or o_.get("move")
            if p_ is None or p_["p"]:
                break
            defs = dist.defs().get(p_["l"], [])
        else:
            break
    for kind, bi, si, node in defs:
        if kind == "assign" and node["rv"]["k"] == "binop" and node["rv"]["op"] == "Eq":
            for side in ("a", "b"):
                o = node["rv"][side]
                pl = o.get("copy") or o.get("move")
                if pl is None or pl["ty"] != "char":
                    return False
            return True
    return False


def combiner_shape(ctx, cost):
    """classify a cost operand of the DP recurrence"""
    mins = U.expr_calls(cost, "fmin")
    maxs = U.expr_calls(cost, "fmax")
    if cost[0] == "binop" and cost[1] == "Mul":
        return {"role": "transposition", "ok": True, "msg": "transposition cost is a constant times the span"}
    if cost[0] == "call" and mins and not maxs:
        return {"role": "insert-delete", "ok": True,
                "msg": "insertion/deletion cost combines the per-character cost and the doubled-letter cost through min"}
    alts = U.flatten_phi(cost)
    if len(alts) == 2 and any(S.const_value(a) == 0.0 for a in alts if U.is_const(a)):
        other = [a for a in alts if not (U.is_const(a) and S.const_value(a) == 0.0)]
        if other and other[0][0] == "call" and U.expr_calls(other[0], "fmax") and not U.expr_calls(other[0], "fmin"):
            return {"role": "substitute", "ok": True,
                    "msg": "substitution cost is 0 for equal characters, otherwise the max of the two per-character costs"}
        return {"role": "substitute", "ok": False,
                "msg": "substitution cost no longer combines the two per-character costs through max"}
    return {"role": "unknown", "ok": False,
            "msg": "unrecognised cost combiner in the DP recurrence (fail closed)"}


def selector_kind(ctx, b):
    """'min' / 'max' / 'mixed' for a function that returns one of its f64 arguments by comparison"""
    sy = ctx.sym(b)
    kinds = set()
    for bi, t in b.iter_terms():
        bt = U.bool_switch_targets(t)
        if bt is None:
            continue
        e = sy.operand(t["discr"])
        if e[0] != "binop" or e[1] not in ("Lt", "Le", "Gt", "Ge"):
            continue
        a, c = e[2], e[3]
        # value chosen on the true branch
        def same(u, v):
            return S.norm(u) == S.norm(v) or (u[0] == "phi" and any(S.norm(z) == S.norm(v) for z in U.flatten_phi(u))) \
                or (v[0] == "phi" and any(S.norm(z) == S.norm(u) for z in U.flatten_phi(v)))
        lt = e[1] in ("Lt", "Le")
        found = None
        blk = b.blocks[bt[1]]
        for st in blk["stmts"]:
            if st["k"] == "assign" and st["rv"]["k"] == "use" and st["place"]["ty"] == "f64":
                chosen = sy.operand(st["rv"]["op"])
                da, dc = S.norm(chosen) == S.norm(a), S.norm(chosen) == S.norm(c)
                if da != dc:
                    found = ("min" if lt else "max") if da else ("max" if lt else "min")
                elif same(chosen, a) and not same(chosen, c):
                    found = "min" if lt else "max"
                elif same(chosen, c) and not same(chosen, a):
                    found = "max" if lt else "min"
        if found is None:
            return "unknown"
        kinds.add(found)
    if len(kinds) == 1:
        return kinds.pop()
    return "mixed" if kinds else "unknown"


def last_occurrence_rules(ctx, rule):
    """R16.d: the transposition anchors are *last* occurrences: the map entry of the outer character is overwritten with i1+1
    after the inner loop of every outer iteration, and l2 is set to i2+1 exactly when the two characters are equal"""
    dist, info = G.cost_constants(ctx)
    if dist is None:
        return
    sy = ctx.sym(dist)
    cfg = ctx.cfg(dist)
    from .. import bounds as B
    maps = {}
    for bi, t in dist.calls():
        if U.callee_is(t, "RefCell::borrow_mut") and "HashMap" in ((t.get("callee_args") or [""])[0]):
            maps[B.norm_atom(sy.call_expr(t, bi))] = bi
    if not ctx.floor(rule, "last_occurrence_maps", len(maps), 1, dist.where()):
        return
    for mkey in maps:
        writes = []
        for (bi, t, rk, m) in U.receiver_events(ctx, dist):
            if B.norm_atom(rk) == mkey and m not in ("get", "clear", "deref", "deref_mut", "contains_key", "len", "borrow", "borrow_mut"):
                writes.append((bi, t, m))
        key = "map-overwrite"
        ok = len(writes) == 1 and writes[0][2] == "insert"
        if ok:
            bi, t, m = writes[0]
            k = S.strip_refs(sy.operand(t["args"][1]))
            v = B.lin(sy.operand(t["args"][2]))
            gets = [x for (x, tt, rk, mm) in U.receiver_events(ctx, dist) if B.norm_atom(rk) == mkey and mm == "get"]
            hdr = cfg.loop_header(bi)
            inner = [cfg.inner_header(g) for g in gets]
            ok = len(v.co) == 1 and v.c == 1 and hdr is not None and all(not cfg.path_exists(bi, g, avoid=[hdr]) for g in gets) \
                and cfg.inner_header(bi) == hdr and all(h is not None and h != hdr for h in inner)
            if ok:
                # unconditional within the outer iteration: from the first block of the iteration body every path back to the
                # outer header passes the insert
                body_starts = [x for x in cfg.succ[hdr] if cfg.in_natural_loop(x, hdr)]
                for bs in body_starts:
                    nxt = [y for y in cfg.reachable_from(bs, avoid=[hdr]) if True]
                    # a path bs -> hdr avoiding the insert block?
                    if cfg.path_exists(bs, hdr, avoid=[bi]) and bs != bi:
                        # the path through the `None` arm leaves the loop and never returns to hdr; only count real back paths
                        ok = False
        if ok:
            ctx.ok(rule, key, where(dist, writes[0][0], writes[0][1]), "after the inner loop of each outer iteration the map entry of the current "
                   "character is overwritten with i1 + 1 (last occurrence)", nontrivial=True)
        else:
            ctx.fail(rule, key, where(dist, writes[0][0], writes[0][1]) if writes else dist.where(),
                     "the last-occurrence map is not updated by an unconditional `insert(ch1, i1 + 1)` once per outer iteration (found: %s)"
                     % [m for _, _, m in writes],
                     {"witness": "distance('daat','data') = 1.0 but distance('data','daat') = 0.5: symmetry is lost"})
