"""C01 — never panic / trap / hang; checked = unchecked (structural clauses)."""
from . import r_panic as RP
from . import r_lang as RL
from . import r_token as RK
from . import r_highlight as RH
from . import r_trigram as RT
from . import r_state as RS
from . import C19 as R19
from .common import info


def run(ctx):
    RP.reentrancy(ctx, "R01.a")
    RP.float_derived_unsigned_sub(ctx, "R01.b")
    RL.reductions_never_shrink(ctx, "R01.c")
    RL.reduce_equal_length(ctx, "R01.c")
    RL.norm_window(ctx, "R01.c")
    RK.normalize_first(ctx, "R01.d")
    RP.panic_inventory(ctx, "R01.e")
    RP.unsigned_subtractions(ctx, "R01.f")
    RP.narrow_arithmetic(ctx, "R01.h")
    # debug assertions of the checked build are obligations too
    RH.new_pair_guards(ctx, "R01.g")
    RK.renumber_after_mutation(ctx, "R01.g", floor=1)
    RT.only_store_add_feeds_index(ctx, "R01.g")
    if RP.strict_posting_assertion(ctx):
        RT.generator_sorted_dedup(ctx, "R01.g")
    RS.consistency_group(ctx, "R01.g", include_memo=False, frame=False)
    RS.length_lockstep(ctx, "R01.g")
    from . import C20 as RC20
    RC20.registry_panic_polarity(ctx, "R01.e")
    # unchecked accesses abort in a checked build (debug preconditions) and are UB otherwise
    R19.discharge_sites(ctx)
    from . import r_bridge as RB
    RB.bridge_arithmetic(ctx, "R01.j")
    from . import r_word as RW
    RW.build_mode_cfgs(ctx, "R01.k")
    RW.no_shadowed_defaults(ctx, "R01.k")
    # geometry of derived matches: a wrong length of a split half / joined word is an out-of-range slice later on
    from . import r_join as RJ
    RJ.split_formula(ctx, "R01.i")
    RJ.join_formula(ctx, "R01.i")
    return info("R01.a: lock-order style RefCell analysis over the whole call graph — no call executed while a guard is live can "
                "reach a conflicting borrow of the same cell; R01.b: no unsigned subtraction with a float-derived operand; R01.c: "
                "no reduction shrinks, window >= 1; R01.d: normalize first; R01.e: every reachable explicit panic/unwrap is a "
                "registry-contract check, a debug assertion, or discharged by R01.d/R11.g (Word::dist assumed); R01.f: every "
                "reachable unsigned subtraction is proved non-negative (guards, loop indices, counter induction, std lemmas), is "
                "the padding difference (R01.c), or is a difference of tokeniser geometry fields (assumed by C15); R01.g: the "
                "debug assertions' conditions (new_pair bounds, next_ix = records.len(), monotone postings, renumbered offsets) "
                "are implied by the corresponding structural rules; the bounds obligations of C19 are included because an "
                "out-of-range unchecked access aborts a checked build. Termination, overflow near usize::MAX and slice-index "
                "panics beyond these rules are not decided.")
