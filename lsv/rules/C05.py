"""C05 — highlights never exceed what was typed (one clause, R05.a)."""
from . import r_gates as RG
from . import r_trigram as RT
from . import r_state as RS
from . import r_token as RK
from . import r_rank as RR
from .common import info


def run(ctx):
    gates = RG._gates(ctx, "R05.a")
    if gates is not None:
        RG.gate_presence(ctx, "R05.a", gates, ["slice"])
        for g in RG._by_kind(gates).get("slice", []):
            from ..engine import where
            from .. import sym as S
            key = "slice-tolerance:%s" % g.body.id
            # accept iff |qslice - rslice| OP C ; the property needs: a difference of 2 is rejected
            if not g.accepts(2) and g.accepts(0):
                ctx.ok("R05.a", key, where(g.body, g.bi),
                       "prefix pairs whose lengths differ by 2 or more are rejected (%s)" % g.describe(),
                       {"expr": S.show(g.x, g.body)[:200], "polarity": g.note}, nontrivial=True)
            else:
                ctx.fail("R05.a", key, where(g.body, g.bi),
                         "the prefix-pair tolerance admits record prefixes 2+ characters longer than the typed "
                         "stretch (%s): a highlighted span can exceed the query by more than one character"
                         % g.describe(),
                         {"witness": "query 'abcde' against title 'ab12cde' highlights all 7 characters"})
            # the tolerance check must lie on every path to new_pair (a branch that skips it admits any length difference)
            np_sites = []
            for b2 in ctx.facts.fns():
                for bi2, t2 in b2.calls():
                    if (t2.get("rcn") or "").endswith("WordMatch::new_pair"):
                        c2 = ctx.model.creation.get(b2.id) if b2.kind == "closure" else None
                        np_sites.append((c2[0], c2[1]) if c2 else (b2, bi2))
            for (nb_, nbi_) in np_sites:
                if nb_.id == g.body.id:
                    k3 = "slice-gate-dominates-new_pair:%s" % nb_.id
                    if ctx.cfg(nb_).dominates(g.bi, nbi_):
                        ctx.ok("R05.a", k3, where(nb_, nbi_), "every path to new_pair passes the |qslice - rslice| check", nontrivial=True)
                    else:
                        ctx.fail("R05.a", k3, where(nb_, nbi_), "some path reaches WordMatch::new_pair without the |qslice - rslice| check "
                                 "(the check sits on one branch only)",
                                 {"witness": "finished query word 'adjstmnt ' matches and highlights the 10-letter 'adjustment'"})
            if not g.accepts(1):
                ctx.assumed("R05.a", "tolerance-zero:%s" % g.body.id, where(g.body, g.bi),
                            "tolerance below 1 is stricter than C05 needs (affects C04, not C05)")
    # first clause: candidates are exactly the records with a positive, freshly counted shared-gram count
    RT.positivity_filter(ctx, "R05.b")
    RT.shared_generator(ctx, "R05.b")
    RT.enumerate_indices(ctx, "R05.b")
    RT.counters(ctx, "R05.b", check_len_inc=False)
    RS.reset_before_read(ctx, "R05.b", only_owner="store::trigram_index::TrigramIndex", floor=1)
    RR.hit_filter(ctx, "R05.c")
    # candidate positions of a non-empty query come from the index only (no path that scores records the index did not name)
    RR.position_mapping(ctx, "R05.b")
    # "a query that contains a letter or digit" has at least one word: strip/split classes are what their names say
    RK.class_predicates(ctx, "R05.d")
    RK.sibling_agreement(ctx, "R05.d", "R05.d", stages_too=False, only=("query",))
    from . import C20 as RC20
    RC20.buffer_rules(ctx, "R20.c", None, None)
    # the drawn span is the matched stretch of the word: [word.slice.0 + subslice.0, word.slice.0 + subslice.1) of the word the
    # match belongs to (otherwise the highlight is longer than / elsewhere than what was typed)
    from . import r_highlight as RH
    RH.span_arithmetic(ctx, "R05.e")
    # lower-casing keeps the text length (one character in, one out): spans are computed on the normalised text and drawn on
    # the original
    RK.lower_rules(ctx, "R05.f")
    from . import r_lang as _RL
    _RL.table_rules(ctx, None, None, None, None, None, rule_m="R05.g", rule_w="R05.g")
    from . import r_word as _RW2
    _RW2.no_shadowed_defaults(ctx, "R05.h")
    from . import r_trigram as _RT5
    _RT5.candidate_returns(ctx, "R05.b")
    RK.normalize_assigns_together(ctx, "R05.i")
    return info("R05.i: normalisation assigns `source` and `chars` together (the highlight cuts the source at positions of the normalised text). R05.h: no impl overrides a provided method of the crate's traits (Word::len / dist / is_function, LimitSort). R05.g: every reduction grows by at most one character, table entries are letters / marks, Lang::new starts with empty tables. R20.c: the search runner clears the result buffer on every path. R05.b: hits can only come from index candidates = enumerate positions whose freshly reset counter is > 0, counted "
                "over the shared gram generator; R05.c: records without a word match are filtered out; R05.d: NotAlphaNum / split "
                "classes are the std predicates, so a query with a letter or digit has a word. R05.a: the |qslice - rslice| gate on the path to WordMatch::new_pair is located by data-flow "
                "(integer abs of a difference of the two loop indices, polarity from which branch still reaches "
                "new_pair) and must reject a difference of 2. Only this clause of C05 is decided.")
