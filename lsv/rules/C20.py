"""C20 — registry isolation (R20.a–g)."""
from .. import sym as S
from .. import util as U
from ..effects import NON_CONTENT
from ..engine import where
from . import r_bridge as RB
from .common import info

REG_OPS = {"insert": "insert", "remove": "remove", "entry": "insert", "clear": "remove", "retain": "remove",
           "drain": "remove", "remove_entry": "remove"}


def _registries(ctx):
    """thread-local keys whose payload is RefCell<HashMap<usize, _>>"""
    out = []
    for key, payload in ctx.model.tls_keys.items():
        if payload and payload.startswith("std::cell::RefCell<std::collections::HashMap<usize, "):
            out.append(key)
    return sorted(out)


def _entry_is_checked_insert(ctx, cb, ebi, et):
    """`match map.entry(k) { Occupied(_) => panic!(..), Vacant(slot) => { slot.insert(v); } }`: an insertion that replaces
    nothing — the occupied side never returns.  Returns the VacantEntry::insert call (bi, term) or None."""
    sy = ctx.sym(cb)
    cfg = ctx.cfg(cb)
    E = S.strip_sites(S.strip_refs(sy.call_expr(et, ebi)))

    def uses_entry(x):
        return any(S.strip_sites(S.strip_refs(y)) == E for y in S.walk(x) if isinstance(y, tuple) and y and y[0] == "call")
    vac = None
    for bi, t in cb.calls():
        cn = t.get("cn") or ""
        if not t["args"] or not uses_entry(sy.operand(t["args"][0])):
            continue
        if cn.endswith("VacantEntry::insert") or cn.endswith("VacantEntry::insert_entry"):
            vac = (bi, t)
        elif "Entry" in cn and cn.rsplit("::", 1)[-1] in ("or_insert", "or_insert_with", "or_default", "and_modify", "or_insert_with_key",
                                                         "get_mut", "into_mut", "insert", "insert_entry", "remove", "remove_entry"):
            return None
    if vac is None:
        return None
    rets = [b_ for b_, bl in enumerate(cb.blocks) if bl["term"] and bl["term"]["k"] == "return" and not bl["cleanup"]]
    for sb, bl in enumerate(cb.blocks):
        t = bl["term"]
        if not t or t["k"] != "switch" or bl["cleanup"]:
            continue
        e0 = S.strip_refs(sy.operand(t["discr"]))
        if e0[0] == "discr" and S.strip_sites(S.strip_refs(e0[1])) == E:
            occ = [x for v_, x in t["targets"] if v_ == 0]
            if occ and not any(cfg.path_exists(occ[0], r) or occ[0] == r for r in rets) and cfg.dominates(sb, vac[0]):
                return vac
    return None


def pairing(ctx, rule):
    facts = ctx.facts
    model = ctx.model
    regs = _registries(ctx)
    if not ctx.floor(rule, "registries", len(regs), 2):
        return
    # per root fn: {registry: [(op, key origin, where)]}
    per_root = {}
    for (b, bi, t, key, cid) in model.tls_sites:
        if key not in regs or cid is None:
            continue
        cb = facts.bodies[cid]
        root = ctx.cg.root_of[b.id]
        for (ebi, et, rk, m) in U.receiver_events(ctx, cb):
            if m in REG_OPS and et.get("cn", "").startswith("std::collections::HashMap::"):
                korig = None
                if len(et["args"]) > 1:
                    korig = model.origin(cb, ctx.sym(cb).operand(et["args"][1]))
                m_eff = m
                if m == "entry" and _entry_is_checked_insert(ctx, cb, ebi, et) is not None:
                    m_eff = "insert"            # occupied side panics, vacant side inserts: a plain insertion of a new key
                per_root.setdefault(root, {}).setdefault(key, []).append((REG_OPS[m], korig, where(cb, ebi, et), m_eff))
    n = 0
    for root, d in sorted(per_root.items()):
        ops_by_reg = {k: sorted(set(o for o, _, _, _ in v)) for k, v in d.items()}
        key = "paired:%s" % root
        n += 1
        missing = [r for r in regs if r not in d]
        kinds = set(tuple(v) for v in ops_by_reg.values())
        keys = set(str(ko) for v in d.values() for _, ko, _, _ in v)
        rb = facts.bodies[root]
        if missing:
            ctx.fail(rule, key, rb.where(), "%s %ss an entry of %s but leaves %s untouched: the two registries go out of step"
                     % (root, "/".join(sorted(set(o for v in d.values() for o, _, _, _ in v))), sorted(d), missing),
                     {"witness": "create id; search; destroy id; create id again: the old result buffer / store is still there"},
                     kind="S")
        elif len(kinds) != 1:
            ctx.fail(rule, key, rb.where(), "%s performs different operations on the registries: %s" % (root, ops_by_reg), kind="S")
        elif len(keys) != 1 or not all(ko and ko[0] == "param" and ko[1] == root and ko[2] == 1 for v in d.values() for _, ko, _, _ in v):
            ctx.fail(rule, key, rb.where(), "%s does not use its own id parameter as the key in all registries: %s" % (root, sorted(keys)),
                     kind="S")
        else:
            ctx.ok(rule, key, rb.where(), "%s %ss the entry of its id parameter in all registries (%s)" %
                   (root, "/".join(list(kinds)[0]), ", ".join(r.rsplit("::", 1)[-1] for r in regs)), nontrivial=True, kind="S")
    ctx.floor(rule, "registry_mutators", n, 2)
    # both an inserting and a removing root exist
    allops = set(o for d in per_root.values() for v in d.values() for o, _, _, _ in v)
    if allops >= {"insert", "remove"}:
        ctx.ok(rule, "create-and-destroy", "-", "registries have an inserting and a removing entry point")
    else:
        ctx.fail(rule, "create-and-destroy", "-", "registries lack an inserting or a removing entry point: %s" % sorted(allops))
    # fresh values on insert: a new Store / a new empty Vec (not an object taken from other long-lived state)
    for (b, bi, t, key_, cid) in model.tls_sites:
        if key_ not in regs or cid is None:
            continue
        cb = facts.bodies[cid]
        csy = ctx.sym(cb)
        root = ctx.cg.root_of[b.id]
        for (ebi, et, rk, m) in U.receiver_events(ctx, cb):
            vac_ins = m in ("insert", "insert_entry") and "VacantEntry" in et.get("cn", "") and len(et["args"]) > 1
            if (m == "insert" and et.get("cn", "").startswith("std::collections::HashMap::") and len(et["args"]) > 2) or vac_ins:
                v = S.strip_refs(csy.operand(et["args"][1 if vac_ins else 2]))
                vb = cb
                if v[0] == "call" and v[1].endswith(("FnOnce::call_once", "FnMut::call_mut", "Fn::call")) and v[2] and \
                        U.closure_body(ctx, S.strip_refs(v[2][0])) is not None:
                    # the value is made by a closure literal: judge what the closure returns
                    vb = U.closure_body(ctx, S.strip_refs(v[2][0]))
                    v = S.strip_refs(ctx.sym(vb).local(0)) if hasattr(ctx.sym(vb), "local") else v
                while v[0] == "upd":
                    # a freshly built value with single fields set afterwards (`store.lang = lang`) is still fresh
                    v = S.strip_refs(v[1])
                fresh = (v[0] == "call" and v[1].endswith(("Vec::with_capacity", "Vec::new", "Store::new", "Default::default", "from_elem"))) \
                    or (v[0] == "agg" and v[1] in ("adt", "array", "tuple"))
                if v[0] in ("local", "phi"):
                    # a local built here: all its definitions must be constructor calls
                    l = v[1]
                    ds = vb.defs().get(l, [])
                    fresh = bool(ds) and all((kind == "call" and (node.get("cn") or "").endswith(("Vec::with_capacity", "Vec::new", "Store::new", "Default::default")))
                                             or (kind == "assign" and node["rv"]["k"] == "agg") for kind, _, _, node in ds)
                k2 = "fresh-value:%s:%s" % (root, key_.rsplit("::", 1)[-1])
                if fresh:
                    ctx.ok(rule, k2, where(cb, ebi, et), "%s inserts a freshly constructed value into %s" % (root, key_.rsplit("::", 1)[-1]), kind="S")
                else:
                    ctx.fail(rule, k2, where(cb, ebi, et), "%s inserts a value that is not freshly constructed into %s (%s): a re-created id "
                             "does not start empty" % (root, key_.rsplit("::", 1)[-1], S.show(v, cb)[:80]),
                             {"witness": "search on id A; destroy A; create B; read B's results before any search"}, kind="S")
    for root, d in sorted(per_root.items()):
        for reg_key, v in d.items():
            for (op, ko, wh, m) in v:
                if op == "insert" and m != "insert":
                    ctx.fail(rule, "fresh-insert:%s:%s" % (root, reg_key.rsplit("::", 1)[-1]), wh,
                             "%s uses HashMap::%s on %s: an existing entry (e.g. left over from a destroyed id) is kept instead "
                             "of being replaced by an empty one" % (root, m, reg_key),
                             {"witness": "destroy + create of the same id keeps old contents"}, kind="S")


def same_id(ctx, rule):
    facts = ctx.facts
    model = ctx.model
    reg = model.registry_fns()
    if not ctx.floor(rule, "registry_accessors", len(reg), 2):
        return
    # accessor looks up its own id parameter
    for g, key in sorted(reg.items()):
        gb = facts.bodies[g]
        ok = False
        for (b, bi, t, k, cid) in model.tls_sites:
            if b.id != g or cid is None:
                continue
            cb = facts.bodies[cid]
            csy = ctx.sym(cb)
            for cbi, ct in cb.calls():
                if U.callee_is(ct, "HashMap::get_mut", "HashMap::get"):
                    ko = model.origin(cb, csy.operand(ct["args"][1]))
                    if ko == ("param", g, 1):
                        ok = True
        k2 = "accessor-key:%s" % g
        if ok:
            ctx.ok(rule, k2, gb.where(), "%s looks up %s under its own id parameter" % (g, key), nontrivial=True)
        else:
            ctx.fail(rule, k2, gb.where(), "%s does not look up %s under its own id parameter" % (g, key),
                     {"witness": "operations on one id act on another store"})
    # every API fn addresses all registries with its own first parameter
    users = {}
    for b in facts.fns():
        sy = ctx.sym(b)
        for bi, t in b.calls():
            tgt = t.get("resolved") or t.get("callee")
            if tgt in reg:
                root = ctx.cg.root_of[b.id]
                if root in reg:
                    continue
                users.setdefault(root, []).append((b, bi, t, model.origin(b, sy.operand(t["args"][0])), reg[tgt]))
    for root, sites in sorted(users.items()):
        rb = facts.bodies[root]
        if not rb.exported:
            continue
        bad = [(b, bi, t, o) for (b, bi, t, o, k) in sites if o != ("param", root, 1)]
        key = "own-id:%s" % root
        if not bad:
            ctx.ok(rule, key, rb.where(), "%s addresses %s with its own first parameter at all %d sites" %
                   (root, sorted(set(k.rsplit("::", 1)[-1] for *_, k in sites)), len(sites)), nontrivial=True)
        else:
            b, bi, t, o = bad[0]
            ctx.fail(rule, key, where(b, bi, t), "%s addresses a registry with %s instead of its own id parameter" % (root, o),
                     {"witness": "two stores: an operation on id 2 reads or writes the state of another id"})
    ctx.floor(rule, "api_functions_using_registries", len([r for r in users if facts.bodies[r].exported]), 4)


def _results_closures(ctx):
    """closures that receive a RESULTS buffer: [(root, closure body)]"""
    facts = ctx.facts
    out = []
    for b in facts.fns():
        if b.kind == "closure" and b.arg_count >= 2:
            o = ctx.model.origin(b, ("arg", 2))
            if o[0] == "reg" and "Vec<search::result::SearchResult>" in (ctx.model.tls_keys.get(o[1]) or ""):
                out.append((ctx.cg.root_of[b.id], b, o))
    return out


def buffer_rules(ctx, rule_c, rule_d, rule_f):
    facts = ctx.facts
    rcs = _results_closures(ctx)
    if not ctx.floor(rule_d, "closures_with_result_buffer", len(rcs), 2):
        return
    searchers = []
    for root, b, o in rcs:
        calls_search = bool(U.calls_named(b, "Store>::search", "Store::search")) or any(
            (t.get("rcn") or "").endswith("::search") for _, t in b.calls())
        evs = [(bi, t, m) for (bi, t, rk, m) in U.receiver_events(ctx, b) if rk == ("arg", 2)]
        content = [(bi, t, m) for bi, t, m in evs if m not in NON_CONTENT]
        # replacing the whole vector (`*buffer = Vec::with_capacity(n)`, mem::take / replace / swap) changes its contents too
        sy_ = ctx.sym(b)
        for bi, si, st in b.iter_stmts():
            if st["k"] == "assign" and st["place"]["p"] and not b.blocks[bi]["cleanup"] and \
                    S.strip_refs(sy_.dest(st["place"])) == ("arg", 2):
                content.append((bi, st, "`*buffer = ..`"))
        for bi, t in b.calls():
            if U.callee_is(t, "mem::replace", "mem::take", "mem::swap") and any(S.strip_refs(sy_.operand(a)) == ("arg", 2) for a in t["args"]):
                content.append((bi, t, (t.get("cn") or "").rsplit("::", 1)[-1]))
        if calls_search:
            searchers.append((root, b, evs))
            continue
        key = "buffer-untouched:%s" % root
        if not content:
            ctx.ok(rule_d, key, b.where(), "%s does not change the contents of the result buffer (only %s)" %
                   (root, sorted(set(m for _, _, m in evs)) or "no use"), nontrivial=True)
        else:
            bi, t, m = content[0]
            ctx.fail(rule_d, key, where(b, bi, t), "%s modifies the stored result buffer (`%s`) although it is not a search: the "
                     "buffer no longer holds the hits of the last search on this id" % (root, m),
                     {"witness": "search with 5 hits; %s; read results" % root})
    if not ctx.floor(rule_c, "search_runners", len(searchers), 1):
        return
    for root, b, evs in searchers:
        cfg = ctx.cfg(b)
        sy = ctx.sym(b)
        clears = [bi for bi, t, m in evs if m == "clear"]
        pushes = [(bi, t) for bi, t, m in evs if m in ("push", "extend", "append", "extend_from_slice", "insert")]
        # `iter.for_each(|item| buffer.push(item))` stores every item of `iter`, like `buffer.extend(iter)`
        for fbi, ft in b.calls():
            if not U.callee_is(ft, "Iterator::for_each") or len(ft["args"]) < 2:
                continue
            fcb = U.closure_body(ctx, sy.operand(ft["args"][1]))
            if fcb is None:
                continue
            fsy = ctx.sym(fcb)
            for (ebi, et, rk, m) in U.receiver_events(ctx, fcb):
                if m != "push" or not (isinstance(rk, tuple) and rk and rk[0] == "upvar") or len(et["args"]) < 2:
                    continue
                pb_, pe_ = ctx.model.upvar_expr(fcb, rk[1])
                if pb_ is not None and pb_.id == b.id and S.strip_refs(pe_) == ("arg", 2) and \
                        S.strip_refs(fsy.operand(et["args"][1])) == ("arg", 2) and ctx.cfg(fcb).every_path_passes(0, [ebi]):
                    fake = dict(ft)
                    fake["args"] = [ft["args"][1], ft["args"][0]]
                    pushes.append((fbi, fake))
        key = "clear-before-refill:%s" % root
        # the clear is on every path of the runner (and of the closures around it), not only before the pushes
        always = bool(clears) and cfg.every_path_passes(0, clears)
        outer = ctx.facts.bodies.get(b.parent)
        while always and outer is not None and outer.kind in ("closure", "fn"):
            ocfg = ctx.cfg(outer)
            inner_calls = [bi for bi, t in outer.calls() if any(k == "closure" and p_ == (b.id if outer.id == b.parent else inner_id)
                                                                  for k, p_ in t.get("callables", []))]
            if not inner_calls or not ocfg.every_path_passes(0, inner_calls):
                always = False
            inner_id = outer.id
            if outer.kind == "fn":
                break
            outer = ctx.facts.bodies.get(outer.parent)
        if clears and pushes and all(any(cfg.dominates(c, p) for c in clears) for p, _ in pushes) and not always:
            ctx.fail(rule_c, key + ":some-path-skips-clear", b.where(), "a path through the search runner returns without clearing the "
                     "result buffer (early return / fast path): the buffer keeps the previous search's hits",
                     {"witness": "search with hits; set_limit(id, 0) or clear the store; search again; read results"})
        elif clears and pushes and all(any(cfg.dominates(c, p) for c in clears) for p, _ in pushes):
            ctx.ok(rule_c, key, b.where(), "the result buffer is cleared on every path of the search runner, before it is refilled", nontrivial=True)
        else:
            ctx.fail(rule_c, key, b.where(), "the result buffer is refilled without being cleared first",
                     {"witness": "two searches in a row: the second result list still contains the first one's hits"})
        # what is pushed: the items of Store::search(store, tokenize_query(query param, store.lang).to_ref())
        key = "refill-source:%s" % root
        good = False
        for p, t in pushes:
            v = sy.operand(t["args"][1])
            srch = [c for c in S.walk(v) if isinstance(c, tuple) and c and c[0] == "call" and c[1].endswith("::search")]
            if not srch:
                continue
            s_ = srch[0]
            # every item of the search result is stored: between the search call and the stored value there are only
            # into_iter / next steps (no take / skip / filter)
            nx = [c for c in S.walk(v) if isinstance(c, tuple) and c and c[0] == "call" and c[1].endswith("Iterator::next")]
            whole = False
            for cand in ([nx[0][2][0]] if nx else [v]):
                src0, st0 = U.chain(cand)
                if S.strip_refs(src0) == S.strip_refs(s_) or (isinstance(src0, tuple) and S.norm(src0) == S.norm(s_)):
                    whole = all(x[0] == "into_iter" for x in st0)
            if whole and nx:
                # the copy loop ends only when the search iterator is exhausted: from the `Some` arm every path to return
                # goes back through the `None` arm of the same next()
                nxb = None
                for cbi, ct in b.calls():
                    if (ct.get("cn") or "").endswith("Iterator::next") and S.strip_sites(S.strip_refs(sy.call_expr(ct, cbi))) == S.strip_sites(S.strip_refs(nx[0])):
                        nxb = cbi
                if nxb is not None:
                    tg = b.blocks[nxb]["term"].get("target")
                    sw = b.blocks[tg]["term"] if tg is not None else None
                    if sw is not None and sw["k"] == "switch":
                        some_t = [b_ for v_, b_ in sw["targets"] if v_ == 1]
                        none_t = [b_ for v_, b_ in sw["targets"] if v_ == 0]
                        if some_t and none_t and not cfg.every_path_passes(some_t[0], none_t):
                            whole = False
            if not whole:
                ctx.fail(rule_f, "refill-complete:%s" % root, where(b, p, t), "not every hit returned by Store::search is stored in the result "
                         "buffer (the iterator is cut or filtered between the search and the buffer)",
                         {"witness": "set_limit(20) on a fresh id, 16 matching records: only the first 10 hits are kept"})
                continue
            store_o = ctx.model.origin(b, s_[2][0])
            tq = U.expr_calls(s_[2][1], "tokenize_query")
            if not tq:
                continue
            q_o = ctx.model.origin(b, tq[0][2][0])
            lang_o = ctx.model.origin(b, tq[0][2][1])
            buf_o = ctx.model.origin(b, ("arg", 2))
            if store_o[0] == "reg" and buf_o[0] == "reg" and store_o[2] == buf_o[2] == ("param", root, 1) \
                    and q_o[0] == "param" and q_o[1] == root and lang_o == ("field", store_o, "lang"):
                good = True
        if good:
            ctx.ok(rule_f, key, b.where(), "the buffer of id X receives exactly the hits of store X searched with the query "
                   "parameter tokenised in store X's language", nontrivial=True)
        else:
            ctx.fail(rule_f, key, b.where(), "the refill does not push the hits of `store.search(tokenize_query(query, &store.lang))` "
                     "for the addressed store", {"witness": "results of one id are computed with another store / language"})


def forwarders(ctx, rule, only=None):
    """API functions forward their parameters positionally.  only: restrict to obligation keys starting with one of these prefixes"""
    facts = ctx.facts
    model = ctx.model
    if only is not None:
        class _Sel(object):
            def __init__(self, c): self.c = c
            def __getattr__(self, n): return getattr(self.c, n)
            def ok(self, rule_, key, *a, **k):
                if key.startswith(tuple(only)): return self.c.ok(rule_, key, *a, **k)
            def fail(self, rule_, key, *a, **k):
                if key.startswith(tuple(only)): return self.c.fail(rule_, key, *a, **k)
        ctx = _Sel(ctx)
    # Record::new(id, source, rating, lang) inside add_record
    for b in facts.fns():
        sy = ctx.sym(b)
        for bi, t in b.calls():
            if (t.get("rcn") or "").endswith("Record::new"):
                root = ctx.cg.root_of[b.id]
                rb = facts.bodies[root]
                if not rb.exported or rb.kind != "fn":
                    continue
                os_ = [model.origin(b, sy.operand(a)) for a in t["args"]]
                # parameter names of the root
                pn = {i: rb.names.get(i, "_%d" % i) for i in range(1, rb.arg_count + 1)}
                key = "record-new-args:%s" % root
                # add_record(store_id, record_id, title, rating): positions, not names, identify the parameters
                pos = {"record_id": 2, "title": 3, "rating": 4}
                def is_param(o, name):
                    return o[0] == "param" and o[1] == root and o[2] == pos[name]
                store_of_id = os_[3][0] == "field" and os_[3][2] == "lang" and os_[3][1][0] == "reg" and \
                    os_[3][1][2] == ("param", root, 1)
                ok = is_param(os_[0], "record_id") and is_param(os_[1], "title") and is_param(os_[2], "rating") and store_of_id
                if ok:
                    ctx.ok(rule, key, where(b, bi, t), "Record::new receives (record_id, title, rating, &store.lang) of the addressed store",
                           nontrivial=True)
                else:
                    ctx.fail(rule, key, where(b, bi, t), "Record::new does not receive (record_id, title, rating, &store.lang): %s" % (os_,),
                             {"witness": "hits carry the rating as id / are ranked by id"})
                # and the record is added to the same store
                for bj, t2 in b.calls():
                    if (t2.get("rcn") or "").endswith("Store::add"):
                        so = model.origin(b, sy.operand(t2["args"][0]))
                        k2 = "add-target:%s" % root
                        if so[0] == "reg" and so[2] == ("param", root, 1):
                            ctx.ok(rule, k2, where(b, bj, t2), "the record is added to the store addressed by the id parameter")
                        else:
                            ctx.fail(rule, k2, where(b, bj, t2), "the record is added to %s" % (so,))
    # set_limit: store.limit = limit parameter ; highlight_with: forwards the pair
    for b in facts.fns():
        sy = ctx.sym(b)
        root = ctx.cg.root_of[b.id]
        rb = facts.bodies[root]
        if not rb.exported or rb.kind != "fn":
            continue
        pn = {i: rb.names.get(i, "_%d" % i) for i in range(1, rb.arg_count + 1)}
        for bi, si, st in b.iter_stmts():
            if st["k"] == "assign" and st["place"]["p"] and not b.blocks[bi]["cleanup"]:
                pl = sy.dest(st["place"])
                if pl[0] == "field" and pl[2] == "limit" and len(pl) > 3 and (pl[3] or "").endswith("::Store"):
                    so = model.origin(b, pl[1])
                    vo = model.origin(b, sy.rvalue(st["rv"]))
                    key = "limit-assign:%s" % root
                    if so[0] == "reg" and so[2] == ("param", root, 1) and vo[0] == "param" and vo[1] == root and vo[2] == 2:
                        ctx.ok(rule, key, where(b, bi, st), "%s stores its `limit` parameter in the addressed store" % root, nontrivial=True)
                    else:
                        ctx.fail(rule, key, where(b, bi, st), "%s assigns %s to the limit of %s" % (root, vo, so),
                                 {"witness": "set_limit(id, n) has no effect / sets another value"})
        for bi, t in b.calls():
            if (t.get("rcn") or "").endswith("Store::highlight_with"):
                so = model.origin(b, sy.operand(t["args"][0]))
                vo = model.origin(b, sy.operand(t["args"][1]))
                key = "highlight-forward:%s" % root
                if so[0] == "reg" and so[2] == ("param", root, 1) and vo[0] == "param" and vo[1] == root:
                    ctx.ok(rule, key, where(b, bi, t), "%s forwards its separators to the addressed store" % root, nontrivial=True)
                else:
                    ctx.fail(rule, key, where(b, bi, t), "%s forwards %s to %s" % (root, vo, so))


def create_sets_lang(ctx, rule):
    """create_store builds a fresh Store, sets its language from the parameter and inserts it"""
    facts = ctx.facts
    for b in facts.fns():
        if b.kind != "closure":
            continue
        root = ctx.cg.root_of[b.id]
        sy = ctx.sym(b)
        news = U.calls_named(b, "Store::new")
        if not news:
            continue
        key = "create-lang:%s" % root
        ok = False
        for bi, si, st in b.iter_stmts():
            if st["k"] == "assign" and st["place"]["p"] and not b.blocks[bi]["cleanup"]:
                pl = sy.dest(st["place"])
                if pl[0] == "field" and pl[2] == "lang":
                    vo = ctx.model.origin(b, sy.rvalue(st["rv"]))
                    if vo[0] == "param" and vo[1] == root:
                        ok = True
            # struct-literal form: Store { lang, ..Store::new() }
            if st["k"] == "assign" and st["rv"]["k"] == "agg" and st["rv"].get("did", "").endswith("::Store") and not b.blocks[bi]["cleanup"]:
                e = sy.rvalue(st["rv"])
                d = dict(zip(e[4], e[3]))
                if "lang" in d:
                    vo = ctx.model.origin(b, d["lang"])
                    if vo[0] == "param" and vo[1] == root:
                        ok = True
        if ok:
            ctx.ok(rule, key, b.where(), "%s builds a fresh Store and sets its language from the parameter" % root, nontrivial=True)
        else:
            ctx.fail(rule, key, b.where(), "%s does not set the new store's language from its parameter" % root,
                     {"witness": "a German store tokenises like the default language"})


def run(ctx):
    pairing(ctx, "R20.a")
    same_id(ctx, "R20.b")
    buffer_rules(ctx, "R20.c", "R20.d", "R20.f")
    forwarders(ctx, "R20.g")
    create_sets_lang(ctx, "R20.g")
    api_effects(ctx, "R20.j")
    registry_panic_polarity(ctx, "R20.j")
    from . import r_state as RS
    RS.memo_coherence(ctx, "R20.h")
    # scratch buffers (thread-locals shared by all ids, per-store scratch) must not carry content from one search into the
    # next: otherwise the hits of an id depend on searches on other ids / on its own earlier searches
    RS.reset_before_read(ctx, "R20.i", floor=8)
    RB.forwarders(ctx, "R20.e")
    return info("R20.a: every entry point that inserts into / removes from one thread-local registry does the same to the other "
                "under its own id parameter, inserts replace rather than keep entries; R20.b: the registry accessors look up their "
                "own id parameter and every API function addresses all registries with its own first parameter (cross-body "
                "provenance through closure captures); R20.c: the result buffer is cleared before the refill; R20.d: no entry "
                "point other than the search runner changes buffer contents; R20.f: the buffer of id X receives the hits of "
                "store X for the query parameter tokenised in store X's language; R20.g: add_record / set_limit / "
                "highlight_with / create_store forward their parameters positionally to the addressed store; R20.e: for each of the seven `lang` cfgs the WASM exports call the like-named core function with their parameters in order, get_lang builds the cfg's language, get_result_ids reads the addressed buffer.")


# ---------------------------------------------------------------------------------------------------------------------
# what an API function must DO (round 10: the registry functions of lib.rs are not exercised by the repository's tests,
# so a forwarder that silently stops forwarding passes the suite)

def _consumer_site(ctx, cb):
    """(parent body, block, call terminator) of the call a closure literal is handed to"""
    c = ctx.model.creation.get(cb.id)
    if c is None:
        return None
    pb = c[0]
    psy = ctx.sym(pb)
    for cbi, t in pb.calls():
        if any(U.closure_body(ctx, psy.operand(a)) is cb for a in t["args"]):
            return pb, cbi, t
    return None


def _always_calls_param(ctx, g, k, depth=0):
    """function g calls its k-th parameter (a closure) on every path that returns"""
    if depth > 3:
        return False
    for body in [g] + U.nested_closures(ctx, g):
        sy = ctx.sym(body)
        for bi, t in body.calls():
            if not U.callee_is(t, "FnOnce::call_once", "FnMut::call_mut", "Fn::call") or not t["args"]:
                continue
            f = S.strip_refs(sy.operand(t["args"][0]))
            o = ctx.model.origin(body, f)
            if o == ("param", g.id, k) and always_runs(ctx, body, bi, g, depth + 1):
                return True
    return False


def always_runs(ctx, body, block, root=None, depth=0):
    """every call of the enclosing API function that returns has executed `block` of `body` (body = the function or a closure
    nested in it): the block lies on every path of its body, and a closure body is handed — on every path of ITS parent —
    to `LocalKey::with` or to a function of the crate that calls that parameter on every path"""
    if depth > 5:
        return False
    cfg = ctx.cfg(body)
    if not cfg.every_path_passes(0, [block]):
        return False
    if body.kind != "closure":
        return True
    site = _consumer_site(ctx, body)
    if site is None:
        return False
    pb, cbi, t = site
    tgt = t.get("resolved") or t.get("callee") or ""
    if ctx.facts.canon_is(tgt, "std::thread::LocalKey::with"):
        runs = True
    else:
        gs = [g for g in ctx.facts.fns() if g.id == tgt or g.cn == (t.get("cn") or "")]
        gs = [g for g in gs if g.kind in ("fn", "method")]
        k = None
        psy = ctx.sym(pb)
        for ai, a in enumerate(t["args"]):
            if U.closure_body(ctx, psy.operand(a)) is body:
                k = ai + 1
        runs = bool(gs) and k is not None and _always_calls_param(ctx, gs[0], k, depth + 1)
    return runs and always_runs(ctx, pb, cbi, root, depth + 1)


def api_effects(ctx, rule, which=("add", "markers", "limit")):
    """Each forwarding API function performs its effect on every call: add_record adds the record, highlight_with hands the
    markers to the store, set_limit stores the limit — not only `if it does it, it does it right` (forwarders), but that it
    does it at all, on every path"""
    facts = ctx.facts
    found = {"add": [], "markers": [], "limit": []}
    for b in facts.fns():
        root = ctx.cg.root_of.get(b.id)
        rb = facts.bodies.get(root)
        if rb is None or not rb.exported or rb.kind != "fn" or b.id.startswith("store::") or rb.id.startswith("store::"):
            continue
        sy = ctx.sym(b)
        for bi, t in b.calls():
            if (t.get("rcn") or "").endswith("Store::add"):
                found["add"].append((rb, b, bi, t))
            if (t.get("rcn") or "").endswith("Store::highlight_with"):
                found["markers"].append((rb, b, bi, t))
        for bi, si, st in b.iter_stmts():
            if st["k"] == "assign" and st["place"]["p"] and not b.blocks[bi]["cleanup"]:
                pl = sy.dest(st["place"])
                if pl[0] == "field" and pl[2] == "limit" and len(pl) > 3 and (pl[3] or "").endswith("::Store"):
                    found["limit"].append((rb, b, bi, st))
    what = {"add": ("an API function that adds a record to the addressed store (Store::add)", "records are never stored: every search is empty"),
            "markers": ("an API function that hands the highlight markers to the store (Store::highlight_with)", "configured markers are ignored"),
            "limit": ("an API function that stores the limit in the store", "set_limit has no effect")}
    for k in which:
        key = "api-effect:%s" % k
        if not found[k]:
            ctx.fail(rule, key, "-", "no exported function performs this effect any more: %s (fail closed)" % what[k][0], {"witness": what[k][1]})
            continue
        for rb, b, bi, node in found[k]:
            if always_runs(ctx, b, bi, rb):
                ctx.ok(rule, key + ":" + rb.id, where(b, bi, node), "%s performs it on every call (every path of the closure, which its "
                       "consumer always runs)" % rb.id, nontrivial=True)
            else:
                ctx.fail(rule, key + ":" + rb.id, where(b, bi, node), "%s performs the effect only on some paths (%s)" % (rb.id, what[k][0]),
                         {"witness": what[k][1] + " for some arguments"})


def registry_panic_polarity(ctx, rule):
    """The explicit panics of the registry functions are contract checks with the right polarity: a function that inserts an
    id panics only when the id is already present, every other one only when it is absent.  (A negated test makes
    create_store panic on every fresh id.)"""
    facts = ctx.facts
    n = 0
    regs = set(ctx.model.registries())
    for (b, bi0, t0, key_, cid) in ctx.model.tls_sites:
        if key_ not in regs or cid is None:
            continue
        cb = facts.bodies[cid]
        sy = ctx.sym(cb)
        cfg = ctx.cfg(cb)
        panics = [bi for bi, t in cb.calls() if (t.get("cn") or "").endswith(("begin_panic", "panic_fmt", "panic_display", "panicking::panic"))]
        if not panics:
            continue
        inserts = any((m == "insert" and (t.get("cn") or "").startswith("std::collections::HashMap::")) or
                      (m in ("insert", "insert_entry") and "VacantEntry" in (t.get("cn") or "")) or
                      (m in ("or_insert", "or_insert_with", "or_default") and "Entry" in (t.get("cn") or ""))
                      for (ebi, t, rk, m) in U.receiver_events(ctx, cb))
        root = ctx.cg.root_of.get(b.id, b.id)
        for pb in panics:
            n += 1
            k = "panic-polarity:%s:%s" % (root, key_.rsplit("::", 1)[-1])
            verdict = None
            for sb, bl in enumerate(cb.blocks):
                t = bl["term"]
                if not t or t["k"] != "switch" or bl["cleanup"] or not cfg.dominates(sb, pb):
                    continue
                e0 = S.strip_refs(sy.operand(t["discr"]))
                if e0[0] == "discr":
                    # `match map.get(&id) { Some(_) => .., None => .. }`: variant 1 = present
                    inner = S.strip_refs(e0[1])
                    if inner[0] == "call" and inner[1].endswith(("HashMap::get", "HashMap::get_mut", "HashMap::remove", "HashMap::insert",
                                                                 "HashMap::entry")):
                        pres = 0 if inner[1].endswith("HashMap::entry") else 1        # Entry::Occupied is variant 0, Option::Some is 1
                        some_t = [x for v_, x in t["targets"] if v_ == pres]
                        none_t = [x for v_, x in t["targets"] if v_ == 1 - pres]
                        rest = t.get("otherwise") if isinstance(t.get("otherwise"), int) else None
                        some_t = some_t or ([rest] if rest is not None and none_t else [])
                        none_t = none_t or ([rest] if rest is not None and some_t else [])
                        if some_t and none_t:
                            on_some = any(x == pb or cfg.path_exists(x, pb) for x in some_t)
                            on_none = any(x == pb or cfg.path_exists(x, pb) for x in none_t)
                            if on_some != on_none:
                                verdict = on_some
                    continue
                bt = U.bool_switch_targets(t)
                if not bt:
                    continue
                e = S.strip_refs(sy.operand(t["discr"]))
                neg = False
                while e[0] == "unop" and str(e[1]).lower() == "not":
                    neg = not neg
                    e = S.strip_refs(e[2])
                # presence tests: contains_key(k) / get(k).is_some() / insert-or-remove result is_some(); is_none() is the negation
                if e[0] == "call" and e[1].endswith(("Option::is_none", "Option::is_some")) and e[2]:
                    inner = S.strip_refs(e[2][0])
                    if inner[0] == "call" and inner[1].endswith(("HashMap::get", "HashMap::get_mut", "HashMap::remove", "HashMap::insert",
                                                                 "HashMap::remove_entry", "HashMap::get_key_value")):
                        if e[1].endswith("is_none"):
                            neg = not neg
                        e = ("call", "std::collections::HashMap::contains_key", inner[2])
                if not (e[0] == "call" and e[1].endswith("HashMap::contains_key")):
                    continue
                on_true = cfg.path_exists(bt[1], pb) or bt[1] == pb
                on_false = cfg.path_exists(bt[0], pb) or bt[0] == pb
                if on_true == on_false:
                    continue
                panics_when_present = (on_true != neg)
                verdict = panics_when_present
            if verdict is None:
                ctx.fail(rule, k, where(cb, pb), "%s: the panic is not guarded by a `contains_key` test of the registry (fail closed)" % root)
            elif verdict == inserts:
                ctx.ok(rule, k, where(cb, pb), "%s panics only when the id is %s" % (root, "already present" if inserts else "absent"),
                       nontrivial=True)
            else:
                ctx.fail(rule, k, where(cb, pb), "%s panics when the id is %s: the contract check is inverted" %
                         (root, "absent (every fresh id)" if inserts else "present (every valid id)"),
                         {"witness": "create_store(1) on a fresh registry panics" if inserts else "destroy_store(1) after create_store(1) panics"})
    ctx.floor(rule, "registry_contract_panics", n, 4)
