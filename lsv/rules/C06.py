"""C06 — the hit list is each record's own verdict, cut to the best `limit`."""
from . import r_rank as RR
from . import r_trigram as RT
from . import r_state as RS
from . import C20 as RC20
from .common import info


def run(ctx):
    RR.bounded_selection(ctx, "R06.a")
    RR.limit_provenance(ctx, "R06.a")
    RR.search_chain_shape(ctx, "R06.a", parts=("order", "complete", "score", "filter", "comparator", "result-id", "branch"))
    RT.candidate_cap(ctx, "R06.b", minimum=10)
    RT.positivity_filter(ctx, "R06.b")
    RS.reset_before_read(ctx, "R06.c", floor=12)
    RR.position_mapping(ctx, "R06.d")
    RT.only_store_add_feeds_index(ctx, "R06.d")
    RT.enumerate_indices(ctx, "R06.d")
    RR.per_record_purity(ctx, "R06.e")
    RC20.buffer_rules(ctx, "R20.c", None, "R20.f")
    RC20.forwarders(ctx, "R06.f", only=("limit-assign",))          # set_limit stores its `limit` parameter unchanged
    RR.rating_confinement(ctx, "R06.g", parts=("width",))    # the compared rating is the full-width rating (the pre-selection compares it as usize)
    from . import C20 as _RC20
    _RC20.api_effects(ctx, "R06.h", which=("limit",))
    from . import r_rank as _RR3
    _RR3.hit_from_record(ctx, "R06.i")
    from . import r_word as _RW2
    _RW2.no_shadowed_defaults(ctx, "R06.j")
    from . import r_trigram as _RT5
    _RT5.candidate_returns(ctx, "R06.d")
    return info("R06.j: no impl overrides a provided method of the crate's traits (Word::len / dist / is_function, LimitSort). R06.i: a hit copies id, title and rating of its record unchanged (no narrowing of the rating on the way). R06.h: set_limit really stores the limit on every call (the registry API is not exercised by the repository's tests). R06.a: the bounded selection truncates to its limit field only directly after a sort, finishes with sort -> "
                "truncate(limit) -> reverse before the first pop under the done flag, forwards (x, y) to the user comparator in "
                "order; the limit is self.limit at every selection site; the search pipeline is ixs -> hit -> score -> "
                "hit_matches -> selection(compare_hits) -> {id, highlight}; R06.b: candidate cap size×c with c >= 10 over "
                "count > 0; R06.c: scratch buffers reset before read; R06.d: positions map to self.records[ix], record.ix := "
                "next_ix before indexing, candidates are enumerate indices; R06.e: the per-record path writes no long-lived "
                "state other than RS-covered scratch.")
