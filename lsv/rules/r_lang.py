"""Language-table rules (R11.a–d,g, R01.c, R08.f) — oracle: Python's unicodedata (Unicode's own tables)."""
import unicodedata as ud

from .. import sym as S
from .. import tables as T
from .. import util as U
from ..engine import where


def _lang_tables(ctx, rule):
    """[(ctor, {'compose': [(from,to)], 'reduce': [...], 'pos': [...], 'classes': [...]}, feeds)]"""
    out = []
    ctors = T.constructors(ctx)
    for lc in ctors:
        d = {"compose": [], "reduce": [], "pos": [], "classes": []}
        bad = False
        for (bi, m, table, idx, t) in lc.feeds:
            role = {"add_unicode_composition": "compose", "add_unicode_reduction": "reduce", "add_pos": "pos",
                    "add_char_class": "classes"}.get(m)
            if role is None:
                continue
            if table is None:
                ctx.fail(rule, "table-binding:%s:%s" % (lc.body.id, m), where(lc.body, bi, t),
                         "%s is not fed from a constant table (fail closed)" % m)
                bad = True
                continue
            if isinstance(table, list):
                parts = [T.const_table(ctx, tb_) for tb_ in table]
                rows = None if any(p_ is None for p_ in parts) else [r_ for p_ in parts for r_ in p_]
                table = "+".join(table)
            else:
                rows = T.const_table(ctx, table)
            if rows is None or any(r is None for r in rows):
                ctx.fail(rule, "table-read:%s" % table, where(lc.body, bi, t), "cannot read constant table %s (fail closed)" % table)
                bad = True
                continue
            # order the row fields as the method's parameters
            if any(i is None for i in idx):
                ctx.fail(rule, "table-fields:%s:%s" % (lc.body.id, m), where(lc.body, bi, t),
                         "cannot tell which tuple field feeds which parameter of %s (fail closed)" % m)
                bad = True
                continue
            for r in rows:
                d[role].append(tuple(r[i] for i in idx) + (table,))
        if not bad:
            out.append((lc, d))
    return out


_CASE_PRE = None


def _case_preimages():
    """ch -> single characters c != ch with c.lower() == ch or c.upper() == ch (Unicode simple + full mappings of one char)"""
    global _CASE_PRE
    if _CASE_PRE is None:
        d = {}
        for cp in range(0x30000):
            if 0xD800 <= cp <= 0xDFFF:
                continue
            c = chr(cp)
            for m in (c.lower(), c.upper()):
                if len(m) == 1 and m != c:
                    d.setdefault(m, [])
                    if c not in d[m]:
                        d[m].append(c)
        _CASE_PRE = d
    return _CASE_PRE


def lang_new_empty(ctx, rule):
    """Lang::new starts with empty tables: everything a language folds, composes or classifies comes from the `add_*` calls of
    its constructor, which the table rules read.  A table pre-loaded by the constructor default escapes those rules."""
    fb = None
    for b in ctx.facts.fns():
        if b.cn.endswith("Lang::new"):
            fb = b
    if not ctx.require(rule, "Lang::new", fb):
        return
    e = S.strip_refs(ctx.sym(fb).local(0))
    key = "lang-new-empty"
    if e[0] != "agg":
        ctx.fail(rule, key, fb.where(), "Lang::new no longer builds the language as one struct literal (fail closed)")
        return
    bad = []
    n = 0
    for name, v in zip(e[4], e[3]):
        if not str(name).endswith("_map"):
            continue
        n += 1
        v = S.strip_refs(v)
        if not (v[0] == "call" and v[1].endswith(("Default::default", "HashMap::new", "HashMap::with_capacity", "HashMap::with_hasher",
                                                  "HashMap::with_capacity_and_hasher"))):
            bad.append((name, v))
    if bad or n < 4:
        ctx.fail(rule, key, fb.where(), "Lang::new pre-loads `%s` (%s): entries that no table rule sees" %
                 (bad[0][0] if bad else "?", S.show(bad[0][1], fb)[:80] if bad else "fewer than four table fields found"),
                 {"witness": "every language folds characters its tables do not list (e.g. letter apostrophes to ')"})
    else:
        ctx.ok(rule, key, fb.where(), "Lang::new starts with %d empty tables" % n, nontrivial=True)


def table_rules(ctx, rule_a, rule_b, rule_c, rule_d, rule_g, rule_m="same-as-d", rule_w=None):
    if rule_m == "same-as-d":
        rule_m = rule_d
    lang_new_empty(ctx, rule_d or rule_m or rule_a)
    langs = _lang_tables(ctx, rule_a)
    real = [(lc, d) for lc, d in langs if d["compose"] or d["reduce"]]
    ctx.floor(rule_a, "languages_with_tables", len(real), 5)
    maxlen = norm_window(ctx, rule_g)
    total_c = total_r = 0
    for lc, d in real:
        lname = lc.body.id.rsplit("::", 1)[-1]
        comp = {}
        for (frm, to, tbl) in d["compose"]:
            total_c += 1
            key = "compose:%s:%s" % (lname, "+".join("U+%04X" % ord(c) for c in frm))
            ok = len(frm) == 2 and len(to) == 1 and ud.normalize("NFC", frm) == to and ud.normalize("NFD", to) == frm
            if ok:
                ctx.ok(rule_a, key, lc.body.where(), "%s: %r composes to %r = NFC" % (lname, frm, to))
            else:
                ctx.fail(rule_a, key, lc.body.where(),
                         "%s: composition entry %r -> %r is not (NFD pair -> its NFC letter); NFC(%r) = %r"
                         % (lname, frm, to, frm, ud.normalize("NFC", frm)),
                         {"table": tbl, "witness": "a title stored in decomposed form is returned/matched with a different letter"})
            comp[frm] = to
        red = {}
        for (frm, to, tbl) in d["reduce"]:
            red[frm] = to
        for (frm, to, tbl) in d["reduce"]:
            total_r += 1
            k = "+".join("U+%04X" % ord(c) for c in frm)
            # R11.b composable
            nfd = ud.normalize("NFD", frm)
            if len(frm) == 1 and len(nfd) == 2:
                key = "composable:%s:%s" % (lname, k)
                if comp.get(nfd) == frm:
                    ctx.ok(rule_b, key, lc.body.where(), "%s: decomposed %r is composed back to %r before reduction" % (lname, nfd, frm))
                else:
                    ctx.fail(rule_b, key, lc.body.where(),
                             "%s: reducible letter %r has no composition entry for its decomposed form %r: a query typed "
                             "in decomposed form is never folded" % (lname, frm, nfd),
                             {"table": tbl, "witness": "decomposed spelling of a word with %r finds nothing" % frm})
            # R11.c case closure — including characters that only map TO this key (ẞ lower-cases to ß, but ß upper-cases to SS)
            if len(frm) == 1:
                other0 = frm.upper() if frm.islower() else frm.lower()
                others = ([other0] if other0 != frm and len(other0) == 1 else []) + \
                    [c_ for c_ in _case_preimages().get(frm, []) if c_ != other0]
                for other in others:
                    key = "case-closure:%s:%s" % (lname, k) if other == other0 else \
                        "case-closure:%s:%s:U+%04X" % (lname, k, ord(other))
                    if other in red and red[other].lower() == to.lower():
                        ctx.ok(rule_c, key, lc.body.where(), "%s: %r and its other-case form %r reduce to the same letters" % (lname, frm, other))
                    else:
                        ctx.fail(rule_c, key, lc.body.where(),
                                 "%s: %r reduces to %r but its other-case form %r %s (normalisation runs before lower-casing)"
                                 % (lname, frm, to, other, "reduces to %r" % red[other] if other in red else "is not reduced"),
                                 {"table": tbl, "witness": "the same word typed in the other case is not found"})
            # keys and targets are letters / marks: normalisation runs before the split, so an entry that rewrites a
            # separator or a digit into letters changes which queries have words at all
            bad_k = [c for c in frm if ud.category(c)[0] not in ("L", "M")]
            bad_t = [c for c in to if ud.category(c)[0] not in ("L", "M")]
            key = "letters-only:%s:%s" % (lname, k)
            if bad_k or bad_t:
                ctx.fail(rule_m, key, lc.body.where(), "%s: reduction entry %r -> %r involves %r, which is no letter or combining mark "
                         "(category %s): a separator-only query becomes a word / a word falls apart" %
                         (lname, frm, to, (bad_k or bad_t)[0], ud.category((bad_k or bad_t)[0])),
                         {"table": tbl, "witness": "Spanish store, query '&': treated as the word 'y' instead of an empty query"})
            else:
                ctx.ok(rule_m, key, lc.body.where(), "%s: %r -> %r are letters / marks" % (lname, frm, to))
            # growth: one original character folds to at most two (C05 states highlights up to "the end of an original character
            # that folds to two"); a reduction that adds two or more characters stretches spans beyond what was typed
            if rule_w is not None:
                key = "growth:%s:%s" % (lname, k)
                if len(to) - len(frm) <= 1:
                    ctx.ok(rule_w, key, lc.body.where(), "%s: %r -> %r grows by at most one character" % (lname, frm, to))
                else:
                    ctx.fail(rule_w, key, lc.body.where(), "%s: reduction %r -> %r grows by %d characters" % (lname, frm, to, len(to) - len(frm)),
                             {"table": tbl, "witness": "query 'of' on the title 'o\ufb03ce' highlights four normalised characters for two typed"})
            # R11.d fixpoint
            key = "fixpoint:%s:%s" % (lname, k)
            again = [c for c in to if c in red]
            if not again:
                ctx.ok(rule_d, key, lc.body.where(), "%s: target of %r contains no reducible letter" % (lname, frm))
            else:
                ctx.fail(rule_d, key, lc.body.where(), "%s: reduction target %r of %r still contains the reducible letter(s) %r"
                         % (lname, to, frm, again), {"table": tbl, "witness": "folding the accents of a query changes its hits"})
            # R11.g key length within the window
            key = "key-len:%s:%s" % (lname, k)
            if maxlen is not None:
                if len(frm) <= maxlen:
                    ctx.ok(rule_g, key, lc.body.where(), "%s: key %r fits the normalisation window %d" % (lname, frm, maxlen))
                else:
                    ctx.fail(rule_g, key, lc.body.where(), "%s: reduction key %r is longer than the normalisation window %d and can never match"
                             % (lname, frm, maxlen), {"table": tbl})
        for (frm, to, tbl) in d["compose"]:
            key = "key-len:%s:compose:%s" % (lname, "+".join("U+%04X" % ord(c) for c in frm))
            if maxlen is not None and len(frm) > maxlen:
                ctx.fail(rule_g, key, lc.body.where(), "%s: composition key %r is longer than the normalisation window %d" % (lname, frm, maxlen),
                         {"table": tbl})
    ctx.count("compose_entries", total_c)
    ctx.count("reduce_entries", total_r)
    ctx.floor(rule_a, "compose_entries_total", total_c, 60)
    ctx.floor(rule_d, "reduce_entries_total", total_r, 60)
    return langs


def norm_window(ctx, rule):
    """the constant window size handed to FadingWindows::new by Normalize::new"""
    for b in ctx.facts.fns():
        if b.cn.endswith("Normalize::new"):
            sy = ctx.sym(b)
            for bi, t in b.calls():
                if U.callee_is(t, "FadingWindows::new"):
                    e = sy.operand(t["args"][1])
                    if U.is_const(e):
                        v = S.const_value(e)
                        if v >= 1:
                            ctx.ok(rule, "window>=1", where(b, bi, t), "normalisation window is the constant %d >= 1" % v)
                        else:
                            ctx.fail(rule, "window>=1", where(b, bi, t), "normalisation window is %d: FadingWindows::new panics on any non-empty text" % v,
                                     {"witness": "any non-empty title"})
                        return v
    ctx.fail(rule, "anchor:normalisation-window", "-", "constant window size of Normalize::new not found (fail closed)")
    return None


def reductions_never_shrink(ctx, rule):
    langs = _lang_tables(ctx, rule)
    n = 0
    for lc, d in langs:
        lname = lc.body.id.rsplit("::", 1)[-1]
        for (frm, to, tbl) in d["reduce"]:
            n += 1
            key = "no-shrink:%s:%s" % (lname, "+".join("U+%04X" % ord(c) for c in frm))
            if len(to) >= len(frm):
                ctx.ok(rule, key, lc.body.where(), "%s: %r (%d chars) -> %r (%d chars)" % (lname, frm, len(frm), to, len(to)))
            else:
                ctx.fail(rule, key, lc.body.where(),
                         "%s: reduction %r -> %r shrinks the text: `norm_chunk.len() - word_chunk.len()` underflows in "
                         "Lang::unicode_reduce (trap in a checked build, 2^64-iteration padding loop otherwise)" % (lname, frm, to),
                         {"table": tbl, "witness": "any title containing %r" % frm})
    ctx.floor(rule, "reduce_entries_checked", n, 60)
    # the padding expression really is norm.len() - word.len() with norm the mapped chunk
    for b in ctx.facts.fns():
        if b.cn.endswith("Lang::unicode_reduce"):
            sy = ctx.sym(b)
            subs = []
            for bi, si, st in b.iter_stmts():
                if st["k"] == "assign" and st["rv"]["k"] == "binop" and st["rv"]["op"].startswith("Sub") and not b.blocks[bi]["cleanup"]:
                    a = S.strip_refs(sy.operand(st["rv"]["a"]))
                    c = S.strip_refs(sy.operand(st["rv"]["b"]))
                    if a[0] == "call" and a[1].endswith("::len") and c[0] == "call" and c[1].endswith("::len"):
                        subs.append((bi, st, a, c))
            ctx.count("padding_subtractions", len(subs))
            for (bi, st, a, c) in subs:
                def tuple_field(e):
                    x = S.strip_refs(e[2][0])
                    return str(x[2]) if x[0] == "field" else None
                key = "padding-orientation"
                if tuple_field(a) == "1" and tuple_field(c) == "0":
                    ctx.ok(rule, key, where(b, bi, st), "padding length is len(normalised chunk) - len(original chunk)", nontrivial=True)
                else:
                    ctx.fail(rule, key, where(b, bi, st), "padding length is not len(normalised chunk) - len(original chunk): fields %s - %s"
                             % (tuple_field(a), tuple_field(c)), {"witness": "German title with 'ß' underflows"})


def maps_before_function_words(ctx, rule):
    """R08.f: in each language constructor no add_unicode_* call is reachable from an add_pos call"""
    n = 0
    for lc in T.constructors(ctx):
        pos = [bi for (bi, m, t, idx, _) in lc.feeds if m == "add_pos"]
        maps = [bi for (bi, m, t, idx, _) in lc.feeds if m.startswith("add_unicode_")]
        if not pos or not maps:
            continue
        n += 1
        cfg = ctx.cfg(lc.body)
        key = "maps-before-pos:%s" % lc.body.id
        late = [mb for mb in maps if any(cfg.path_exists(p, mb) for p in pos)]
        if not late:
            ctx.ok(rule, key, lc.body.where(), "composition/reduction maps are completely filled before function words are registered",
                   nontrivial=True)
        else:
            ctx.fail(rule, key, where(lc.body, late[0]),
                     "a composition/reduction entry is added after function words have been registered: add_pos stores the "
                     "reduced spelling using the maps as filled at that moment",
                     {"witness": "German 'für' is registered unreduced; the typed/reduced 'fur' is no function word, so the "
                                 "title 'für' outranks 'fürst' for the query 'für'"})
    ctx.floor(rule, "constructors_with_maps_and_pos", n, 6)


def function_word_tables(ctx, rule):
    """function-word rows go to add_pos as (word, pos) with pos one of the four function classes"""
    langs = _lang_tables(ctx, rule)
    for lc, d in langs:
        lname = lc.body.id.rsplit("::", 1)[-1]
        if not d["pos"]:
            continue
        bad = [r for r in d["pos"] if not (isinstance(r[0], str) and isinstance(r[1], tuple))]
        key = "pos-rows:%s" % lname
        if bad:
            ctx.fail(rule, key, lc.body.where(), "%s: function-word rows are not (word, part-of-speech): %s" % (lname, bad[:2]))
        else:
            ctx.ok(rule, key, lc.body.where(), "%s: %d function words registered as (word, part of speech)" % (lname, len(d["pos"])))


def normalisation_loops(ctx, rule):
    """R11.h: Lang::unicode_compose / unicode_reduce run the Normalize iteration over the whole input with their own map on
    every path to every return (no shortcut), and the add_* methods fill the map the corresponding reader uses"""
    facts = ctx.facts
    want = {"unicode_compose": "compose_map", "unicode_reduce": "reduce_map"}
    writers = {"add_unicode_composition": "compose_map", "add_unicode_reduction": "reduce_map"}
    for name, mapf in sorted(want.items()):
        b = None
        for x in facts.fns():
            if x.cn.endswith("Lang::" + name):
                b = x
        if not ctx.require(rule, "Lang::" + name, b):
            continue
        sy = ctx.sym(b)
        cfg = ctx.cfg(b)
        news = [(bi, t) for bi, t in b.calls() if (t.get("rcn") or "").endswith("Normalize::new")]
        key = "loop-on-every-path:%s" % name
        if not news:
            ctx.fail(rule, key, b.where(), "%s no longer iterates Normalize over its input (fail closed)" % name)
            continue
        nbi, nt = news[0]
        src = S.strip_refs(sy.operand(nt["args"][0]))
        mp = U.field_path(sy.operand(nt["args"][1]))
        nexts = [bi for bi, t in b.calls() if (t.get("resolved") or "").endswith("Normalize<'a> as std::iter::Iterator>::next")]
        hdr = cfg.inner_header(nexts[0]) if nexts else None
        ok_path = hdr is not None and all(cfg.every_path_passes(0, [hdr]) for _ in [0]) and cfg.dominates(nbi, hdr)
        if not ok_path:
            # the iteration handed to a consuming adaptor as a whole: Normalize::new(..).for_each(..) / buffer.extend(Normalize::new(..))
            for cbi, ct in b.calls():
                if U.callee_is(ct, "Iterator::for_each", "Iterator::fold", "Iterator::collect", "Extend::extend", "Vec::extend") and \
                        any(isinstance(x, tuple) and x and x[0] == "call" and x[1].endswith("Normalize::new")
                            for a_ in ct["args"] for x in S.walk(sy.operand(a_))) and \
                        not any(isinstance(x, tuple) and x and x[0] == "call" and x[1].endswith(("Iterator::take", "Iterator::skip",
                                "Iterator::take_while", "Iterator::skip_while", "Iterator::filter", "Iterator::step_by"))
                                for a_ in ct["args"] for x in S.walk(sy.operand(a_))):
                    if cfg.every_path_passes(0, [cbi]) and cfg.dominates(nbi, cbi):
                        ok_path = True
        ok_args = src == ("arg", 2) and bool(mp and mp[0] == "arg" and mp[1] == 1 and mp[2] == [mapf])
        if ok_path and ok_args:
            ctx.ok(rule, key, where(b, nbi, nt), "%s walks Normalize::new(word, &self.%s) on every path to every return" % (name, mapf),
                   nontrivial=True)
        elif not ok_path:
            ctx.fail(rule, key, b.where(), "%s has a path to return that bypasses the normalisation loop (a shortcut / fast path)" % name,
                     {"witness": "French 'rec\\u{327}' (decomposed ç, no other mark) is neither composed nor folded"})
        else:
            ctx.fail(rule, key, where(b, nbi, nt), "%s normalises %s with map %s, expected its `word` argument with self.%s"
                     % (name, S.show(src, b), mp[2] if mp else "?", mapf),
                     {"witness": "accent folding uses the composition table or vice versa"})
    for name, mapf in sorted(writers.items()):
        b = None
        for x in facts.fns():
            if x.cn.endswith("Lang::" + name):
                b = x
        if b is None:
            continue
        key = "writer-map:%s" % name
        ins = [(bi, t, U.field_path(rk)) for (bi, t, rk, m) in U.receiver_events(ctx, b) if m == "insert"]
        sy = ctx.sym(b)
        ok = len(ins) == 1 and ins[0][2] and ins[0][2][2] == [mapf]
        if ok:
            bi, t, _ = ins[0]
            k = S.strip_refs(sy.operand(t["args"][1]))
            v = S.strip_refs(sy.operand(t["args"][2]))
            ok = k[0] == "call" and k[1].endswith("to_vec") and S.strip_refs(k[2][0]) == ("arg", 2) and \
                v[0] == "call" and v[1].endswith("to_vec") and S.strip_refs(v[2][0]) == ("arg", 3)
        if ok:
            ctx.ok(rule, key, b.where(), "%s inserts (from -> to) into self.%s" % (name, mapf), nontrivial=True)
        else:
            ctx.fail(rule, key, b.where(), "%s does not insert (from -> to) into self.%s" % (name, mapf),
                     {"witness": "accents are never folded / composition entries are stored reversed"})


def reduce_equal_length(ctx, rule):
    """R15.m: Lang::unicode_reduce returns two arrays of equal length — the padded original and the reduced text.  Loop
    invariant, checked symbolically: both buffers are cleared before the Normalize loop, and one trip round the loop grows
    both by the same amount (`extend(x)` adds len(x), a `push` inside an inner `for _ in lo..hi` adds hi-lo, `resize(k, _)`
    sets the length to k), assuming they were equal at the loop head."""
    from .. import bounds as B
    facts = ctx.facts
    b = None
    for x in facts.fns():
        if x.cn.endswith("Lang::unicode_reduce"):
            b = x
    if not ctx.require(rule, "Lang::unicode_reduce", b):
        return
    sy = ctx.sym(b)
    cfg = ctx.cfg(b)
    key = "reduce-equal-length"
    # the two buffers: the receivers of the clones (or to_vec) that build the returned pair
    ret = S.strip_refs(sy.local(0))
    pair = None
    for x in S.walk(ret):
        if isinstance(x, tuple) and x and x[0] == "agg" and x[1] == "tuple" and len(x[3]) == 2:
            srcs = []
            for comp in x[3]:
                c = S.strip_refs(comp)
                if c[0] == "call" and c[1].rsplit("::", 1)[-1] in ("clone", "to_vec", "to_owned") and c[2]:
                    srcs.append(B.norm_atom(c[2][0]))
            if len(srcs) == 2:
                pair = srcs
    if pair is None or pair[0] == pair[1]:
        ctx.fail(rule, key, b.where(), "unicode_reduce: the returned pair is not (copy of buffer 1, copy of buffer 2) (fail closed)")
        return
    nexts = [bi for bi, t in b.calls() if (t.get("resolved") or "").endswith("Normalize<'a> as std::iter::Iterator>::next")]
    if not nexts:
        ctx.fail(rule, key, b.where(), "unicode_reduce: no Normalize loop found (fail closed)")
        return
    nbi = nexts[0]
    hdr = cfg.inner_header(nbi)
    tg = b.blocks[nbi]["term"].get("target")
    sw = b.blocks[tg]["term"] if tg is not None else None
    some_t = [x for v, x in sw["targets"] if v == 1] if sw is not None and sw["k"] == "switch" else []
    if hdr is None or not some_t:
        ctx.fail(rule, key, b.where(), "unicode_reduce: shape of the Normalize loop not recognised (fail closed)")
        return
    problems = []
    events = []      # (block, buffer index, kind, term)
    cleared = {0: False, 1: False}
    for (bi, t, rk, m) in U.receiver_events(ctx, b):
        k = B.norm_atom(rk)
        if k not in pair:
            continue
        i = pair.index(k)
        if m in ("deref", "deref_mut", "len", "as_slice", "clone", "to_vec", "index", "iter", "is_empty", "capacity", "reserve", "eq", "ne"):
            continue
        inloop = cfg.in_natural_loop(bi, hdr)
        if not inloop:
            if m == "clear" and cfg.dominates(bi, hdr):
                cleared[i] = True
            elif cfg.dominates(bi, hdr) or not cfg.path_exists(hdr, bi):
                problems.append("buffer %d is changed by `%s` before the loop" % (i + 1, m))
            else:
                problems.append("buffer %d is changed by `%s` after the loop" % (i + 1, m))
            continue
        events.append((bi, i, m, t))
    if not (cleared[0] and cleared[1]):
        problems.append("the two buffers are not both cleared before the loop")
    # order by dominance; every event must lie on every trip round the loop
    import functools

    def before(x, y):
        if x[0] == y[0]:
            return 0
        return -1 if cfg.dominates(x[0], y[0]) else (1 if cfg.dominates(y[0], x[0]) else 0)
    events.sort(key=functools.cmp_to_key(before))
    L = [B.Lin({("L",): 1}), B.Lin({("L",): 1})]

    def cur_len_subst(lin_):
        # occurrences of len(buffer k) in an argument stand for the current symbolic length
        out = B.Lin({}, lin_.c)
        for a, c in lin_.co.items():
            if isinstance(a, tuple) and a and a[0] == "len" and a[1] in pair:
                cur = L[pair.index(a[1])]
                out = out + B.Lin({k_: v_ * c for k_, v_ in cur.co.items()}, cur.c * c)
            else:
                out = out + B.Lin({a: c})
        return out
    for (bi, i, m, t) in events:
        ih = cfg.inner_header(bi)
        args = [sy.operand(a) for a in t["args"]]
        if ih == hdr:
            if cfg.path_exists(some_t[0], nbi, avoid=[bi]) and some_t[0] != bi:
                problems.append("`%s` on buffer %d is skipped on some trip round the loop" % (m, i + 1))
                continue
            if m in ("extend", "extend_from_slice") and len(args) > 1:
                L[i] = L[i] + B.Lin({("len", B.norm_atom(args[1])): 1})
            elif m == "push":
                L[i] = L[i].plus(1)
            elif m == "resize" and len(args) > 1:
                L[i] = cur_len_subst(B.lin(args[1]))
            else:
                problems.append("buffer %d is changed by `%s` inside the loop (not understood)" % (i + 1, m))
        else:
            # inside an inner loop: a push repeated (hi - lo) times for `for _ in lo..hi`
            inner_next = [x for x, t2 in b.calls() if (t2.get("cn") or "").endswith("Iterator::next") and cfg.inner_header(x) == ih]
            amount = None
            if m == "push" and inner_next:
                src, stages = U.chain(sy.operand(b.blocks[inner_next[0]]["term"]["args"][0]))
                s0 = S.strip_refs(src)
                if s0[0] == "agg" and s0[2].endswith("Range::Range") and all(s_[0] == "into_iter" for s_ in stages):
                    amount = B.lin(s0[3][1]) - B.lin(s0[3][0])
            if amount is None and m == "push" and ih is not None:
                # count-down form: `let mut k = D; while k > 0 { push; k -= 1 }` pushes D times — one usize variable that is
                # initialised outside the inner loop, decremented by 1 exactly once per trip, the push on every trip, and the
                # loop left exactly when the variable is 0
                for l_, ds_ in b.defs().items():
                    if b.local_ty(l_) != "usize" or len(ds_) != 2:
                        continue
                    init = [d_ for d_ in ds_ if not cfg.in_natural_loop(d_[1], ih)]
                    dec = [d_ for d_ in ds_ if cfg.in_natural_loop(d_[1], ih)]
                    if len(init) != 1 or len(dec) != 1 or init[0][0] != "assign" or dec[0][0] != "assign":
                        continue
                    dv = B.lin(sy.rvalue(dec[0][3]["rv"]))
                    if not (dv.co == {("var", l_): 1} and dv.c == -1):
                        continue
                    guard_ok = False
                    ht = b.blocks[ih]["term"] if b.blocks[ih]["term"] else None
                    for gb in [ih] + [x_ for x_ in range(len(b.blocks)) if cfg.in_natural_loop(x_, ih)]:
                        gt = b.blocks[gb]["term"]
                        bt_ = U.bool_switch_targets(gt) if gt and gt["k"] == "switch" else None
                        if not bt_:
                            continue
                        ge = S.strip_refs(sy.operand(gt["discr"]))
                        if ge[0] == "binop" and ge[1] in ("Gt", "Ne") and B.lin(ge[2]).co == {("var", l_): 1} and \
                                U.is_const(ge[3]) and S.const_value(ge[3]) == 0:
                            stays, leaves = bt_[1], bt_[0]
                            if cfg.in_natural_loop(stays, ih) and not cfg.in_natural_loop(leaves, ih):
                                guard_ok = True
                    if guard_ok and cfg.in_natural_loop(bi, ih) and cfg.every_path_passes(dec[0][1], [ih]):
                        amount = B.lin(sy.rvalue(init[0][3]["rv"]))
            if amount is None:
                problems.append("buffer %d is changed by `%s` in a nested loop that is not `for _ in lo..hi { push }`" % (i + 1, m))
            else:
                L[i] = L[i] + amount
    d = L[0] - L[1]
    if not problems and not d.co and d.c == 0:
        ctx.ok(rule, key, b.where(), "unicode_reduce keeps its two buffers equally long: cleared before the loop, each trip grows both "
               "by len(replacement) (%d buffer events)" % len(events), nontrivial=True, kind="S")
    else:
        if not problems:
            problems.append("after one trip the lengths differ by %s" % S.show(tuple(sorted((str(k), v) for k, v in d.co.items())) or d.c)[:120])
        ctx.fail(rule, key, b.where(), "unicode_reduce does not keep the padded original and the reduced text equally long: %s"
                 % "; ".join(problems[:3]),
                 {"witness": "German 'Fuß': original [F,u,ß] (3) against normalised [f,u,s,s] (4): the last word's slice is out of "
                             "bounds of the original array"}, kind="S")
