"""Texts shared by all property modules."""
ASSUMPTIONS = [
    "rustc's MIR (nightly, -Zmir-opt-level=0, dev profile with overflow checks and debug assertions) is a faithful "
    "representation of the analysed sources",
    "only lucid-suggest-core's non-test library code is analysed (cfg(test) modules, tests/ and benches/ are clients)",
    "external crates (std, fnv, rust-stemmers) reach the crate's state only through the callbacks handed to them",
    "the obligations are necessary conditions / sound structural clauses of the property as listed in DESIGN.md §5; "
    "the runtime-quantified remainder named there is not decided",
]


def info(explanation, extra=None, assumptions=None, level="other"):
    return {"explanation": explanation, "assumptions": ASSUMPTIONS + (assumptions or []), "extra": extra or {},
            "level": level}


class Only(object):
    """view of a Ctx that records only the obligations whose key starts with one of `prefixes` (a property module takes the
    clauses of a shared rule that are necessary for ITS property and leaves the others to the properties they belong to)"""

    def __init__(self, ctx, prefixes):
        self._c = ctx
        self._p = tuple(prefixes)

    def __getattr__(self, n):
        return getattr(self._c, n)

    def ok(self, rule, key, *a, **k):
        if str(key).startswith(self._p):
            return self._c.ok(rule, key, *a, **k)

    def fail(self, rule, key, *a, **k):
        if str(key).startswith(self._p):
            return self._c.fail(rule, key, *a, **k)

    def floor(self, rule, name, n, minimum, where="-"):
        return self._c.floor(rule if ("floor:" + name).startswith(self._p) else None, name, n, minimum, where)

    def require(self, rule, name, obj, where="-", what=None):
        return self._c.require(rule, name, obj, where, what)
