"""Texts shared by all property modules."""
ASSUMPTIONS = [
    "rustc's MIR (nightly, -Zmir-opt-level=0, dev profile with overflow checks and debug assertions) is a faithful "
    "representation of the analysed sources",
    "only lucid-suggest-core's non-test library code is analysed (cfg(test) modules, tests/ and benches/ are clients)",
    "external crates (std, fnv, rust-stemmers) reach the crate's state only through the callbacks handed to them",
    "the obligations are necessary conditions / sound structural clauses of the property as listed in DESIGN.md §5; "
    "the runtime-quantified remainder named there is not decided",
]


def info(explanation, extra=None, assumptions=None, level="other"):
    return {"explanation": explanation, "assumptions": ASSUMPTIONS + (assumptions or []), "extra": extra or {},
            "level": level}
