"""C11 — case, composition form, accents (tables against Unicode's own data + pipeline order)."""
from . import r_lang as RL
from . import r_token as RK
from .common import info


def run(ctx):
    RL.table_rules(ctx, "R11.a", "R11.b", "R11.c", "R11.d", "R11.g")
    RK.pipeline_order(ctx, "R11.f", edges={("lower", "set_pos"), ("lower", "set_stem"), ("normalize", "lower"),
                                             ("normalize", "split"), ("lower", "set_char_classes")})
    # "prefixing separators never changes the hits": the finished flag and the slices of split/stripped words
    RK.word_shape_rules(ctx, "R11.l")
    RK.normalize_first(ctx, "R11.f")
    RL.normalisation_loops(ctx, "R11.h")
    from . import r_rank as RR
    from . import r_join as RJ
    RR.matcher_reads_normalised_text(ctx, "R11.i")
    RJ.join_formula(ctx, "R11.j")
    RK.lower_rules(ctx, "R11.k")
    RK.text_methods_use_chars(ctx, "R11.k")
    RK.normalize_assigns_together(ctx, "R11.h")
    from . import r_word as RW
    RW.normalize_next_lengths(ctx, "R11.m")
    return info("R11.m: Normalize::next looks up every prefix window[..len], len = window.len()..1, on every path that yields an item (no fast path past the multi-character patterns). "
                "Every language table is bound to its role by data-flow from the constant to the Lang::add_* call that "
                "consumes it and checked entry by entry against Python's unicodedata: composition entries are NFD pair -> NFC "
                "letter (R11.a); every reducible letter with a two-code-point NFD is composable (R11.b); other-case forms are "
                "reduced alike (R11.c); reduction targets contain no reducible letter (R11.d); keys fit the normalisation "
                "window (R11.g); both tokenisers normalise first and lower-case before part-of-speech look-up and stemming "
                "(R11.f). R11.h: compose/reduce walk the whole input with their own map on every path (no fast path), add_* fill the matching map, Text::normalize applies compose then reduce with the right pairing. Interaction with the Snowball stemmers is not decided.",
                assumptions=["Python's unicodedata (Unicode %s) is the oracle for NFC/NFD and case mappings" %
                             __import__("unicodedata").unidata_version])
