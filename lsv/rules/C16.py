"""C16 — laws of the weighted Damerau-Levenshtein distance (structural clauses)."""
from . import r_gates as RG
from . import r_state as RS
from .common import info


def run(ctx):
    RG.costs_C16(ctx, "R16.a", "R16.c")
    RG.last_occurrence_rules(ctx, "R16.d")
    RS.reset_before_read(ctx, "R16.b", only_owner="matching::damlev::DamerauLevenshtein")
    RS.matrix_rules(ctx, "R16.b")
    # characters and positions keep their full width inside the distance code (a `char as u16` key makes distinct letters collide)
    from . import r_panic as RP
    RP.narrow_arithmetic(ctx, "R16.e", only_prefix=("matching::damlev", "<matching::damlev"))
    return info("R16.e: no narrowing cast to / arithmetic on 8- or 16-bit integers inside the distance code. R16.a: every edit-cost constant reaching the DP recurrence is 0.5 or 1.0 and the only zero cost is "
                "assigned under ch1 == ch2; R16.c: per-class costs <= default, doubled-letter cost combined through "
                "min, substitution through max, fmin/fmax/fmin4 select what their names say; R16.d: the last-occurrence map is overwritten with i1+1 once per outer iteration after the inner loop; R16.b: history "
                "independence = reset-before-read of costs1/costs2/last_i1 plus the matrix rules (growth => resize+size+"
                "init together, borders rebuilt on every call, prepare dominates all matrix accesses in distance).")
