"""C01 rules: R01.a re-entrancy, R01.b float-derived unsigned subtraction, R01.e explicit-panic inventory,
R01.f unsigned-subtraction discharge."""
from .. import bounds as B
from .. import refcell
from .. import sym as S
from .. import util as U
from ..bounds import Lin, Fact
from ..engine import where


def _roots(ctx):
    return ctx.cg.api_roots()


def _reach(ctx):
    r = getattr(ctx, "_api_reach", None)
    if r is None:
        r = ctx._api_reach = ctx.cg.reachable(_roots(ctx))
    return r


def _skip_body(b):
    return bool(b.impl_trait and b.impl_trait.startswith("std::fmt"))


def reentrancy(ctx, rule):
    A = refcell.Analysis(ctx)
    sites = [br for brs in A.direct.values() for br in brs]
    cells = set(br.cell for br in sites)
    ctx.floor(rule, "refcell_borrow_sites", len(sites), 8)
    ctx.floor(rule, "refcell_cells", len(cells), 5)
    for br in sites:
        if br.cell[0] == "unknown":
            ctx.fail(rule, "unknown-cell:%s" % br.body.id, where(br.body, br.bi, br.term),
                     "a RefCell is borrowed but its identity cannot be resolved: %s (fail closed)" % br.cell[2], kind="S")
    conf = A.conflicts()
    seen = set()
    for (holder, bi, other, path) in conf:
        key = "reentrant:%s:held-in:%s:borrowed-in:%s" % (holder.cell_name(), holder.body.id, other.body.id)
        if key in seen:
            continue
        seen.add(key)
        ctx.fail(rule, key, where(holder.body, bi),
                 "%s is borrowed %s in %s and still held at this call, which can reach a %s borrow of the same cell in %s: "
                 "BorrowMutError / BorrowError panic" % (holder.cell_name(), "mutably" if holder.mut else "shared", holder.body.id,
                                                         "mutable" if other.mut else "shared", other.body.id),
                 {"path": path, "witness": "any call that takes this path panics with `already borrowed`"}, kind="S")
    held = 0
    for br in sites:
        reg = refcell.held_region(ctx, br.body, br)
        calls = sum(1 for x in reg if br.body.blocks[x]["term"] and br.body.blocks[x]["term"]["k"] == "call")
        held += calls
        key = "no-reentry:%s:%s" % (br.cell_name(), br.body.id)
        if not any(h is br for (h, _, _, _) in conf):
            ctx.ok(rule, key, where(br.body, br.bi, br.term), "%s borrowed %s; none of the %d calls executed while the guard is live can "
                   "reach a conflicting borrow" % (br.cell_name(), "mutably" if br.mut else "shared", calls),
                   nontrivial=calls > 0, kind="S")
    ctx.count("calls_under_a_live_guard", held)


def float_derived_unsigned_sub(ctx, rule):
    n = 0
    for b in ctx.facts.fns():
        if b.id not in _reach(ctx) or _skip_body(b):
            continue
        sy = ctx.sym(b)
        for bi, si, st in b.iter_stmts():
            if st["k"] != "assign" or st["rv"]["k"] != "binop" or not st["rv"]["op"].startswith("Sub") or b.blocks[bi]["cleanup"]:
                continue
            pa = st["rv"]["a"].get("copy") or st["rv"]["a"].get("move")
            ty = (pa or {}).get("ty") or st["rv"]["a"].get("const", {}).get("ty", "")
            if ctx.facts.ty(ty).get("k") != "uint":
                continue
            a = sy.operand(st["rv"]["a"])
            c = sy.operand(st["rv"]["b"])
            fl = [x for x in list(S.walk(a)) + list(S.walk(c)) if isinstance(x, tuple) and x and x[0] == "cast" and x[1] == "FloatToInt"]
            if fl:
                n += 1
                ctx.fail(rule, "float-derived-unsigned-sub:%s" % b.id, where(b, bi, st),
                         "unsigned subtraction `%s - %s` has an operand derived from a float-to-int cast (a typo count): nothing orders "
                         "it against the other operand, so it can underflow" % (S.show(a, b)[:60], S.show(c, b)[:60]),
                         {"witness": "title 't-shirt', query 'tshirt': match length 1 minus 2*ceil(typos)"})
    ctx.count("float_derived_unsigned_subtractions", n)
    if n == 0:
        ctx.ok(rule, "float-derived-unsigned-sub", "-", "no unsigned subtraction reachable from the API has a float-derived operand")


GEOMETRY_FIELDS = ("slice", "subslice", "stem", "offset")


def _is_geometry(e, body=None, ctx=None, depth=0):
    """every atom of the linear form is a tokeniser geometry field (word/match slice, subslice, stem, offset) or a Word::slice() /
    Word::len() call result"""
    l = B.lin(e)
    if not l.co:
        return False
    for a in l.co:
        x = a
        names = []
        while isinstance(x, tuple) and x and x[0] == "field":
            names.append(str(x[2]))
            x = S.strip_refs(x[1])
        if isinstance(x, tuple) and x and x[0] == "call" and x[1].endswith(("Word::slice", "Word::len", "Word::stem", "WordMatch::word_len",
                                                                             "WordMatch::match_len")):
            continue
        if isinstance(x, tuple) and x and x[0] == "call" and x[1].endswith(("cmp::max", "cmp::min")) and depth < 3 and \
                all(_is_geometry(z, body, ctx, depth + 1) for z in x[2]):
            continue
        if isinstance(x, tuple) and x and x[0] == "var" and body is not None and depth < 3:
            ds = body.defs().get(x[1], [])
            sy = ctx.sym(body)
            if ds and all(_is_geometry(sy.rvalue(nd["rv"]) if k == "assign" else sy.call_expr(nd, dbi), body, ctx, depth + 1)
                          for k, dbi, _, nd in ds):
                continue
        if any(n in GEOMETRY_FIELDS for n in names):
            continue
        if isinstance(x, tuple) and x and x[0] in ("upvar", "deref") and body is not None and body.kind == "closure" and depth < 3:
            # a hoisted geometry value captured by the closure
            y = S.strip_refs(x)
            if y[0] == "upvar":
                pb, pe = ctx.model.upvar_expr(body, y[1])
                if pb is not None and _is_geometry(pe, pb, ctx, depth + 1):
                    continue
        return False
    return True


def unsigned_subtractions(ctx, rule):
    facts_db = ctx.facts
    n = proved = geom = table = 0
    from . import C19 as R19
    for b in facts_db.fns():
        if b.id not in _reach(ctx) or _skip_body(b):
            continue
        sy = ctx.sym(b)
        cfg = ctx.cfg(b)
        for bi, t in b.iter_terms():
            if t["k"] != "assert" or t["msg"].get("kind") != "Overflow" or t["msg"].get("op") != "Sub":
                continue
            pa = t["msg"]["a"].get("copy") or t["msg"]["a"].get("move")
            ty = (pa or {}).get("ty") or t["msg"]["a"].get("const", {}).get("ty", "")
            if facts_db.ty(ty).get("k") != "uint":
                continue
            n += 1
            a = sy.operand(t["msg"]["a"])
            c = sy.operand(t["msg"]["b"])
            txt = "%s - %s" % (S.show(B.devar(a), b)[:50], S.show(B.devar(c), b)[:50])
            key = "sub:%s:%s" % (b.id, S.show(B.devar(S.strip_sites(S.strip_refs(c))), b)[:40].replace(" ", ""))
            ob = B.lin(a) - B.lin(c)
            facts = []
            for e in (a, c):
                B.index_facts(e, facts)
                B.calls_len_facts(e, facts)
            B.guard_facts(ctx, b, bi, facts)
            B.emptiness_guard_facts(ctx, b, bi, facts)
            B.counter_facts(ctx, b, facts)
            if b.cn.endswith("DamerauLevenshtein::distance"):
                R19._last_occurrence_facts(ctx, b, bi, [None, a, c], facts, R19_bufs(ctx, b))
            atoms = set(ob.co) | R19._atoms_of(facts)
            for at in list(atoms):
                if isinstance(at, tuple) and at and at[0] == "call" and at[1].endswith("::len") and at[2] and \
                        at[1].startswith(("core::slice", "std::vec::Vec")):
                    la = ("len", S.strip_refs(at[2][0]))
                    facts.append(Fact(Lin({at: 1, la: -1}), "len() call"))
                    facts.append(Fact(Lin({at: -1, la: 1}), "len() call"))
                    atoms.add(la)
            B.structural_len_facts(atoms, facts)
            for at in R19._atoms_of(facts) | atoms:
                facts.append(Fact(Lin({at: 1}), "unsigned"))
            used = B.prove(ob, facts)
            if used is not None:
                proved += 1
                ctx.ok(rule, key, where(b, bi), "`%s` cannot underflow: %s" % (txt, "; ".join(sorted(set(f.why for f in used))) or "constants"),
                       nontrivial=True, kind="S")
                continue
            # padding difference discharged by the table rule R01.c
            la, lc = S.strip_refs(a), S.strip_refs(c)
            if _is_reduce_padding(ctx, b, la, lc):
                table += 1
                ctx.ok(rule, key, where(b, bi), "`%s` is the padding length, non-negative because no reduction shrinks (R01.c)" % txt, kind="S")
                continue
            if _is_geometry(a, b, ctx) and (_is_geometry(c, b, ctx) or (U.is_const(c) and S.const_value(c) in (0, 1))):
                geom += 1
                ctx.assumed(rule, key, where(b, bi), "`%s` is a difference of tokeniser geometry fields; non-negative by the word "
                            "well-formedness that C15 states (slices ordered, words in order, stem >= 1)" % txt)
                continue
            opaque = [x for side in (a, c) for x in S.walk(side) if isinstance(x, tuple) and x and x[0] == "call" and
                      x[1].endswith(("Iterator::find_map", "Iterator::fold", "Option::map", "Option::and_then", "Option::map_or",
                                     "Option::unwrap_or_else", "Iterator::filter_map", "Iterator::reduce")) and
                      any(U.closure_body(ctx, y) is not None for y in x[2])]
            if opaque:
                # the operand is whatever a user closure handed to a combinator returns: outside the language of the prover
                ctx.assumed(rule, key, where(b, bi), "`%s`: an operand is produced by a closure passed to `%s`; the linear prover has no "
                            "model of it (not decided)" % (txt, opaque[0][1].rsplit("::", 2)[-2] + "::" + opaque[0][1].rsplit("::", 1)[-1]))
                continue
            ctx.fail(rule, key, where(b, bi),
                     "unsigned subtraction `%s` in %s is not guarded: no dominating condition, loop invariant or std lemma implies that "
                     "the left operand is at least the right one (overflow trap in a checked build, wrap-around otherwise)" % (txt, b.id),
                     {"facts": sorted(set(f.why for f in facts if f.why != "unsigned"))[:10],
                      "witness": "a call history / input that makes the right operand larger, e.g. set_limit(3); set_limit(5)"}, kind="S")
    ctx.count("unsigned_subtractions", n)
    ctx.count("unsigned_subtractions_proved", proved)
    ctx.count("unsigned_subtractions_geometry_assumed", geom)
    ctx.floor(rule, "unsigned_subtraction_sites", n, 8)


def _is_reduce_padding(ctx, b, la, lc):
    """`len(chunk.1) - len(chunk.0)` for a chunk (pattern, replacement) yielded by Normalize over the *reduction* map: the
    padding length, non-negative because no reduction entry shrinks (table rule R01.c)"""
    if not (la[0] == "call" and la[1].endswith("::len") and lc[0] == "call" and lc[1].endswith("::len") and la[2] and lc[2]):
        return False
    x1, x0 = S.strip_refs(la[2][0]), S.strip_refs(lc[2][0])
    if not (x1[0] == "field" and x0[0] == "field" and str(x1[2]) == "1" and str(x0[2]) == "0"):
        return False
    t1, t0 = S.strip_refs(x1[1]), S.strip_refs(x0[1])
    if S.norm(t1) != S.norm(t0):
        return False

    def over_reduce_map(e):
        for y in S.walk(e):
            if isinstance(y, tuple) and y and y[0] == "call" and y[1].endswith("Normalize::new") and len(y[2]) > 1:
                for z in S.walk(y[2][1]):
                    if isinstance(z, tuple) and z and z[0] == "field" and str(z[2]) == "reduce_map":
                        return True
        return False
    if over_reduce_map(t1):
        return True
    if b.kind == "closure" and t1 == ("arg", 2):
        pb, it = U.closure_param_item(ctx, b)
        if it is not None and over_reduce_map(it):
            return True
    return False


def narrow_arithmetic(ctx, rule, only_prefix=None):
    """(only_prefix: restrict to bodies whose id starts with one of these prefixes)
    R01.h: no addition / multiplication on integer types narrower than 32 bits on the reachable paths (a count of grams,
    words or characters in such a type overflows for ordinary long inputs: panic in a checked build, wrap-around otherwise)"""
    n = 0
    for b in ctx.facts.fns():
        if b.id not in _reach(ctx) or _skip_body(b) or (only_prefix and not b.id.startswith(tuple(only_prefix))):
            continue
        for bi, t in b.iter_terms():
            if t["k"] != "assert" or t["msg"].get("kind") != "Overflow" or t["msg"].get("op") not in ("Add", "Mul", "Sub"):
                continue
            pa = t["msg"]["a"].get("copy") or t["msg"]["a"].get("move")
            ty = (pa or {}).get("ty") or t["msg"]["a"].get("const", {}).get("ty", "")
            if ty in ("u8", "u16", "i8", "i16"):
                n += 1
                ctx.fail(rule, "narrow:%s:%s" % (b.id, t["msg"].get("op")), where(b, bi), "`%s` arithmetic on `%s` in %s: counts of grams / "
                         "words / characters exceed this range for ordinary long inputs" % (t["msg"].get("op"), ty, b.id),
                         {"witness": "a title with 256 distinct grams searched by its full text"}, kind="S")
    # narrowing casts of counts / lengths / ratings to 8 or 16 bits truncate silently
    width = {"u8": 8, "i8": 8, "u16": 16, "i16": 16, "u32": 32, "i32": 32, "u64": 64, "i64": 64, "usize": 64, "isize": 64, "u128": 128, "i128": 128}
    for b in ctx.facts.fns():
        if b.id not in _reach(ctx) or _skip_body(b) or (only_prefix and not b.id.startswith(tuple(only_prefix))):
            continue
        for bi, si, st in b.iter_stmts():
            if st["k"] != "assign" or st["rv"]["k"] != "cast" or b.blocks[bi]["cleanup"] or st["rv"].get("kind") not in ("IntToInt", "FloatToInt"):
                continue
            if (st.get("loc") or {}).get("exp"):
                continue
            op = st["rv"]["op"]
            pl = op.get("copy") or op.get("move")
            src = (pl or {}).get("ty") or op.get("const", {}).get("ty", "")
            dst = st["rv"].get("ty", "")
            if width.get(dst, 64) <= 16 and (width.get(src, 64) > width.get(dst, 64) or st["rv"]["kind"] == "FloatToInt") and "const" not in op:
                # `enum_value as u8`: MIR reads the discriminant (isize) and casts it; for a field-less enum with at most 2^width
                # variants the cast loses nothing
                e_ = S.strip_refs(ctx.sym(b).operand(op))
                if e_[0] == "discr":
                    ety = None
                    for y_ in S.walk(e_[1]):
                        pass
                    # type of the place whose discriminant is read
                    for bj, sj, stj in b.iter_stmts():
                        if stj["k"] == "assign" and stj["rv"]["k"] == "discr" and pl is not None and not stj["place"]["p"] \
                                and stj["place"]["l"] == pl["l"]:
                            ety = stj["rv"]["place"].get("ty")
                    adt = ctx.facts.adts.get(U.adt_of(ctx.facts, ety) or "") if ety else None
                    if adt and adt.get("kind") == "enum" and len(adt["variants"]) <= 2 ** width[dst] and \
                            all(not v.get("fields") for v in adt["variants"]):
                        continue
                n += 1
                ctx.fail(rule, "narrowing-cast:%s:%s->%s" % (b.id, src, dst), where(b, bi, st), "`%s as %s` in %s truncates counts / lengths / "
                         "ratings beyond %d bits silently (a result then depends on integer wrap-around)" % (src, dst, b.id, width[dst]),
                         {"witness": "a value of 256 (65536) or more"}, kind="S")
    if n == 0:
        ctx.ok(rule, "narrow-arithmetic", "-", "no checked arithmetic on, and no narrowing cast to, 8/16-bit integers on the reachable paths", kind="S")


def R19_bufs(ctx, b):
    sy = ctx.sym(b)
    from ..effects import field_chain
    bufs = {}
    for cbi, ct in b.calls():
        if U.callee_is(ct, "RefCell::borrow_mut"):
            key = B.norm_atom(sy.call_expr(ct, cbi))
            ch, _ = field_chain(sy.operand(ct["args"][0]))
            bufs[key] = ch[-1][1] if ch else "?"
    return bufs


PANIC_CALLEES = ("begin_panic", "panic_fmt", "panicking::panic", "Option::unwrap", "Option::expect", "Result::unwrap", "Result::expect",
                 "panic_display", "unreachable_display", "panic_explicit", "panic_nounwind", "panic_str")


def _in_debug_assert(ctx, b, bi):
    cfg = ctx.cfg(b)
    t = b.blocks[bi]["term"]
    if "debug_assert!" in ((t.get("loc") or {}).get("exp") or []):
        return True
    for d in cfg.dom().get(bi, ()):
        dt = b.blocks[d]["term"]
        if d == bi or dt is None or dt["k"] != "switch":
            continue
        exp = (dt.get("loc") or {}).get("exp") or []
        if "debug_assert!" in exp:
            bt = U.bool_switch_targets(dt)
            if bt and U.branch_reaches(cfg, d, bt[1], {bi}) and not U.branch_reaches(cfg, d, bt[0], {bi}):
                return True
    return False


def panic_inventory(ctx, rule):
    facts = ctx.facts
    reg = ctx.model.registry_fns()
    registries = set(ctx.model.tls_keys)
    n = 0
    classes = {}
    for b in facts.fns():
        if b.id not in _reach(ctx) or _skip_body(b):
            continue
        sy = ctx.sym(b)
        for bi, t in b.calls():
            cn = t.get("cn") or ""
            if not any(cn.endswith(x) for x in PANIC_CALLEES):
                continue
            n += 1
            root = ctx.cg.root_of[b.id]
            key = "panic-site:%s:%s" % (b.id, cn.rsplit("::", 1)[-1])
            cls = None
            if _in_debug_assert(ctx, b, bi):
                cls = "debug-assert"
            elif b.id in ctx.model.tls_closure and ctx.model.tls_closure[b.id] in ctx.model.registries():
                # contract violations the property excludes: duplicate create / use of a missing id
                if cn.endswith(("unwrap", "expect")):
                    a = S.strip_refs(sy.operand(t["args"][0]))
                    if a[0] == "call" and a[1].endswith(("HashMap::get_mut", "HashMap::get")):
                        cls = "registry-contract"
                else:
                    cfg = ctx.cfg(b)
                    for d in cfg.dom().get(bi, ()):
                        dt = b.blocks[d]["term"]
                        if dt and dt["k"] == "switch":
                            e = sy.operand(dt["discr"])
                            if any(isinstance(x, tuple) and x and x[0] == "call" and x[1].endswith(("HashMap::contains_key", "HashMap::get", "HashMap::get_mut", "HashMap::remove", "HashMap::insert", "HashMap::entry")) for x in S.walk(e)):
                                cls = "registry-contract"
            elif b.cn.endswith("FadingWindows::new"):
                cls = "discharged:R11.g (window size constant >= 1)"
            elif b.cn.endswith("Text::normalize"):
                cls = "discharged:R01.d (normalize is the first stage)"
            elif b.cn.endswith("tokenization::word::Word::dist"):
                cls = "assumed:words do not overlap (C15)"
            classes[cls] = classes.get(cls, 0) + 1
            if cls is None:
                ctx.fail(rule, key, where(b, bi, t), "reachable explicit panic / unwrap in %s is not covered by any discharge: it is no "
                         "registry-contract check, not inside debug_assert!, and not one of the panics discharged by R01.d / R11.g"
                         % b.id, {"witness": "an input that reaches this call panics"}, kind="S")
            elif cls.startswith("assumed"):
                ctx.assumed(rule, key, where(b, bi, t), "explicit panic %s" % cls)
            else:
                ctx.ok(rule, key, where(b, bi, t), "explicit panic classified: %s" % cls, kind="S")
    ctx.count("explicit_panic_sites", n)
    ctx.floor(rule, "explicit_panic_sites", n, 4)
    ctx.notes.append("panic classes: %s" % classes)


def strict_posting_assertion(ctx):
    """does the index writer still assert (debug_assert!) that posting lists are *strictly* increasing?"""
    from . import r_trigram as RT_
    for b in RT_.posting_writer_bodies(ctx):
        sy = ctx.sym(b)
        for bi, si, st in b.iter_stmts():
            if st["k"] == "assign" and st["rv"]["k"] == "binop" and st["rv"]["op"] in ("Lt", "Gt") and not b.blocks[bi]["cleanup"]:
                e = sy.rvalue(st["rv"])
                if U.expr_calls(e, "last") and _in_debug_assert_stmt(ctx, b, bi):
                    return True
            if st["k"] == "assign" and st["rv"]["k"] == "binop" and st["rv"]["op"] in ("Le", "Ge"):
                pass
        for bi, t in b.calls():
            if (t.get("cn") or "").endswith("PartialOrd::lt") and _in_debug_assert_stmt(ctx, b, bi):
                return True
    return False


def _in_debug_assert_stmt(ctx, b, bi):
    if _in_debug_assert(ctx, b, bi):
        return True
    # the comparison feeds a switch that leads to a debug_assert! panic
    cfg = ctx.cfg(b)
    for x in cfg.reachable_from(bi):
        t = b.blocks[x]["term"]
        if t and t["k"] == "call" and (t.get("cn") or "").endswith("begin_panic") and "debug_assert!" in ((t.get("loc") or {}).get("exp") or []):
            return True
    return False
