"""Trigram generator / index rules (R03.c-f, R06.b, R18.*)."""
from .. import sym as S
from .. import util as U
from .. import comparators as C
from ..engine import where

GRAM_VEC = "std::vec::Vec<[char; 3]>"
GRAM_OPT = "std::option::Option<[char; 3]>"


def _gram_iter_next(ctx):
    return [b for b in ctx.facts.fns() if b.kind == "method" and b.impl_trait == "std::iter::Iterator"
            and b.local_ty(0) == GRAM_OPT]


def _index_bodies(ctx):
    """(add, prepare, producer) of the trigram index, located by type/role"""
    facts = ctx.facts
    producers = [b for b in facts.fns() if b.kind in ("fn", "method") and b.local_ty(0) == GRAM_VEC]
    idx_adt = None
    for a in facts.adts.values():
        if a["kind"] == "struct" and any(
                "HashMap<[char; 3]" in f["ty"] for v in a["variants"] for f in v["fields"]):
            idx_adt = a
    return idx_adt, producers


def gram_iter_width(ctx, rule):
    nexts = _gram_iter_next(ctx)
    if not ctx.floor(rule, "gram_iterators", len(nexts), 1):
        return
    for nb in nexts:
        adt = U.adt_of(ctx.facts, nb.local_ty(1))
        # every construction of the iterator starts with width 1
        n = 0
        for b in ctx.facts.fns():
            sy = ctx.sym(b)
            for bi, si, st in b.iter_stmts():
                if st["k"] == "assign" and st["rv"]["k"] == "agg" and st["rv"].get("did") == adt:
                    n += 1
                    ints = []
                    for o, fname in zip(st["rv"]["ops"], st["rv"].get("fields", [])):
                        e = sy.operand(o)
                        if U.is_const(e) and isinstance(S.const_value(e), int):
                            ints.append((fname, S.const_value(e)))
                        elif ctx.facts.ty(o.get("const", {}).get("ty", "") if "const" in o else (U.strip_ref_ty(ctx.facts, (o.get("copy") or o.get("move"))["ty"]))).get("k") == "uint":
                            ints.append((fname, None))
                    key = "init-width:%s" % b.id
                    if ints and all(v == 1 for _, v in ints):
                        ctx.ok(rule, key, where(b, bi, st), "gram iterator is created with initial width 1 (%s)" % ints,
                               nontrivial=True)
                    else:
                        ctx.fail(rule, key, where(b, bi, st),
                                 "gram iterator is created with initial width %s, not 1: one-letter word starts are "
                                 "not emitted as grams" % ints,
                                 {"witness": "one-letter query shares no gram with any title"})
        ctx.floor(rule, "gram_iterator_constructions", n, 1, nb.where())
        # next(): None only when the remaining word is shorter than the width; width grows by 1 up to the array length
        sy = ctx.sym(nb)
        cfg = ctx.cfg(nb)
        arr_len = ctx.facts.ty("[char; 3]").get("len", 3)
        grow_ok = False
        wrong = []
        for bi, t in nb.iter_terms():
            bt = U.bool_switch_targets(t)
            if bt is None:
                continue
            e = sy.operand(t["discr"])
            if e[0] == "binop" and e[1] in ("Lt", "Le", "Gt", "Ge", "Ne", "Eq") and (U.is_const(e[3]) or U.is_const(e[2])):
                if U.is_const(e[3]):
                    c = S.const_value(e[3])
                    truth = lambda w, op=e[1], c=c: U.cmp_eval(op, w, c)
                else:
                    c = S.const_value(e[2])
                    truth = lambda w, op=e[1], c=c: U.cmp_eval(op, c, w)
                if not isinstance(c, int) or isinstance(c, bool):
                    continue
                # side of the branch on which the width is incremented (either polarity: `if w < 3 {w += 1}` or
                # `if w >= 3 {slide} else {w += 1}`), and the widths for which that side is taken
                for side in (True, False):
                    tb, other = (bt[1], bt[0]) if side else (bt[0], bt[1])
                    inc = False
                    for x in cfg.reachable_from(tb, avoid=[other]):
                        if x in cfg.reachable_from(other, avoid=[tb]):
                            continue
                        for st in nb.blocks[x]["stmts"]:
                            if st["k"] == "assign" and st["rv"]["k"] == "binop" and st["rv"]["op"].startswith("Add") and \
                                    S.const_value(sy.operand(st["rv"]["b"])) == 1:
                                inc = True
                    if not inc:
                        continue
                    grows_for = [w for w in range(1, arr_len + 3) if bool(truth(w)) == side]
                    if len(grows_for) in (0, arr_len + 2):
                        continue            # a test that is the same for every width (`0 <= w` of a range pattern) decides nothing
                    stop = (max(grows_for) + 1) if grows_for else None
                    key = "width-growth:%s" % nb.id
                    if grows_for == list(range(1, arr_len)):
                        grow_ok = True
                        ctx.ok(rule, key, where(nb, bi), "width grows 1,2,…,%d and then the window slides" % arr_len,
                               nontrivial=True)
                    else:
                        wrong.append((bi, stop))
        if not grow_ok and wrong:
            ctx.fail(rule, "width-growth:%s" % nb.id, where(nb, wrong[0][0]),
                     "width stops growing at %s although grams have %d slots" % (wrong[0][1], arr_len))
        elif not grow_ok:
            ctx.require(rule, "width-growth-branch", None, nb.where(),
                        "branch `width < %d => width += 1` not recognised" % arr_len)


def shared_generator(ctx, rule):
    idx_adt, producers = _index_bodies(ctx)
    if not ctx.require(rule, "trigram-index-struct", idx_adt):
        return
    if not ctx.floor(rule, "gram_producers", len(producers), 1):
        return
    facts = ctx.facts
    users = {}
    for b in facts.fns():
        if b.kind == "closure":
            continue
        if b.arg_count >= 1 and U.adt_of(facts, b.local_ty(1)) == idx_adt["id"]:
            used = set()
            direct = False
            for bi, t in b.calls():
                for p in producers:
                    if t.get("rcn") == p.cn or t.get("cn") == p.cn:
                        used.add(p.id)
                if U.callee_is(t, "Trigrams::trigrams") or (t.get("resolved") or "").endswith("TrigramIter::new"):
                    direct = True
            for bi, si, st in b.iter_stmts():
                if st["k"] == "assign" and st["rv"]["k"] == "agg" and st["rv"].get("akind") == "array" \
                        and st["rv"].get("elem") == "char":
                    direct = True
            users[b.id] = (used, direct)
    writers = [bid for bid, (u, d) in users.items() if u or d]
    all_used = set()
    for bid in writers:
        u, d = users[bid]
        all_used |= u
        key = "single-producer:%s" % bid
        if d:
            ctx.fail(rule, key, facts.bodies[bid].where(),
                     "%s builds grams itself instead of using the shared generator: index writer and reader can "
                     "disagree on which grams a word has" % bid,
                     {"witness": "one-letter query shares no gram with the indexed title"})
        else:
            ctx.ok(rule, key, facts.bodies[bid].where(), "%s obtains grams only from %s" % (bid, sorted(u)),
                   nontrivial=True)
    ctx.floor(rule, "gram_consumers_in_index", len(writers), 2, "-")
    if len(all_used) > 1:
        ctx.fail(rule, "one-generator", "-", "index methods use different gram generators: %s" % sorted(all_used))
    elif all_used:
        ctx.ok(rule, "one-generator", "-", "all index methods share the generator %s" % sorted(all_used))


def _prepare_chain(ctx, rule):
    idx_adt, producers = _index_bodies(ctx)
    if idx_adt is None:
        ctx.require(rule, "trigram-index-struct", None)
        return None
    facts = ctx.facts
    cands = [b for b in facts.fns() if b.kind == "method" and b.arg_count >= 1
             and U.adt_of(facts, b.local_ty(1)) == idx_adt["id"] and b.local_ty(0) == "std::vec::Vec<usize>"]
    if len(cands) != 1:
        ctx.require(rule, "index-candidate-method", None, what="method of the index returning Vec<usize>: %d found" % len(cands))
        return None
    b = cands[0]
    sy = ctx.sym(b)
    alts = U.flatten_phi(sy.local(0))
    chains = []
    for a in alts:
        src, stages = U.chain(a)
        if stages:
            chains.append((a, src, stages))
    if len(chains) != 1:
        ctx.require(rule, "candidate-chain", None, b.where(), "iterator chain producing the candidates")
        return None
    return b, idx_adt, chains[0]


def candidate_returns(ctx, rule):
    """the index's candidate method returns the counting chain or — for the query without words — an empty vector, nothing
    else: no shortcut hands out postings uncounted and uncut"""
    r = _prepare_chain(ctx, rule)
    if r is None:
        return
    b, idx_adt, chain0 = r
    alts = U.flatten_phi(ctx.sym(b).local(0))
    chains = [chain0]
    # every other way out returns the empty vector (the query without words): no shortcut hands out postings uncounted / uncut
    others = [a for a in alts if a is not chain0[0]]
    bad = [a for a in others if not (S.strip_refs(a)[0] == "call" and S.strip_refs(a)[1].endswith(("Vec::new", "Vec::with_capacity", "Default::default")))
           and not (S.strip_refs(a)[0] == "call" and S.strip_refs(a)[1].endswith("from_elem") and False)]
    if bad:
        ctx.fail(rule, "candidate-returns:%s" % b.id, b.where(), "the candidate method also returns `%s`, bypassing the counting chain and its cut"
                 % S.show(bad[0], b)[:100], {"witness": "a one-letter query lists every record sharing the gram, not the best 10 x size"})
    else:
        ctx.ok(rule, "candidate-returns:%s" % b.id, b.where(), "the candidate method returns the counting chain or an empty vector")


def candidate_cap(ctx, rule, minimum=10, exact=None):
    r = _prepare_chain(ctx, rule)
    if r is None:
        return
    b, idx_adt, (expr, src, stages) = r
    ls = [s for s in stages if s[0].startswith("limit_sort")]
    if not ctx.require(rule, "limit_sort-stage", ls, b.where()):
        return
    lim = ls[0][1][0]
    ok = False
    c = None
    if lim[0] == "binop" and lim[1] == "Mul":
        a, d = lim[2], lim[3]
        if U.is_const(a):
            a, d = d, a
        if U.is_const(d) and a[0] == "arg":
            c = S.const_value(d)
            ok = True
    elif lim[0] == "arg":
        c = 1
        ok = True
    key = "cap:%s" % b.id
    if not ok:
        ctx.fail(rule, key, b.where(), "candidate cap is not `size × constant`: %s (fail closed)" % S.show(lim, b))
        return
    good = (c == exact) if exact is not None else (c >= minimum)
    want = ("= %d" % exact) if exact is not None else (">= %d" % minimum)
    if good:
        ctx.ok(rule, key, b.where(), "candidate cap is size × %d (%s required)" % (c, want),
               {"expr": S.show(lim, b)}, nontrivial=True)
    else:
        ctx.fail(rule, key, b.where(), "candidate cap is size × %d but the property needs %s" % (c, want),
                 {"witness": "a store with more than size×%d but at most size×10 matching records loses hits" % c})


def positivity_filter(ctx, rule):
    r = _prepare_chain(ctx, rule)
    if r is None:
        return
    b, idx_adt, (expr, src, stages) = r
    names = [s[0] for s in stages]
    fs = [s for s in stages if s[0] == "filter"]
    if not ctx.require(rule, "filter-stage", fs, b.where(), "candidate stream is not filtered at all"):
        return
    # filter must come before limit_sort
    if "limit_sort_unstable" in names or "limit_sort" in names:
        li = min(i for i, n in enumerate(names) if n.startswith("limit_sort"))
        fi = names.index("filter")
        if fi > li:
            ctx.fail(rule, "filter-before-cap:%s" % b.id, b.where(), "positivity filter is applied after the cap")
    fb = U.closure_body(ctx, fs[0][1][0])
    if not ctx.require(rule, "filter-closure", fb, b.where()):
        return
    e = ctx.sym(fb).local(0)
    key = "count>0:%s" % b.id
    if e[0] == "binop" and e[1] in U.CMP_OPS:
        op, x, c = e[1], e[2], e[3]
        if U.is_const(x) and not U.is_const(c):
            x, c, op = c, x, U.FLIP[op]
        if U.is_const(c):
            cv = S.const_value(c)
            vals = [U.cmp_eval(op, v, cv) for v in (0, 1, 2, 10 ** 6)]
            if vals == [False, True, True, True]:
                ctx.ok(rule, key, fb.where(), "candidates are kept iff their shared-gram count is positive (%s %s %s)"
                       % (S.show(x, fb), U.OPSTR[op], cv), nontrivial=True)
            else:
                ctx.fail(rule, key, fb.where(),
                         "candidate filter is `count %s %s`, not `count > 0`" % (U.OPSTR[op], cv),
                         {"witness": "records sharing exactly one gram are dropped / records sharing none are listed"})
            return
    ctx.fail(rule, key, fb.where(), "candidate filter is not a comparison of the count with a constant: %s (fail closed)"
             % S.show(e, fb)[:120])


def cap_comparator(ctx, rule):
    r = _prepare_chain(ctx, rule)
    if r is None:
        return
    b, idx_adt, (expr, src, stages) = r
    ls = [s for s in stages if s[0].startswith("limit_sort")]
    if not ls:
        return
    cb = U.closure_body(ctx, ls[0][1][1])
    if not ctx.require(rule, "cap-comparator", cb, b.where()):
        return
    res = C.analyse(ctx, cb)
    key = "count-desc:%s" % b.id
    if res["malformed"]:
        ctx.fail(rule, key, cb.where(), "candidate comparator is malformed: %s" % "; ".join(res["malformed"]))
    elif res["keys"] == [("1", "Desc")]:
        ctx.ok(rule, key, cb.where(), "candidates are ordered by shared-gram count, descending", nontrivial=True)
    else:
        ctx.fail(rule, key, cb.where(), "candidate comparator keys are %s, expected [(count, Desc)]" % res["keys"],
                 {"witness": "with more than 10×size sharing records the ones sharing fewest grams are kept"})


def enumerate_indices(ctx, rule):
    r = _prepare_chain(ctx, rule)
    if r is None:
        return
    b, idx_adt, (expr, src, stages) = r
    names = [s[0] for s in stages]
    key = "enumerate:%s" % b.id
    fp = U.field_path(src)
    ok = names[:2] == ["iter", "enumerate"] and fp is not None
    if ok:
        ctx.ok(rule, key, b.where(), "candidate positions are the enumerate indices over the counter vector (%s)"
               % ".".join(fp[2]), {"stages": names}, nontrivial=True)
    else:
        ctx.fail(rule, key, b.where(), "candidate stream is not `counts.iter().enumerate()…`: %s" % names)
        return
    ms = [s for s in stages if s[0] == "map"]
    mb = U.closure_body(ctx, ms[-1][1][0]) if ms else None
    key = "map-index:%s" % b.id
    if mb is None:
        ctx.fail(rule, key, b.where(), "no final map selecting the position")
        return
    e = S.strip_refs(ctx.sym(mb).local(0))
    if e[0] == "field" and str(e[2]) == "0" and S.strip_refs(e[1]) == ("arg", 2):
        ctx.ok(rule, key, mb.where(), "the final map returns the enumerate index (tuple field 0)", nontrivial=True)
    else:
        ctx.fail(rule, key, mb.where(), "the final map does not return the enumerate index: %s" % S.show(e, mb),
                 {"witness": "candidate list contains counts instead of record positions"})
    # the counter vector read here is the one incremented and the one reset
    return fp


def generator_sorted_dedup(ctx, rule):
    idx_adt, producers = _index_bodies(ctx)
    if not ctx.floor(rule, "gram_producers", len(producers), 1):
        return
    for p in producers:
        sy = ctx.sym(p)
        cfg = ctx.cfg(p)
        ret = S.strip_refs(sy.local(0))
        evs = [(bi, t, m) for (bi, t, r, m) in U.receiver_events(ctx, p) if r == ret]
        sorts = [bi for bi, t, m in evs if m.startswith("sort")]
        dedups = [bi for bi, t, m in evs if m.startswith("dedup")]
        muts = [bi for bi, t, m in evs if m in ("push", "extend", "insert", "append", "extend_from_slice")]
        key = "sort-dedup:%s" % p.id
        good = False
        for d in dedups:
            if not cfg.every_path_passes(0, [d]):
                continue
            if not any(cfg.dominates(s_, d) for s_ in sorts):
                continue
            # no sort/mutation after the dedup, and no mutation between the dominating sort and the dedup
            after = cfg.reachable_from(d) - {d}
            if any(m in after for m in muts):
                continue
            sdom = [s_ for s_ in sorts if cfg.dominates(s_, d)]
            between_bad = False
            for s_ in sdom:
                mid = cfg.reachable_from(s_) - {s_}
                if any(m in mid and cfg.path_exists(m, d) for m in muts):
                    between_bad = True
            if sdom and not between_bad:
                good = True
        if good:
            ctx.ok(rule, key, p.where(), "gram set is sorted and de-duplicated on every path to return, with no later "
                   "insertion", {"events": [m for _, _, m in evs]}, nontrivial=True)
        else:
            ctx.fail(rule, key, p.where(),
                     "the gram generator can return unsorted or duplicated grams (events: %s)" % [m for _, _, m in evs],
                     {"witness": "title 'aaaa': the posting list of 'aaa' receives the record twice; shared-gram "
                                 "counts are inflated"})


def counters(ctx, rule, need_clear=True, check_len_inc=True):
    """counter vector: reset and resized to the record count before counting; record count +1 per add"""
    r = _prepare_chain(ctx, rule)
    if r is None:
        return
    b, idx_adt, (expr, src, stages) = r
    fp = U.field_path(src)
    if fp is None:
        ctx.require(rule, "counter-field", None, b.where())
        return
    cfield = fp[2][-1]
    sy = ctx.sym(b)
    cfg = ctx.cfg(b)
    evs = []
    for (bi, t, rk, m) in U.receiver_events(ctx, b):
        p = U.field_path(rk)
        if p is not None and p[2] and p[2][-1] == cfield:
            evs.append((bi, t, m))
    clears = [bi for bi, t, m in evs if m in ("clear",)]
    # zeroing in place (`fill(0)`, through the slice view) is as good as clearing before the resize with zeros
    for bi, t in b.calls():
        if U.callee_is(t, "<impl [T]>::fill") and len(t["args"]) > 1 and S.const_value(S.strip_refs(sy.operand(t["args"][1]))) == 0:
            p_ = U.field_path(S.strip_refs(sy.operand(t["args"][0])))
            if p_ is not None and p_[2] and p_[2][-1] == cfield:
                clears.append(bi)
    resizes = [(bi, t) for bi, t, m in evs if m == "resize"]
    unchecked = [bi for bi, t, m in evs if m.startswith("get_unchecked")]
    # also find unchecked accesses through deref_mut of the field
    for bi, t in b.calls():
        if U.callee_is(t, "get_unchecked_mut", "get_unchecked"):
            rk = S.strip_refs(sy.operand(t["args"][0]))
            p = U.field_path(rk)
            if p is not None and p[2] and p[2][-1] == cfield and bi not in unchecked:
                unchecked.append(bi)
    key = "resize-to-len:%s" % b.id
    ok = False
    for bi, t in resizes:
        n = S.strip_refs(sy.operand(t["args"][1]))
        z = sy.operand(t["args"][2])
        npth = U.field_path(n)
        if npth is not None and npth[0] == "arg" and npth[1] == 1 and S.const_value(z) == 0 \
                and all(cfg.dominates(bi, u) for u in unchecked) and (not need_clear or any(cfg.dominates(c, bi) for c in clears)):
            ok = True
            lenfield = npth[2][-1]
    if not ok:
        # `*counts = vec![0; self.len]`: a fresh zeroed vector of the record count (clear and resize in one)
        for bi, si, st in b.iter_stmts():
            if st["k"] != "assign" or not st["place"]["p"] or b.blocks[bi]["cleanup"]:
                continue
            pth = U.field_path(sy.dest(st["place"]))
            if pth is None or not pth[2] or pth[2][-1] != cfield:
                continue
            v = S.strip_refs(sy.rvalue(st["rv"]))
            if v[0] == "call" and v[1].endswith("from_elem") and len(v[2]) >= 2 and S.const_value(S.strip_refs(v[2][0])) == 0:
                npth = U.field_path(v[2][1])
                if npth is not None and npth[0] == "arg" and npth[1] == 1 and all(cfg.dominates(bi, u) for u in unchecked):
                    ok = True
                    lenfield = npth[2][-1]
    if ok and not need_clear:
        ctx.ok(rule, key, b.where(), "counters are resized to the index's record count (field '%s') before any unchecked access" % lenfield,
               nontrivial=True)
    elif ok:
        ctx.ok(rule, key, b.where(), "counters are cleared, then resized with zeros to the index's record count "
               "(field '%s') before any unchecked access" % lenfield, nontrivial=True)
    else:
        ctx.fail(rule, key, b.where(),
                 "counter vector is not `clear(); resize(self.<record count>, 0)` before the unchecked increments",
                 {"witness": "counts of the previous query survive / postings index past the end of the vector"})
        return
    if not check_len_inc:
        return
    # record count incremented exactly once per add, in the method that writes postings
    adders = []
    for m in ctx.facts.fns():
        if m.kind != "method" or m.arg_count < 1 or U.adt_of(ctx.facts, m.local_ty(1)) != idx_adt["id"]:
            continue
        msy = ctx.sym(m)
        incs = []
        for bi, si, st in m.iter_stmts():
            if st["k"] != "assign" or m.blocks[bi]["cleanup"] or not st["place"]["p"]:
                continue
            pl = msy.dest(st["place"])
            pth = U.field_path(pl)
            if pth is not None and pth[2] and pth[2][-1] == lenfield and pth[0] == "arg" and pth[1] == 1:
                incs.append((bi, st, msy.rvalue(st["rv"])))
        if incs:
            adders.append((m, incs))
    for m, incs in adders:
        mcfg = ctx.cfg(m)
        key = "len+1:%s" % m.id
        good = len(incs) == 1
        if good:
            bi, st, e = incs[0]
            good = (e[0] == "binop" and e[1] == "Add" and S.const_value(e[3]) == 1
                    and U.field_path(e[2]) is not None and U.field_path(e[2])[2][-1] == lenfield
                    and mcfg.every_path_passes(0, [bi]) and not mcfg.in_loop(bi))
        if good:
            ctx.ok(rule, key, m.where(), "record count is incremented by exactly one on every path of %s" % m.id,
                   nontrivial=True)
        else:
            ctx.fail(rule, key, m.where(), "record count of the index is not incremented exactly once per added record in %s" % m.id,
                     {"witness": "counter vector shorter than the largest stored position"})
    ctx.floor(rule, "index_len_writers", len(adders), 1, b.where())


def only_store_add_feeds_index(ctx, rule):
    """R18.f / R06.d: TrigramIndex::add is called only from Store::add, after record.ix was assigned from next_ix"""
    facts = ctx.facts
    idx_adt, producers = _index_bodies(ctx)
    if idx_adt is None:
        return
    # the posting writer: method of the index that calls HashMap::entry / insert on the dict
    writers = []
    for m in facts.fns():
        if m.kind == "method" and m.arg_count >= 2 and U.adt_of(facts, m.local_ty(1)) == idx_adt["id"]:
            if U.calls_named(m, "HashMap::entry", "HashMap::insert"):
                writers.append(m)
    if not ctx.floor(rule, "posting_writers", len(writers), 1):
        return
    for w in writers:
        callers = []
        for b in facts.fns():
            for bi, t in b.calls():
                if t.get("rcn") == w.cn or t.get("cn") == w.cn:
                    callers.append((b, bi, t))
        for (b, bi, t) in callers:
            key = "feeder:%s" % b.id
            recv = U.adt_of(facts, b.local_ty(1)) if b.arg_count >= 1 else None
            if recv is None or not recv.endswith("Store"):
                ctx.fail(rule, key, where(b, bi, t), "%s feeds the trigram index outside Store::add: positions in the "
                         "posting lists are no longer tied to the record vector" % b.id)
                continue
            # record.ix := next_ix before the call, records.push(record) after, next_ix += 1 once
            sy = ctx.sym(b)
            cfg = ctx.cfg(b)
            rec_arg = S.strip_refs(sy.operand(t["args"][1]))
            ix_assign = None
            for bj, si, st in b.iter_stmts():
                if st["k"] == "assign" and st["place"]["p"] and not b.blocks[bj]["cleanup"]:
                    pl = sy.dest(st["place"])
                    if pl[0] == "field" and str(pl[2]) == "ix" and S.strip_refs(pl[1]) == rec_arg:
                        ix_assign = (bj, st, sy.rvalue(st["rv"]))
            # every record that is stored is also indexed: the call lies on every path of the adder
            k_unc = "index-every-record:%s" % b.id
            if cfg.every_path_passes(0, [bi]):
                ctx.ok(rule, k_unc, where(b, bi, t), "%s hands every record to the index (the call is on every path)" % b.id, nontrivial=True)
            else:
                ctx.fail(rule, k_unc, where(b, bi, t), "%s stores a record without indexing it on some path: the index's record count falls "
                         "behind the record vector and later records are never candidates" % b.id,
                         {"witness": "a title without words ('', '?!') added before other records"})
            if ix_assign is None:
                ctx.fail(rule, key, where(b, bi, t), "record.ix is not assigned in %s before the record is indexed" % b.id,
                         {"witness": "every record is indexed at position 0"})
                continue
            bj, st, e = ix_assign
            src = U.field_path(e)
            before = (bj == bi) or cfg.dominates(bj, bi)
            if before and src is not None and src[2] and src[2][-1] == "next_ix":
                ctx.ok(rule, key, where(b, bj, st), "record.ix := self.next_ix is assigned before the index sees the record",
                       nontrivial=True)
            else:
                ctx.fail(rule, key, where(b, bj, st),
                         "record.ix is assigned %s the call that indexes the record (source %s)"
                         % ("before" if before else "after", S.show(e, b)),
                         {"witness": "second record is indexed under position 0; searching its words returns the first record"})
            # push after, next_ix += 1 exactly once
            pushes = [x for x in U.receiver_events(ctx, b) if x[3] == "push" and U.field_path(x[2]) and U.field_path(x[2])[2][-1:] == ["records"]]
            key2 = "push-and-advance:%s" % b.id
            incs = []
            for bk, si, st2 in b.iter_stmts():
                if st2["k"] == "assign" and not b.blocks[bk]["cleanup"] and st2["place"]["p"]:
                    pth = U.field_path(sy.dest(st2["place"]))
                    if pth and pth[2] == ["next_ix"]:
                        incs.append((bk, sy.rvalue(st2["rv"])))
            good = (len(pushes) == 1 and cfg.every_path_passes(0, [pushes[0][0]]) and len(incs) == 1
                    and incs[0][1][0] == "binop" and incs[0][1][1] == "Add" and S.const_value(incs[0][1][3]) == 1
                    and cfg.every_path_passes(0, [incs[0][0]]) and not cfg.in_loop(incs[0][0]))
            if good:
                ctx.ok(rule, key2, b.where(), "records.push(record) and next_ix += 1 happen exactly once on every path", nontrivial=True)
            else:
                ctx.fail(rule, key2, b.where(), "records.push / next_ix += 1 do not happen exactly once per add",
                         {"witness": "positions handed to the index drift from the record vector"})
        ctx.floor(rule, "index_feed_sites", len(callers), 1, w.where())


def unfinished_prefix_clip(ctx, rule):
    """for an unfinished query word the record side of the length and Jaccard gates is clipped to the typed length"""
    from .. import gates as G
    np_id, gates = G.find_gates(ctx)
    if np_id is None:
        return
    for g in gates:
        if g.kind == "jaccard":
            key = "jaccard-clip:%s" % g.body.id
            exprs = G._expand(ctx, g.x)
            ok = False
            for e in exprs:
                for p in S.walk(e):
                    if isinstance(p, tuple) and p and p[0] == "phi":
                        alts = U.flatten_phi(p)
                        if len(alts) == 2 and any(U.expr_calls(a, "Index::index") and (U.expr_calls(a, "cmp::min") or U.expr_calls(a, "Ord::min"))
                                                  for a in alts):
                            ok = True
                    # the same clip with the branch inside the range: &rchars[.. if fin { len } else { min(len, qlen + 1) }]
                    if isinstance(p, tuple) and p and p[0] == "call" and p[1].endswith("Index::index") and len(p[2]) == 2:
                        for q in S.walk(p[2][1]):
                            if isinstance(q, tuple) and q and q[0] == "phi":
                                alts = U.flatten_phi(q)
                                if len(alts) == 2 and sum(1 for a in alts if U.expr_calls(a, "cmp::min") or U.expr_calls(a, "Ord::min")) == 1:
                                    ok = True
            # ... and the clip is min(query length + 1, record length), the query side being the whole query word
            from .. import bounds as B_
            bound_ok, q_whole = None, None
            for e in exprs:
                for p in S.walk(e):
                    if isinstance(p, tuple) and p and p[0] == "call" and p[1].endswith(("cmp::min", "Ord::min")) and len(p[2]) == 2:
                        forms = []
                        for a_ in p[2]:
                            la = B_.lin(a_)
                            wl = [k_ for k_ in la.co if isinstance(k_, tuple) and k_ and k_[0] == "call" and k_[1].endswith(("Word::len", "::len"))]
                            forms.append((la.c, len(la.co), [S.show(k_, g.body) for k_ in la.co]))
                        # one operand is `len + 1`, the other a plain `len`; both lengths are word lengths (not stems)
                        cs = sorted(f_[0] for f_ in forms)
                        plain = all(f_[1] == 1 and ("len" in f_[2][0]) and ("stem" not in f_[2][0]) for f_ in forms)
                        bound_ok = (cs == [0, 1] and plain) if bound_ok is None else (bound_ok and cs == [0, 1] and plain)
                    if isinstance(p, tuple) and p and p[0] == "call" and p[1].endswith("rel_dist") and len(p[2]) >= 3:
                        qs = [a_ for a_ in p[2][1:] if "qword" in S.show(a_, g.body) or "arg" in str(a_)]
                        for a_ in p[2][1:]:
                            a1 = S.strip_refs(a_)
                            if a1[0] == "call" and a1[1].endswith("::chars") and not U.expr_calls(a1, "Index::index"):
                                q_whole = True
            if ok and bound_ok is False:
                ok = False
                ctx.fail(rule, key, where(g.body, g.bi), "the record side of the Jaccard gate is clipped to something other than "
                         "min(query length + 1, record length)", {"witness": "English 'axting' (typo inside the stem) no longer finds 'acting'"})
                continue
            if ok and q_whole is not True:
                ctx.fail(rule, key, where(g.body, g.bi), "the query side of the Jaccard gate is not the whole query word",
                         {"witness": "English 'axting' (typo inside the stem) no longer finds 'acting'"})
                continue
            if ok:
                ctx.ok(rule, key, where(g.body, g.bi), "the Jaccard gate compares the query with a record prefix of at most "
                       "query length + 1 on the unfinished branch", nontrivial=True)
            else:
                ctx.fail(rule, key, where(g.body, g.bi),
                         "the Jaccard gate no longer clips the record word for an unfinished query",
                         {"witness": "query 'a' against title 'abcdefgh': similarity 1/8"})


def grams_from_whole_words(ctx, rule):
    """the gram generator feeds every word's full character range (slice.0 .. slice.1) of the normalised text to the gram iterator"""
    idx_adt, producers = _index_bodies(ctx)
    if not ctx.floor(rule, "gram_producers", len(producers), 1):
        return
    for p0 in producers:
      n = 0
      for p in [p0] + U.nested_closures(ctx, p0):
        sy = ctx.sym(p)
        for bi, t in p.calls():
            if U.callee_is(t, "Trigrams::trigrams") or (t.get("rcn") or "").endswith("TrigramIter::new"):
                n += 1
                recv = S.strip_refs(sy.operand(t["args"][0]))
                if p.kind == "closure" and recv == ("arg", 2):
                    # `.flat_map(|chars| chars.trigrams())`: the receiver is the element of the upstream iterator
                    _, it_ = U.closure_param_item(ctx, p)
                    if it_ is not None:
                        recv = S.strip_refs(it_)
                elif p.kind == "closure":
                    _, recv = U.out_of_closure(ctx, p, recv)
                    recv = S.strip_refs(recv)
                key = "whole-word:%s" % p0.id
                ok = False
                if recv[0] == "call" and recv[1].endswith("Index::index"):
                    base = U.field_path(recv[2][0])
                    rng = S.strip_refs(recv[2][1])
                    if base and base[0] == "arg" and not base[2] and p.kind != "closure":
                        # the character array is a parameter: every caller must pass a text's `chars`
                        srcs = [U.field_path(e_) for _, e_ in U.param_sources(ctx, p, base[1])]
                        if srcs and all(s_ and s_[2][-1:] == ["chars"] for s_ in srcs):
                            base = (base[0], base[1], ["chars"])
                    if base and base[2][-1:] == ["chars"] and rng[0] == "agg" and rng[2].endswith("Range::Range"):
                        def word_field(x, names):
                            x = S.strip_refs(x)
                            got = []
                            while isinstance(x, tuple) and x and x[0] == "field":
                                got.append(str(x[2]))
                                x = S.strip_refs(x[1])
                            nxt = any(isinstance(y, tuple) and y and ((y[0] == "call" and y[1].endswith("Iterator::next")) or
                                                                     (y[0] == "item" and (U.field_path(y[1]) or (0, 0, [None]))[2][-1:] == ["words"]))
                                      for y in S.walk(x))
                            return got[::-1][-2:] == names and nxt
                        ok = word_field(rng[3][0], ["slice", "0"]) and word_field(rng[3][1], ["slice", "1"])
                if ok:
                    ctx.ok(rule, key, where(p, bi, t), "grams are taken from text.chars[word.slice.0 .. word.slice.1] of every word", nontrivial=True)
                else:
                    ctx.fail(rule, key, where(p, bi, t), "grams are not taken from the whole word `chars[word.slice.0 .. word.slice.1]`: %s"
                             % S.show(recv, p)[:140],
                             {"witness": "English store: title 'walking shoes', query 'king' — the suffix cut off by the stemmer is never indexed"})
      ctx.floor(rule, "gram_iterator_uses", n, 1, p0.where())
      # no word is passed over: in the loop over the words, every trip reaches the gram iterator
      sy0 = ctx.sym(p0)
      cfg0 = ctx.cfg(p0)
      uses0 = [bi for bi, t in p0.calls() if U.callee_is(t, "Trigrams::trigrams") or (t.get("rcn") or "").endswith("TrigramIter::new")]
      for nbi, nt in p0.calls():
          if not (nt.get("cn") or "").endswith("Iterator::next"):
              continue
          src_, st_ = U.chain(sy0.operand(nt["args"][0]))
          pth_ = U.field_path(src_)
          is_words = bool(pth_ and pth_[2] and pth_[2][-1] == "words") or (
              pth_ is not None and pth_[0] == "arg" and not pth_[2] and p0.kind != "closure" and
              all((U.field_path(e_) or (0, 0, [None]))[2][-1:] == ["words"] for _, e_ in U.param_sources(ctx, p0, pth_[1])))
          if not is_words:
              continue
          key2 = "every-word:%s" % p0.id
          extra = [s_[0] for s_ in st_ if s_[0] not in ("iter", "into_iter")]
          tg_ = nt.get("target")
          sw_ = p0.blocks[tg_]["term"] if tg_ is not None else None
          some_ = [x for v, x in sw_["targets"] if v == 1] if sw_ is not None and sw_["k"] == "switch" else []
          skipping = bool(some_) and uses0 and some_[0] not in uses0 and cfg0.path_exists(some_[0], nbi, avoid=uses0)
          if extra or skipping or not uses0:
              ctx.fail(rule, key2, where(p0, nbi, nt), "the gram generator passes over some words (%s): such a word links no query to its "
                       "title" % ("adaptors %s" % extra if extra else "a guard skips the gram iterator"),
                       {"witness": "English store, title 'toy', query 'to y': the short function word 'to' produces no gram"})
          else:
              ctx.ok(rule, key2, where(p0, nbi, nt), "every word of the text reaches the gram iterator", nontrivial=True)


def posting_writer_bodies(ctx):
    """TrigramIndex::add and the closures nested in it (and_modify / or_insert_with callbacks)"""
    out = []
    for b in ctx.facts.fns():
        if b.kind in ("fn", "method") and b.cn.endswith("TrigramIndex::add"):
            out.append(b)
            out.extend(U.nested_closures(ctx, b))
    return out


def postings_unconditional(ctx, rule):
    """R18.g: for every gram of an added record the record's position is appended to the posting list on every path (no
    guard that can skip the push), and a new list starts with that position"""
    n = 0
    for b in posting_writer_bodies(ctx):
        cfg = ctx.cfg(b)
        pushes = [bi for bi, t in b.calls() if U.callee_is(t, "Vec::push")]
        if not pushes:
            continue
        n += 1
        key = "push-on-every-path:%s" % (b.id.rsplit("::", 1)[-1] if b.kind == "closure" else "add")
        if b.kind == "closure":
            good = cfg.every_path_passes(0, pushes)
        else:
            # written in the gram loop itself: every trip round the loop that took a gram passes the push
            good = True
            for pb in pushes:
                h = cfg.inner_header(pb)
                if h is None:
                    good = cfg.every_path_passes(0, pushes)
                    continue
                nxt = [bi for bi, t in b.calls() if (t.get("cn") or "").endswith("Iterator::next") and cfg.inner_header(bi) == h]
                for nb_ in nxt:
                    tg = b.blocks[nb_]["term"].get("target")
                    sw = b.blocks[tg]["term"] if tg is not None else None
                    if sw is not None and sw["k"] == "switch":
                        some_t = [x for v, x in sw["targets"] if v == 1]
                        for s_ in some_t:
                            if s_ not in pushes and cfg.path_exists(s_, nb_, avoid=pushes):
                                good = False
        if good:
            ctx.ok(rule, key, b.where(), "the record's position is pushed on every (non-panicking) path", nontrivial=True, kind="S")
        else:
            ctx.fail(rule, key, b.where(), "the push of the record's position into an existing posting list can be skipped by a guard",
                     {"witness": "records with small ids added out of id order: a record is not listed under its own grams and "
                                 "is never a candidate"}, kind="S")
    ctx.floor(rule, "posting_push_closures", n, 1)


def every_posting_counted(ctx, rule):
    """R18.h: in the candidate method every posting of every query gram increments its counter: the loop over the grams
    bypasses the posting loop only when the gram is not in the dictionary, and the posting loop increments on every trip
    (no size cut-off, no sampling)."""
    r = _prepare_chain(ctx, rule)
    if r is None:
        return
    b, idx_adt, _ = r
    sy = ctx.sym(b)
    cfg = ctx.cfg(b)
    # increments: `+= 1` written through an element of the counter vector
    incs = []
    for bi, si, st in b.iter_stmts():
        if st["k"] != "assign" or b.blocks[bi]["cleanup"] or not st["place"]["p"]:
            continue
        rv = st["rv"]
        e = sy.rvalue(rv)
        if e[0] == "binop" and e[1] in ("Add", "AddWithOverflow") and S.const_value(e[3]) == 1:
            dest = S.strip_refs(sy.dest(st["place"]))
            if any(isinstance(x, tuple) and x and x[0] == "call" and x[1].endswith(("get_unchecked_mut", "IndexMut::index_mut", "get_mut"))
                   for x in S.walk(dest)):
                incs.append(bi)
                cty = st["place"].get("ty")
                if cty in ("u8", "u16", "i8", "i16"):
                    ctx.fail(rule, "counter-width:%s" % b.id, where(b, bi, st), "shared-gram counters are `%s`: a record sharing more "
                             "grams with the query than the type holds overflows (panic in a checked build, wrap to 0 and loss of the "
                             "record otherwise)" % cty, {"witness": "a long title with 256 distinct grams searched by its full text"})
    key = "every-posting-counted:%s" % b.id
    if not incs:
        ctx.fail(rule, key, b.where(), "no counter increment found in the candidate method (fail closed)")
        return
    inc = incs[0]
    ih = cfg.inner_header(inc)
    inner_next = [x for x, t in b.calls() if (t.get("cn") or "").endswith("Iterator::next") and cfg.inner_header(x) == ih]
    oh = None
    for h in cfg.headers():
        if h != ih and ih is not None and cfg.in_natural_loop(ih, h):
            oh = h
    outer_next = [x for x, t in b.calls() if (t.get("cn") or "").endswith("Iterator::next") and cfg.inner_header(x) == oh] if oh is not None else []
    if ih is not None and oh is None and inner_next:
        # one loop over a flattened chain: grams.iter().filter_map(|g| dict.get(g)).flatten()  /  .flat_map(|g| dict.get(g)..)
        t_ = b.blocks[inner_next[0]]["term"]
        src, stages = U.chain(sy.operand(t_["args"][0]))
        names = [x[0] for x in stages]
        lookups = [x for x in stages if x[0] in ("filter_map", "flat_map")]
        plain = all(n_ in ("iter", "into_iter", "filter_map", "flat_map", "flatten", "copied", "cloned", "by_ref") for n_ in names)
        good_lookup = False
        if len(lookups) == 1 and plain and ("flatten" in names or lookups[0][0] == "flat_map"):
            lb = U.closure_body(ctx, lookups[0][1][0]) if lookups[0][1] else None
            if lb is not None:
                r_ = S.strip_refs(ctx.sym(lb).local(0))
                while r_[0] == "call" and r_[1].endswith(("IntoIterator::into_iter", "Option::into_iter", "Option::unwrap_or_default", "Iterator::flatten")) and r_[2]:
                    r_ = S.strip_refs(r_[2][0])
                good_lookup = r_[0] == "call" and r_[1].endswith(("HashMap::get", "HashMap::get_mut")) and len(r_[2]) == 2 and \
                    S.strip_refs(r_[2][1]) == ("arg", 2)
        tg = t_.get("target")
        sw = b.blocks[tg]["term"] if tg is not None else None
        s_in = ([x for v, x in sw["targets"] if v == 1] or [None])[0] if sw is not None and sw["k"] == "switch" else None
        skip = s_in is None or (s_in != inc and cfg.path_exists(s_in, inner_next[0], avoid=[inc]))
        if good_lookup and not skip and cfg.every_path_passes(0, [ih]) is not None:
            ctx.ok(rule, key, where(b, inc), "every posting of every query gram increments its counter (one loop over the flattened "
                   "dictionary lookups of all grams)", nontrivial=True)
            return
        ctx.fail(rule, key, where(b, inc), "not every posting of every query gram is counted: %s" %
                 ("a posting can be passed over without incrementing its counter" if good_lookup else
                  "the flattened chain %s is not `grams -> dict.get(gram) -> postings`" % names),
                 {"witness": "a record all of whose grams are frequent gets count 0 and is never a candidate"})
        return
    if ih is None or oh is None or not inner_next or not outer_next:
        ctx.fail(rule, key, where(b, inc), "the counting loops (grams x postings) are not recognised (fail closed)")
        return

    def some_target(nb_):
        tg = b.blocks[nb_]["term"].get("target")
        sw = b.blocks[tg]["term"] if tg is not None else None
        st_ = [x for v, x in sw["targets"] if v == 1] if sw is not None and sw["k"] == "switch" else []
        return st_[0] if st_ else None
    problems = []
    # (1) every trip of the posting loop increments
    s_in = some_target(inner_next[0])
    if s_in is None or (s_in != inc and cfg.path_exists(s_in, inner_next[0], avoid=[inc])):
        problems.append("a posting can be passed over without incrementing its counter")
    # (2) the gram loop bypasses the posting loop only on a dictionary miss
    s_out = some_target(outer_next[0])
    region = (cfg.reachable_from(s_out, avoid=[ih, outer_next[0]]) | {s_out}) if s_out is not None else set()
    for bi, t in b.iter_terms():
        if t["k"] != "switch" or bi not in region:
            continue
        sides = [x for _, x in t["targets"]] + ([t["otherwise"]] if isinstance(t.get("otherwise"), int) else [])
        bypass = [x for x in sides if (x == outer_next[0] or cfg.path_exists(x, outer_next[0], avoid=[ih])) and
                  not (x == ih or cfg.path_exists(x, ih, avoid=[outer_next[0]]))]
        if not bypass or len(bypass) == len(sides):
            continue
        e = S.strip_refs(sy.operand(t["discr"]))
        miss = e[0] == "discr" and any(isinstance(x, tuple) and x and x[0] == "call" and x[1].endswith(("HashMap::get", "HashMap::get_mut"))
                                       for x in S.walk(e))
        miss = miss or (e[0] == "call" and e[1].endswith(("Option::is_some", "Option::is_none", "HashMap::contains_key")))
        if not miss:
            problems.append("the postings of a gram are skipped under `%s`" % S.show(e, b)[:70])
    if problems:
        ctx.fail(rule, key, where(b, inc), "not every posting of every query gram is counted: %s" % "; ".join(problems[:2]),
                 {"witness": "a record all of whose grams are frequent gets count 0 and is never a candidate"})
    else:
        ctx.ok(rule, key, where(b, inc), "every posting of every query gram increments its counter (the gram loop skips only "
               "grams missing from the dictionary)", nontrivial=True)
