"""C18 — trigram index (structural clauses R18.a–f)."""
from . import r_trigram as RT
from . import r_state as RS
from .common import info


def run(ctx):
    RT.positivity_filter(ctx, "R18.a")
    RT.candidate_cap(ctx, "R18.b", exact=10)
    RT.cap_comparator(ctx, "R18.b")
    RT.generator_sorted_dedup(ctx, "R18.c")
    RT.shared_generator(ctx, "R18.c")
    RT.gram_iter_width(ctx, "R18.c")
    RT.grams_from_whole_words(ctx, "R18.c")
    RT.enumerate_indices(ctx, "R18.d")
    RT.counters(ctx, "R18.e")
    RS.reset_before_read(ctx, "RS", only_owner="store::trigram_index::TrigramIndex", floor=1)
    RT.only_store_add_feeds_index(ctx, "R18.f")
    RT.postings_unconditional(ctx, "R18.g")
    RT.every_posting_counted(ctx, "R18.h")
    from . import r_rank as RR
    RR.bounded_selection(ctx, "R06.a")
    from . import r_trigram as _RT5
    _RT5.candidate_returns(ctx, "R18.a")
    return info("R18.a: candidates are filtered by count > 0 before the cap; R18.b: cap is size × 10 and the comparator is "
                "[(count, Desc)]; R18.c: the gram generator sorts and de-duplicates before every return, add and prepare use "
                "only that generator, the gram iterator starts at width 1 and grows to 3; R18.d: positions are the enumerate "
                "indices over the counter vector; R18.e: counters are cleared and resized to the record count before the "
                "unchecked increments, the record count grows by one per add; R18.f: only Store::add feeds the index, after "
                "record.ix := next_ix, followed by exactly one push and one next_ix += 1.")
