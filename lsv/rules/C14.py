"""C14 — split and joined spellings (necessary constants)."""
from . import r_gates as RG
from . import r_token as RK
from . import r_join as RJ
from . import C20 as RC20
from .common import info


def _extra_c14(ctx):
    # the split spelling 'to y' links to the title word 'toy' only through the grams of its first part: no word may be
    # passed over by the gram generator, and every posting counts
    from . import r_trigram as RT
    RT.grams_from_whole_words(ctx, "R14.i")
    RT.shared_generator(ctx, "R14.i")
    RT.every_posting_counted(ctx, "R14.i")


def run(ctx):
    _extra_c14(ctx)
    gates = RG._gates(ctx, "R14.a")
    if gates is not None:
        RG.gate_presence(ctx, "R14.a", gates, ["jaccard", "length", "damlev"])
        RG.check_worst(ctx, "R14.a", "C14", gates, ["length"])
        RG.check_worst(ctx, "R14.c", "C14", gates, ["jaccard"])
        RG.shape_length(ctx, "R14.a", gates)
        RG.shape_damlev(ctx, "R14.b", gates)
        RG.cost_bounds_C14(ctx, "R14.b", gates)
    RK.notalpha_fallback(ctx, "R14.d")
    RJ.join_guards(ctx, "R14.e")
    RJ.split_formula(ctx, "R14.f")
    RJ.join_formula(ctx, "R14.g")
    RJ.failed_attempt_is_pure(ctx, "R14.h")
    from . import C10 as RC10
    from . import r_state as RS
    RC10.hidden_state_inventory(ctx, "R10.e", RS.reset_before_read(ctx, None))
    from . import r_rank as RR
    RR.search_chain_shape(ctx, "R06.a", parts=("complete", "score", "filter"))
    RC20.buffer_rules(ctx, None, None, "R20.f")
    from . import r_word as RW
    RW.dist_formula(ctx, "R14.j")
    RW.word_field_from_lang(ctx, "R14.j", "set_stem", "stem", "Lang::stem")
    RR.hit_from_record(ctx, "R14.j")
    from . import C20 as _RC20
    _RC20.api_effects(ctx, "R14.k", which=("add",))
    RR.filter_passes(ctx, "R14.l", "split-spelling-passes", 1, 2, 2, "a hit whose one title word is matched by the two words of a two-word query", "'to y' no longer finds 'toy'")
    RR.filter_passes(ctx, "R14.l", "joined-spelling-passes", 2, 1, 1, "a hit whose two title words are matched by a one-word query", "'wifi' no longer finds 'wi-fi'")
    from . import r_rank as _RR2
    from .common import Only as _Only
    # of the selection rules only what a store no larger than the limit needs: the limit reaches the selection unnarrowed
    # and every item is buffered (how exactly the cut is made is C06's business)
    _RR2.bounded_selection(_Only(ctx, ("ctor-roles", "every-item-buffered", "anchor")), "R06.a")
    _RR2.limit_provenance(ctx, "R06.a")
    from . import r_word as _RW2
    _RW2.no_shadowed_defaults(ctx, "R14.m")
    return info("R14.m: no impl overrides a provided method of the crate's traits (Word::len / dist / is_function, LimitSort). R06.a: the bounded selection keeps `limit` items at full width (a store no larger than the limit loses no hit to the cut). R14.l: hits made by a split or a joined spelling pass hit_matches whatever the matches look like (abstract run). R14.k: add_record really adds the record to the addressed store on every call (the registry API is not exercised by the repository's tests). R14.j: Word::dist is start(later) - end(earlier) in both orders (region-wise), the stem is computed from the word's own characters, a hit carries the whole title. "
                "Necessary constants for split/joined spellings at the L=3 worst case: length gate accepts 1-3/4, "
                "cost(NotAlpha)/4 passes the DL gate, Jaccard gate accepts 1/2, and characters without a language "
                "class that are not alphabetic get the NotAlpha class (so the separator is charged the NotAlpha cost); R14.e: join attempts are skipped only when the other word is strictly shorter than first word + gap; R14.f/g: linear forms of the split halves and of the joined word equal the derived formulas.")
