"""Join / split arithmetic of joined-word matches (R14.e–g)."""
from .. import bounds as B
from .. import sym as S
from .. import util as U
from ..bounds import Lin
from ..engine import where


def join_guards(ctx, rule):
    """R14.e: in the two join branches of text_match the length guard rejects only when the longer side is *strictly*
    shorter than first word + gap (equality is the single-letter-tail case C14 demands)"""
    facts = ctx.facts
    n = 0
    for b in facts.fns():
        if b.kind != "closure" or not b.id.startswith("matching::text::text_match"):
            continue
        joins = [bi for bi, t in b.calls() if (t.get("rcn") or "").endswith("WordView::join")]
        wm = set(bi for bi, t in b.calls() if (t.get("rcn") or "").endswith("word::word_match"))
        if not joins or not wm:
            continue
        sy = ctx.sym(b)
        cfg = ctx.cfg(b)
        found = False
        for gbi, t in b.iter_terms():
            bt = U.bool_switch_targets(t)
            if not bt:
                continue
            e = sy.operand(t["discr"])
            if e[0] != "binop" or e[1] not in ("Lt", "Le", "Gt", "Ge"):
                continue
            op, l, r = e[1], e[2], e[3]
            def is_len(x):
                x = S.strip_refs(x)
                return x[0] == "call" and x[1].endswith("Word::len")
            def is_len_plus_dist(x):
                x = S.strip_refs(x)
                return x[0] == "binop" and x[1] == "Add" and is_len(x[2]) and S.strip_refs(x[3])[0] == "call" and \
                    S.strip_refs(x[3])[1].endswith("Word::dist")
            if is_len_plus_dist(l) and is_len(r):
                l, r, op = r, l, U.FLIP[op]
            if not (is_len(l) and is_len_plus_dist(r)):
                continue
            # the first word of the sum is the one that gets joined
            to_true = U.branch_reaches(cfg, gbi, bt[1], wm)
            to_false = U.branch_reaches(cfg, gbi, bt[0], wm)
            if to_true == to_false:
                continue
            proceed = op if to_true else U.NEG[op]     # condition under which the join is attempted
            found = True
            n += 1
            key = "join-guard:%s" % b.id.rsplit("::", 1)[-1] + ":" + S.show(S.strip_refs(r)[2], b).replace(" ", "")[:30]
            # must proceed when len(long) == len(first) + gap  and when it is larger
            if U.cmp_eval(proceed, 5, 5) and U.cmp_eval(proceed, 6, 5) and not U.cmp_eval(proceed, 4, 5):
                ctx.ok(rule, key, where(b, gbi), "the join is attempted iff the other word is at least as long as first word + gap",
                       nontrivial=True)
            else:
                ctx.fail(rule, key, where(b, gbi), "the join attempt is skipped when the other word is exactly as long as first word + gap "
                         "(guard normalises to `len %s len + gap`)" % U.OPSTR[proceed],
                         {"witness": "title 'cat', query 'ca t' (one-letter tail) is no longer found"})
        if not found:
            ctx.fail(rule, "join-guard-missing:%s" % b.id, b.where(), "length guard of the join branch not recognised (fail closed)")
        # no other test stands between the entry of the branch and the matcher: besides the length guard only the `?` exits
        # (no next word / word_match found nothing) and the "next word already taken" test may give the attempt up
        extra = []
        for gbi, t in b.iter_terms():
            bt = U.bool_switch_targets(t)
            if not bt or b.blocks[gbi]["cleanup"]:
                continue
            to_true = U.branch_reaches(cfg, gbi, bt[1], wm)
            to_false = U.branch_reaches(cfg, gbi, bt[0], wm)
            if to_true == to_false:
                continue                    # does not decide whether the matcher is reached
            e = S.strip_refs(sy.operand(t["discr"]))
            while e[0] == "unop" and str(e[1]).lower() == "not":
                e = S.strip_refs(e[2])
            if e[0] == "discr":
                continue                    # Option / Try discriminant of a `?`
            if e[0] == "call" and e[1].endswith(("Option::is_some", "Option::is_none")):
                continue                    # the neighbouring word is already matched
            if e[0] == "binop" and e[1] in ("Lt", "Le", "Gt", "Ge") and any(
                    isinstance(y, tuple) and y and y[0] == "call" and y[1].endswith("Word::dist") for y in S.walk(e)):
                continue                    # the length guard (its threshold is checked above)
            extra.append((gbi, e))
        key = "join-no-extra-guard:%s" % b.id.rsplit("::", 1)[-1]
        if extra:
            ctx.fail(rule, key, where(b, extra[0][0]), "the join branch gives up under an additional test `%s` before calling the matcher"
                     % S.show(extra[0][1], b)[:90], {"witness": "'d vd' no longer finds 'dvd' (a three-letter word spelled as two)"})
        else:
            ctx.ok(rule, key, b.where(), "only the length guard, the `?` exits and the already-matched test precede the matcher")
    ctx.floor(rule, "join_guards", n, 2)


def _lin_fields(e):
    """linear form with atoms rendered as short field paths: self.subslice.1, w1.slice.0 …"""
    l = B.lin(e)
    out = {}
    for a, c in l.co.items():
        x = a
        names = []
        while isinstance(x, tuple) and x and x[0] == "field":
            names.append(str(x[2]))
            x = S.strip_refs(x[1])
        if isinstance(x, tuple) and x and x[0] == "arg":
            out["arg%d.%s" % (x[1], ".".join(names[::-1]))] = c
        elif isinstance(x, tuple) and x and x[0] == "call" and x[1].endswith("Word::len"):
            y = S.strip_refs(x[2][0])
            out["len(arg%s)" % (y[1] if y[0] == "arg" else "?")] = c
        else:
            out[S.show(a)[:40]] = c
    return out, l.c


def split_formula(ctx, rule):
    """R14.f: the second half of a split match covers (w1.slice.0 + self.subslice.1) - w2.slice.0 characters, the first half the
    whole first word; halves carry the offsets/slices of their own words"""
    sp = None
    for b in ctx.facts.fns():
        if b.cn.endswith("WordMatch::split"):
            sp = b
    if not ctx.require(rule, "WordMatch::split", sp):
        return
    sy = ctx.sym(sp)
    halves = []
    for bi, si, st in sp.iter_stmts():
        if st["k"] == "assign" and st["rv"]["k"] == "agg" and st["rv"].get("did", "").endswith("WordMatch"):
            e = sy.rvalue(st["rv"])
            halves.append((bi, st, dict(zip(e[4], e[3]))))
    if not ctx.floor(rule, "split_halves", len(halves), 2, sp.where()):
        return
    def owner(d):
        p = U.field_path(d.get("offset"))
        return p[1] if p and p[0] == "arg" else None
    for (bi, st, d) in halves:
        who = owner(d)
        sl = U.field_path(d.get("slice"))
        key = "half-of-arg%s" % who
        ok = who in (2, 3) and sl and sl[0] == "arg" and sl[1] == who and sl[2] == ["slice"]
        ss = S.strip_refs(d.get("subslice"))
        if ok and ss[0] == "agg":
            co, c = _lin_fields(ss[3][1])
            if who == 2:
                ok = (co == {"len(arg2)": 1} and c == 0)
                want = "w1.len()"
            else:
                ok = c == 0 and co in ({"arg1.subslice.1": 1, "arg2.slice.0": 1, "arg3.slice.0": -1},
                                       {"arg1.subslice.1": 1, "arg1.slice.0": 1, "arg3.slice.0": -1})
                want = "self.subslice.1 + w1.slice.0 - w2.slice.0"
            if ok:
                ctx.ok(rule, key, where(sp, bi, st), "half for word %d: offset/slice of that word, span length %s" % (who - 1, want),
                       nontrivial=True)
            else:
                ctx.fail(rule, key, where(sp, bi, st), "span length of the half for word %d is %s + %d, expected %s" % (who - 1, co, c, want),
                         {"witness": "title 'usb wi-fi adapter', query 'wifi': the joined pair is not at the start of the title and is "
                                     "no longer found"})
        else:
            ctx.fail(rule, key, where(sp, bi, st), "a split half does not take offset and slice from one of the two words")
    # early-return guard: None iff the match ends at or before the start of the second word
    cfg = ctx.cfg(sp)
    good = False
    threshold_problem = None
    for gbi, t in sp.iter_terms():
        bt = U.bool_switch_targets(t)
        if not bt:
            continue
        e = sy.operand(t["discr"])
        if e[0] != "binop" or e[1] not in ("Le", "Lt", "Ge", "Gt"):
            continue
        la, ca = _lin_fields(e[2])
        lb, cb = _lin_fields(e[3])
        diff = dict(la)
        for k, v in lb.items():
            diff[k] = diff.get(k, 0) - v
        diff = {k: v for k, v in diff.items() if v}
        sign = 0
        if diff in ({"arg1.subslice.1": 1, "arg2.slice.0": 1, "arg3.slice.0": -1}, {"arg1.subslice.1": 1, "arg1.slice.0": 1, "arg3.slice.0": -1}):
            sign = 1
        elif {k: -v for k, v in diff.items()} in ({"arg1.subslice.1": 1, "arg2.slice.0": 1, "arg3.slice.0": -1},
                                                   {"arg1.subslice.1": 1, "arg1.slice.0": 1, "arg3.slice.0": -1}):
            sign = -1
        if sign:
            good = True
            # threshold: with M = end of the match - start of the second word, the attempt is given up exactly when M <= 0
            def none_arm(tb):
                r = U.arm_ret_expr(ctx, sp, tb)
                return r is not None and S.strip_refs(r)[0] == "agg" and S.strip_refs(r)[2].endswith("Option::None")
            nt, nf = none_arm(bt[1]), none_arm(bt[0])
            if nt != nf:
                gives_up = {}
                for M in (-1, 0, 1, 2):
                    truth = U.cmp_eval(e[1], sign * M + (ca - cb), 0)
                    gives_up[M] = (truth == nt)
                if gives_up[1] or gives_up[2]:
                    # (that the split IS given up for M <= 0 — no empty second half — is R09.g's business)
                    threshold_problem = "the split is given up for M in %s (M = end of match - start of second word): a match that reaches " \
                        "into the second word must be kept" % sorted(m_ for m_, v_ in gives_up.items() if v_)
    key = "split-guard-quantity"
    if good and threshold_problem:
        ctx.fail(rule, "split-guard-threshold", sp.where(), "WordMatch::split: %s" % threshold_problem,
                 {"witness": "'usbc' no longer finds 'USB-C cable'; 'mu g' no longer finds 'mug'"})
    elif good:
        ctx.ok(rule, "split-guard-threshold", sp.where(), "the split is never given up when the match reaches into the second word")
    if good:
        ctx.ok(rule, key, sp.where(), "the guard compares the end of the match (w1.slice.0 + subslice.1) with the start of the second word",
               nontrivial=True)
    else:
        ctx.fail(rule, key, sp.where(), "the guard of WordMatch::split no longer compares `w1.slice.0 + self.subslice.1` with `w2.slice.0`",
                 {"witness": "title 'usb wi-fi adapter', query 'wifi'"})


def join_formula(ctx, rule):
    """R14.g: joined word = (self.slice.0, other.slice.1), stem = other.slice.0 - self.slice.0 + other.stem, offset of the first
    word, finished flag of the second"""
    n = 0
    for b in ctx.facts.fns():
        if not b.cn.endswith(("WordView::join", "WordShape::join")):
            continue
        sy = ctx.sym(b)
        e = sy.local(0)
        if e[0] != "agg":
            ctx.fail(rule, "join-shape:%s" % b.id, b.where(), "join no longer builds its result as one struct literal (fail closed)")
            continue
        n += 1
        # a join that delegates to its sibling (`self.to_shape().join(&other.to_shape())`) is read through the sibling
        d = dict(zip(e[4], [U.unfold_struct_calls(ctx, x) for x in e[3]]))
        sl = S.strip_refs(d.get("slice"))
        ok_slice = sl[0] == "agg" and _lin_fields(sl[3][0]) == ({"arg1.slice.0": 1}, 0) and _lin_fields(sl[3][1]) == ({"arg2.slice.1": 1}, 0)
        ok_stem = _lin_fields(d.get("stem")) == ({"arg2.slice.0": 1, "arg1.slice.0": -1, "arg2.stem": 1}, 0)
        pf = U.field_path(d.get("fin"))
        po = U.field_path(d.get("offset"))
        ok_fin = bool(pf and pf[1] == 2 and pf[2] == ["fin"])
        ok_off = bool(po and po[1] == 1 and po[2] == ["offset"])
        key = "join-formula:%s" % b.id
        if ok_slice and ok_stem and ok_fin and ok_off:
            ctx.ok(rule, key, b.where(), "joined word spans (first.slice.0, second.slice.1), stem shifted by the gap, offset of the first, "
                   "finished flag of the second", nontrivial=True)
        else:
            ctx.fail(rule, key, b.where(), "join formula changed (slice ok: %s, stem ok: %s, fin from second: %s, offset from first: %s)"
                     % (ok_slice, ok_stem, ok_fin, ok_off),
                     {"witness": "joined spellings 'wi fi' / 'wifi' stop matching or match with a wrong stem"})
    ctx.floor(rule, "join_functions", n, 1)


def failed_attempt_is_pure(ctx, rule):
    """R04.f / R14.h: in the attempt closures of text_match (closures returning Option<()>), no write to captured state can be
    followed by a `None` return: a failed attempt leaves `stop`, `candidate` and the match vectors untouched, so the scan goes on
    to the next title word"""
    facts = ctx.facts
    n = 0
    for b in facts.fns():
        if b.kind != "closure" or not b.id.startswith("matching::text::text_match") or b.local_ty(0) != "std::option::Option<()>":
            continue
        n += 1
        sy = ctx.sym(b)
        cfg = ctx.cfg(b)
        fails = []
        for kind, bi, si, node in b.defs().get(0, []):
            if kind == "assign":
                e = sy.rvalue(node["rv"])
                if e[0] == "agg" and e[2].endswith("Option::None"):
                    fails.append(bi)
            elif (node.get("cn") or "").endswith("FromResidual::from_residual"):
                fails.append(bi)
        writes = []
        for bi, si, st in b.iter_stmts():
            if st["k"] == "assign" and st["place"]["p"] and not b.blocks[bi]["cleanup"]:
                pl = S.strip_refs(sy.dest(st["place"]))
                root = pl
                while isinstance(root, tuple) and root and root[0] in ("field", "index", "down", "call"):
                    root = S.strip_refs(root[1]) if root[0] != "call" else (S.strip_refs(root[2][0]) if root[2] else None)
                    if root is None:
                        break
                if isinstance(root, tuple) and root and root[0] == "upvar":
                    writes.append((bi, "assignment through captured `%s`" % root[2]))
        for bi, t in b.calls():
            name = (t.get("cn") or "").rsplit("::", 1)[-1]
            if name in ("take", "push", "clear", "insert", "replace", "truncate", "pop", "remove", "swap"):
                r = S.strip_refs(sy.operand(t["args"][0])) if t["args"] else None
                if isinstance(r, tuple) and r and r[0] == "upvar":
                    writes.append((bi, "`%s` on captured `%s`" % (name, r[2])))
        bad = [(wb, what, fb) for (wb, what) in writes for fb in fails if wb == fb or cfg.path_exists(wb, fb)]
        key = "failed-attempt-pure:%s" % b.id.rsplit("::", 1)[-1]
        if not writes:
            ctx.ok(rule, key, b.where(), "attempt closure writes no captured state")
        elif not bad:
            ctx.ok(rule, key, b.where(), "all %d writes to captured state happen after the last point where the attempt can fail" % len(writes),
                   nontrivial=True, kind="S")
        else:
            wb, what, fb = bad[0]
            ctx.fail(rule, key, where(b, wb), "a match attempt performs %s and can still return None afterwards: a failed attempt "
                     "changes the scan state (e.g. sets `stop`), so later title words are never compared" % what,
                     {"witness": "English title 'Metal pipe, metallic finish', query 'metalic'"}, kind="S")
    ctx.floor(rule, "attempt_closures", n, 3)


def plain_attempt_unguarded(ctx, rule):
    """R04.m / R03.n / R13.j: in text_match, the alternative that compares the record word with the query word as they are
    (`word_match(&rword, &qword)`, no join) runs the matcher on every path — no pre-test on the two words decides that
    they cannot match.  Every gate the properties reason about lives inside word_match; a shortcut in front of it (first
    letters differ, lengths differ, ...) rejects pairs that the gates accept."""
    n = 0
    for b in ctx.facts.fns():
        if b.kind != "closure" or not b.id.startswith("matching::text::text_match"):
            continue
        sy = ctx.sym(b)
        cfg = ctx.cfg(b)
        for bi, t in b.calls():
            if not (t.get("rcn") or t.get("cn") or "").endswith("word::word_match") or len(t["args"]) != 2:
                continue
            args = [S.strip_refs(sy.operand(a)) for a in t["args"]]
            if any(x[0] == "call" and x[1].endswith("::join") for a in args for x in S.walk(a) if isinstance(x, tuple) and x):
                continue            # the joined alternatives: their guards are R14.e
            n += 1
            key = "plain-attempt-unguarded"
            if cfg.every_path_passes(0, [bi]):
                ctx.ok(rule, key, where(b, bi, t), "the word-to-word alternative calls word_match on every path", nontrivial=True)
            else:
                ctx.fail(rule, key, where(b, bi, t), "the word-to-word alternative of text_match can return without calling word_match: a "
                         "pre-test on the two words decides that they do not match",
                         {"witness": "a typo in the first letter ('jello' for 'hello') no longer finds the record"})
    if n == 0:
        # loop form (no closure): the call lies in text_match itself; every iteration that reaches an unmatched pair must reach it
        ctx.fail(rule, "anchor:plain word_match attempt", "-", "the word-to-word call of word_match in text_match was not found (fail closed)")
