"""C08 — documented ranking priorities."""
from . import r_rank as RR
from . import r_lang as RL
from .common import info


def run(ctx):
    comps = RR.comparators_wellformed(ctx, "R08.b")
    RR.priorities(ctx, "R08.a")
    RR.scores_iter_in_order(ctx, "R08.a")
    RR.directions(ctx, "R08.b", comps)
    RR.rating_confinement(ctx, "R08.c", injective=False)
    RR.rating_monotone(ctx, "R08.c")
    RR.function_classes(ctx, "R08.d")
    RR.words_exclude_function(ctx, "R08.e")
    RL.maps_before_function_words(ctx, "R08.f")
    RL.function_word_tables(ctx, "R08.f")
    RR.component_formulas(ctx, "R08.g")
    RR.trans_gap_penalty(ctx, "R08.g")
    from . import r_word as RW
    RW.get_pos_lookup(ctx, "R08.h")
    RW.word_field_from_lang(ctx, "R08.h", "set_pos", "pos", "Lang::get_pos")
    RR.bounded_selection(ctx, "R06.a", check_limit_arg=False)
    from . import r_rank as _RR3
    _RR3.hit_from_record(ctx, "R08.i")
    return info("R08.i: a hit copies id, title and rating of its record unchanged (no narrowing of the rating on the way). R08.a: each of chars/words/tails/trans/offset is stored at a smaller slot than the rating, slots are written "
                "once and in range, Scores::iter walks front to back; R08.b: compare_hits is descending and each constrained "
                "component has the documented sign; R08.c: only score_rating_up reads the rating; R08.d: function words are "
                "exactly {Article, Preposition, Conjunction, Particle}; R08.e: score_words_up counts only !func matches; "
                "R08.h: Lang::get_pos returns the function-word table entry of the word unfiltered (decision table) and WordShape::set_pos assigns it for exactly the word's characters on every path; "
                "R08.f: language maps are filled before function words are registered; R08.g: the formulas of the tails / trans / "
                "offset components keep their recognised shape.")
