"""Tokeniser pipeline rules (R15.*, R11.f, R01.d, R14.d)."""
from .. import sym as S
from .. import util as U
from ..engine import where

STAGE_NAMES = ("from_str", "from_vec", "normalize", "fin", "split", "strip", "lower", "set_pos",
               "set_char_classes", "set_stem")


def _builder_chain(ctx, body):
    """[(stage name, extra args, call expr)] from the innermost constructor outwards, or None"""
    e = ctx.sym(body).local(0)
    stages = []
    while isinstance(e, tuple) and e and e[0] == "call":
        name = e[1].rsplit("::", 1)[-1]
        if not e[1].startswith("tokenization::text::Text::"):
            break
        stages.append((name, e[2][1:] if e[2] else (), e))
        if not e[2]:
            break
        e = S.strip_refs(e[2][0])
    return stages[::-1] if stages else None


def pipelines(ctx, rule):
    facts = ctx.facts
    q = facts.one("tokenization::tokenize_query")
    rec_new = [b for b in facts.fns() if b.cn.endswith("Record::new")]
    r = None
    if rec_new:
        for bi, t in rec_new[0].calls():
            tb = facts.bodies.get(t.get("resolved") or t.get("callee") or "")
            if tb is not None and tb.local_ty(0).startswith("tokenization::text::Text<std::vec::Vec<"):
                r = tb
    out = {}
    if ctx.require(rule, "query-tokenizer", q, what="exported fn tokenize_query"):
        ch = _builder_chain(ctx, q)
        if ctx.require(rule, "query-chain", ch, q.where(), "builder chain of Text methods"):
            out["query"] = (q, ch)
    if ctx.require(rule, "record-tokenizer", r, what="the Text builder called by Record::new"):
        ch = _builder_chain(ctx, r)
        if ctx.require(rule, "record-chain", ch, r.where(), "builder chain of Text methods"):
            out["record"] = (r, ch)
    return out


ORDER_EDGES = [
    ("normalize", "split", "normalisation panics on a text that is already split ('Normalization should always be the first step')"),
    ("normalize", "lower", "case folding before composition misses decomposed upper-case letters"),
    ("normalize", "set_char_classes", "classes are computed for the un-normalised text and no longer line up with `chars`"),
    ("fin", "split", "\"foo \" keeps an unfinished last word: split derives the finished flag from the word it splits"),
    ("split", "strip", "strip works on the single whole-text word only"),
    ("split", "set_pos", "part of speech is looked up for the whole text instead of each word"),
    ("split", "set_stem", "the stem is computed for the whole text instead of each word"),
    ("strip", "set_stem", "stem length is measured on a word that still carries its punctuation"),
    ("strip", "set_pos", "function words with adjacent punctuation are not recognised"),
    ("lower", "set_pos", "upper-case function words are not recognised (look-up table holds lower-case spellings)"),
    ("lower", "set_stem", "the stemmer sees upper-case letters and leaves the word unstemmed"),
    ("lower", "set_char_classes", "the language's class table holds lower-case letters only: an upper-case letter gets class Any and "
                                   "its typo costs differ from the lower-case spelling"),
]


def pipeline_order(ctx, rule, edges=None, which=("query", "record")):
    pl = pipelines(ctx, rule)
    for name in which:
        if name not in pl:
            continue
        body, ch = pl[name]
        names = [s[0] for s in ch]
        ctx.count("stages_%s" % name, len(names))
        for (a, b, why) in ORDER_EDGES:
            if edges is not None and (a, b) not in edges:
                continue
            if a == "fin" and name == "record":
                continue
            key = "%s<%s:%s" % (a, b, name)
            if a not in names or b not in names:
                ctx.fail(rule, key, body.where(), "%s tokeniser lacks stage %s" % (name, a if a not in names else b),
                         {"stages": names})
                continue
            if max(i for i, n in enumerate(names) if n == a) < min(i for i, n in enumerate(names) if n == b) \
                    if a != "normalize" else names.index(a) < min(i for i, n in enumerate(names) if n == b):
                ctx.ok(rule, key, body.where(), "%s: %s precedes %s" % (name, a, b), nontrivial=True)
            else:
                ctx.fail(rule, key, body.where(), "%s tokeniser runs %s before %s: %s" % (name, b, a, why),
                         {"stages": names})
    return pl


def normalize_first(ctx, rule):
    pl = pipelines(ctx, rule)
    for name, (body, ch) in pl.items():
        names = [s[0] for s in ch]
        key = "normalize-first:%s" % name
        if len(names) >= 2 and names[0] in ("from_str", "from_vec") and names[1] == "normalize":
            ctx.ok(rule, key, body.where(), "%s: normalize is applied directly to the from_str result" % name,
                   nontrivial=True)
        else:
            ctx.fail(rule, key, body.where(),
                     "%s tokeniser does not normalise first (%s): Text::normalize panics on any text with more "
                     "than one word" % (name, names), {"witness": "any two-word title/query"})
    return pl


def sibling_agreement(ctx, rule_b, rule_c, stages_too=True, only=None, which_stages=("split", "strip")):
    pl = pipelines(ctx, rule_b)
    if "query" not in pl or "record" not in pl:
        return
    cls = {}
    for name, (body, ch) in pl.items():
        for st in ch:
            if st[0] in ("split", "strip"):
                pats = U.array_variants(st[1][0], ctx.facts) if st[1] else None
                cls.setdefault(st[0], {})[name] = (pats, body)
    for stage in which_stages:
        d = cls.get(stage, {})
        key = "classes-agree:%s" % stage
        if "query" not in d or "record" not in d:
            ctx.fail(rule_b, key, "-", "stage %s missing in one tokeniser" % stage)
            continue
        (pq, bq), (pr, br) = d["query"], d["record"]
        if only is not None:
            want = {"split": {"Whitespace", "Control", "Punctuation"}, "strip": {"NotAlphaNum"}}[stage]
            for nm in only:
                p_, b_ = d[nm]
                k2 = "classes:%s:%s" % (stage, nm)
                if p_ is not None and set(p_) == want:
                    ctx.ok(rule_c, k2, b_.where(), "%s %ss on exactly %s" % (nm, stage, sorted(want)))
                else:
                    ctx.fail(rule_c, k2, b_.where(), "%s tokeniser %ss on %s, expected %s" % (nm, stage, p_, sorted(want)))
            continue
        if pq is None or pr is None:
            ctx.fail(rule_b, key, bq.where(), "%s pattern is not a constant class list (fail closed)" % stage)
            continue
        if set(pq) == set(pr):
            ctx.ok(rule_b, key, bq.where(), "query and record tokenisers %s on the same classes %s" % (stage, sorted(pq)),
                   nontrivial=True)
        else:
            ctx.fail(rule_b, key, bq.where(),
                     "query tokeniser %ss on %s but record tokeniser on %s" % (stage, sorted(pq), sorted(pr)),
                     {"witness": "a title containing a character of the differing class tokenises differently from "
                                 "the same text typed as a query (e.g. a tab or a hyphen): the word is never found"})
        want = {"split": {"Whitespace", "Control", "Punctuation"}, "strip": {"NotAlphaNum"}}[stage]
        for nm, (p, b) in d.items():
            key = "classes:%s:%s" % (stage, nm)
            if p is not None and set(p) == want:
                ctx.ok(rule_c, key, b.where(), "%s %ss on exactly %s" % (nm, stage, sorted(want)))
            else:
                ctx.fail(rule_c, key, b.where(), "%s tokeniser %ss on %s, expected %s" % (nm, stage, p, sorted(want)),
                         {"witness": "words keep / lose separator characters: 'a,b' stays one word or 'wi-fi' is "
                                     "never split"})
    if not stages_too:
        return
    # same stage multiset apart from `fin`
    nq = [s[0] for s in pl["query"][1] if s[0] != "fin"]
    nr = [s[0] for s in pl["record"][1]]
    key = "same-stages"
    if nq == nr:
        ctx.ok(rule_b, key, pl["query"][0].where(), "both tokenisers run the same stages in the same order (query adds fin)",
               {"stages": nr}, nontrivial=True)
    else:
        ctx.fail(rule_b, key, pl["query"][0].where(), "query stages %s differ from record stages %s" % (nq, nr),
                 {"witness": "the same text tokenises differently as a title and as a query"})
    # fin(false) only in the query chain
    fq = [s for s in pl["query"][1] if s[0] == "fin"]
    fr = [s for s in pl["record"][1] if s[0] == "fin"]
    key = "fin-false-query-only"
    good = len(fq) == 1 and not fr and fq[0][1] and S.const_value(fq[0][1][0]) is False
    if good:
        ctx.ok(rule_b, key, pl["query"][0].where(), "only the query tokeniser marks the last word unfinished (fin(false))",
               nontrivial=True)
    else:
        ctx.fail(rule_b, key, pl["query"][0].where(),
                 "fin stage: query %s, record %s — record words must all be finished and the query's last word "
                 "unfinished" % ([S.show(a) for s_ in fq for a in s_[1]], [S.show(a) for s_ in fr for a in s_[1]]),
                 {"witness": "typing a prefix of the last word no longer matches / record words become prefixes"})


def _text_methods(ctx):
    out = {}
    for b in ctx.facts.fns():
        if b.kind == "method" and b.cn.startswith("tokenization::text::Text::"):
            out[b.cn.rsplit("::", 1)[-1]] = b
    return out


def _numbered_at_construction(ctx, b, rv):
    """the vector assigned to `words` carries consecutive offsets by construction: either it is collected from a chain that
    ends `.enumerate().map(|(i, w)| WordShape { offset: i, ..w })`, or it is filled by a push loop in which every pushed word
    was given `offset = vec.len()` just before"""
    sy = ctx.sym(b)
    v = S.strip_refs(sy.rvalue(rv))
    if v[0] == "call" and v[1].endswith("Iterator::collect"):
        src, stages = U.chain(v)
        names = [s_[0] for s_ in stages]
        if len(names) >= 3 and names[-3:] == ["enumerate", "map", "collect"]:
            cb = U.closure_body(ctx, stages[-2][1][0]) if stages[-2][1] else None
            if cb is not None:
                r = S.strip_refs(ctx.sym(cb).local(0))
                if r[0] == "agg" and r[1] == "adt" and "offset" in [str(n) for n in r[4]]:
                    off = S.strip_refs(r[3][[str(n) for n in r[4]].index("offset")])
                    return off[:3] == ("field", ("arg", 2), "0")
        return False
    # push loop
    src = rv["op"].get("move") or rv["op"].get("copy") if rv["k"] == "use" else None
    if src is None or src["p"]:
        return False
    k = src["l"]
    vexpr = S.strip_sites(S.strip_refs(sy.local(k)))
    if not (v[0] == "call" and v[1].endswith(("Vec::with_capacity", "Vec::new"))):
        return False
    pushes = 0
    for bi, t in b.calls():
        if not t["args"]:
            continue
        recv = S.strip_sites(S.strip_refs(sy.operand(t["args"][0])))
        if recv != vexpr:
            continue
        m = (t.get("cn") or "").rsplit("::", 1)[-1]
        if m in ("len", "capacity", "reserve", "is_empty", "as_slice", "iter"):
            continue
        if m != "push":
            return False
        e = S.strip_refs(sy.operand(t["args"][1]))
        ups = [u for u in e[2] if u[0] == "offset"] if e[0] == "upd" else []
        if len(ups) != 1:
            return False
        val = S.strip_sites(S.strip_refs(ups[0][2]))
        if not (val[0] == "call" and val[1].endswith("::len") and val[2] and S.strip_refs(val[2][0]) == vexpr):
            return False
        pushes += 1
    return pushes >= 1


def renumber_after_mutation(ctx, rule, floor=2):
    """R15.d: every Text method that replaces / filters `words` renumbers offsets afterwards"""
    tm = _text_methods(ctx)
    n = 0
    for name, b in sorted(tm.items()):
        if b.arg_count < 1 or not b.local_ty(1).startswith("tokenization::text::Text<std::vec::Vec<"):
            continue
        sy = ctx.sym(b)
        cfg = ctx.cfg(b)
        muts = []
        for bi, si, st in b.iter_stmts():
            if st["k"] == "assign" and not b.blocks[bi]["cleanup"] and st["place"]["p"]:
                pth = U.field_path(sy.dest(st["place"]))
                if pth and pth[0] == "arg" and pth[1] == 1 and pth[2] == ["words"]:
                    muts.append((bi, "assign"))
        for (bi, t, rk, m) in U.receiver_events(ctx, b):
            pth = U.field_path(rk)
            if pth and pth[0] == "arg" and pth[1] == 1 and pth[2] == ["words"] and m in (
                    "retain", "remove", "insert", "push", "sort", "sort_by", "reverse", "swap", "drain",
                    "dedup", "swap_remove", "extend", "append", "sort_unstable_by", "rotate_left"):
                # (truncate / pop / clear drop a tail: the remaining words keep consecutive numbers)
                muts.append((bi, m))
        if not muts:
            continue
        n += 1
        # renumber loop: assignment  (*word).offset = enumerate index
        ren = []
        for bi, si, st in b.iter_stmts():
            if st["k"] == "assign" and not b.blocks[bi]["cleanup"] and st["place"]["p"]:
                pl = sy.dest(st["place"])
                if pl[0] == "field" and pl[2] == "offset":
                    src = sy.rvalue(st["rv"])
                    if any(isinstance(x, tuple) and x and x[0] == "call" and x[1].endswith("Iterator::enumerate")
                           for x in S.walk(src)) and U.expr_calls(src, "Iterator::next"):
                        # enumerate over self.words
                        ren.append(bi)
                    else:
                        # index loop: words[i].offset = i for i in 0 .. words.len()
                        base = S.strip_refs(pl[1])
                        if base[0] == "call" and base[1].endswith(("IndexMut::index_mut", "Index::index")) and len(base[2]) == 2 and \
                                S.norm(S.strip_refs(base[2][1])) == S.norm(S.strip_refs(src)):
                            wp = U.field_path(base[2][0])
                            rng = [x for x in S.walk(src) if isinstance(x, tuple) and x and x[0] == "agg" and x[2].endswith("Range::Range")]
                            if wp and wp[2] == ["words"] and rng and S.const_value(S.strip_refs(rng[0][3][0])) == 0:
                                hi = S.strip_refs(rng[0][3][1])
                                hp = U.field_path(hi[2][0]) if hi[0] == "call" and hi[1].endswith("::len") and hi[2] else None
                                if hp and hp[2] == ["words"]:
                                    ren.append(bi)
        key = "renumber:%s" % name
        ok = False
        # words replaced by a vector whose elements were numbered while it was built
        for bi, si, st in b.iter_stmts():
            if st["k"] == "assign" and not b.blocks[bi]["cleanup"] and st["place"]["p"] and (bi, "assign") in muts:
                pth = U.field_path(sy.dest(st["place"]))
                if not (pth and pth[2] == ["words"]):
                    continue
                if _numbered_at_construction(ctx, b, st["rv"]) and \
                        all(mb == bi or (cfg.every_path_passes(mb, [bi]) and not cfg.path_exists(bi, mb)) for mb, _ in muts):
                    ok = True
        for rb in ren:
            # loop header of the renumber loop post-dominates every mutation
            hdr = cfg.loop_header(rb)
            if hdr is None:
                hdr = rb
            if all(cfg.every_path_passes(mb, [hdr]) and mb != hdr and not cfg.path_exists(hdr, mb) for mb, _ in muts):
                ok = True
        if ok:
            ctx.ok(rule, key, b.where(), "Text::%s mutates `words` (%s) and renumbers word offsets afterwards on every path"
                   % (name, sorted(set(m for _, m in muts))), nontrivial=True)
        else:
            ctx.fail(rule, key, b.where(),
                     "Text::%s changes `words` (%s) without renumbering word offsets afterwards" % (name, sorted(set(m for _, m in muts))),
                     {"witness": "title 'a $ b': the word after the dropped one keeps its old offset and the match "
                                 "vectors are indexed out of bounds"})
    ctx.floor(rule, "word_list_mutators", n, floor)


def drop_empty_after_strip(ctx, rule):
    tm = _text_methods(ctx)
    b = tm.get("strip")
    if not ctx.require(rule, "Text::strip", b):
        return
    cfg = ctx.cfg(b)
    strips = [bi for bi, t in b.calls() if U.callee_is(t, "WordShape::strip")]
    rets = [(bi, t) for (bi, t, rk, m) in U.receiver_events(ctx, b) if m == "retain"
            and (U.field_path(rk) or (None, None, []))[2] == ["words"]]
    key = "retain-nonempty"
    if strips and not rets:
        # fused form: the stripped words are pushed into a fresh vector, the empty ones are passed over
        sy = ctx.sym(b)
        for pb, pt in b.calls():
            if not U.callee_is(pt, "Vec::push"):
                continue
            guarded = False
            for sb, bl in enumerate(b.blocks):
                t = bl["term"]
                if not t or t["k"] != "switch" or bl["cleanup"]:
                    continue
                bt = U.bool_switch_targets(t)
                lt = U.len_test(sy.operand(t["discr"]))
                if not bt or lt is None:
                    continue
                x, f = lt
                if not (f(0) in (True, False) and f(1) == f(2) == f(50) != f(0)):
                    continue
                empty_side = bt[1] if f(0) else bt[0]
                hdr = cfg.inner_header(pb)
                if all(cfg.dominates(s_, sb) for s_ in strips) and cfg.dominates(sb, pb) and \
                        not cfg.path_exists(empty_side, pb, avoid=[hdr] if hdr is not None else []):
                    guarded = True
            if guarded:
                ctx.ok(rule, key, where(b, pb, pt), "emptied words are passed over when the stripped words are collected (push guarded by len > 0)",
                       nontrivial=True)
                return
    if not strips or not rets:
        ctx.fail(rule, key, b.where(), "Text::strip does not drop emptied words (no `words.retain(..)` after stripping)",
                 {"witness": "title 'a $ b' keeps an empty word: Word::len underflows / empty words are matched"})
        return
    rb, rt = rets[0]
    after = all(cfg.path_exists(s_, rb) and not cfg.path_exists(rb, s_) for s_ in strips) and cfg.every_path_passes(0, [rb])
    cb = U.closure_body(ctx, ctx.sym(b).operand(rt["args"][1]))
    pred_ok = False
    if cb is not None:
        e = ctx.sym(cb).local(0)
        # any test of the word's length against a constant that keeps exactly the non-empty words:
        # len() > 0, 0 < len(), len() != 0, len() >= 1, !is_empty() ...
        lt = U.len_test(e)
        if lt is not None and (U.expr_calls(e, "Word::len") or U.expr_calls(e, "Word::is_empty")):
            vals = [lt[1](v) for v in (0, 1, 2, 50)]
            pred_ok = vals == [False, True, True, True]
    if after and pred_ok:
        ctx.ok(rule, key, where(b, rb, rt), "emptied words are dropped after stripping (retain(len > 0))", nontrivial=True)
    else:
        ctx.fail(rule, key, where(b, rb, rt), "after stripping, words are not filtered with `len > 0` on every path",
                 {"witness": "title 'a $ b'"})


def classes_resized(ctx, rule):
    tm = _text_methods(ctx)
    b = tm.get("set_char_classes")
    if not ctx.require(rule, "Text::set_char_classes", b):
        return
    sy = ctx.sym(b)
    cfg = ctx.cfg(b)
    res = []
    for (bi, t, rk, m) in U.receiver_events(ctx, b):
        if m == "resize" and (U.field_path(rk) or (0, 0, []))[2] == ["classes"]:
            n = sy.operand(t["args"][1])
            ok = n[0] == "call" and n[1].endswith("::len") and (U.field_path(n[2][0]) or (0, 0, []))[2] == ["chars"]
            res.append((bi, t, ok))
    key = "classes-resize"
    writes = [bi for bi, si, st in b.iter_stmts() if st["k"] == "assign" and st["place"]["p"] and
              st["place"]["ty"].endswith("CharClass") and not b.blocks[bi]["cleanup"] and st["place"]["p"][0] == "deref"]
    if res and all(ok for _, _, ok in res) and all(cfg.dominates(res[0][0], w) for w in writes) and writes:
        ctx.ok(rule, key, where(b, res[0][0], res[0][1]), "classes is resized to chars.len() before the per-character writes",
               nontrivial=True)
    else:
        ctx.fail(rule, key, b.where(), "`classes` is not resized to `chars.len()` before it is written",
                 {"witness": "a title with a folded 'ß' has more chars than classes: WordView::classes slices out of bounds"})


def normalize_assigns_together(ctx, rule):
    tm = _text_methods(ctx)
    b = tm.get("normalize")
    if not ctx.require(rule, "Text::normalize", b):
        return
    sy = ctx.sym(b)
    cfg = ctx.cfg(b)
    asg = {"source": [], "chars": [], "slice": []}
    for bi, si, st in b.iter_stmts():
        if st["k"] != "assign" or b.blocks[bi]["cleanup"] or not st["place"]["p"]:
            continue
        pl = sy.dest(st["place"])
        pth = U.field_path(pl)
        if pth and pth[0] == "arg" and pth[1] == 1 and pth[2] in (["source"], ["chars"]):
            asg[pth[2][0]].append((bi, st, sy.rvalue(st["rv"])))
        elif pl[0] == "field" and str(pl[2]) == "1" and pl[1][0] == "field" and pl[1][2] == "slice":
            asg["slice"].append((bi, st, sy.rvalue(st["rv"])))
    ctx.floor(rule, "normalize_chars_assignments", len(asg["chars"]), 2, b.where())
    for (cb, cst, ce) in asg["chars"]:
        key = "together:bb-of-line-%s" % ("compose" if U.expr_calls(ce, "unicode_compose") else
                                           "reduce" if U.expr_calls(ce, "unicode_reduce") else "other")
        src = [x for x in asg["source"] if cfg.dominates(x[0], cb) or cfg.dominates(cb, x[0])]
        src = [x for x in src if (cfg.every_path_passes(x[0], [cb]) or cfg.every_path_passes(cb, [x[0]]))]
        sl = [x for x in asg["slice"] if cfg.dominates(cb, x[0]) and cfg.every_path_passes(cb, [x[0]])]
        ok = bool(src) and bool(sl)
        detail = {}
        if ok:
            se = src[0][2]
            le = sl[0][2]
            len_ok = le[0] == "call" and le[1].endswith("::len") and (U.field_path(le[2][0]) or (0, 0, []))[2] == ["chars"]
            # provenance of the pair
            if U.expr_calls(ce, "unicode_reduce"):
                def tup_idx(e):
                    e = S.strip_refs(e)
                    return str(e[2]) if e[0] == "field" else None
                pair_ok = tup_idx(se) == "0" and tup_idx(ce) == "1"
                detail["pair"] = "source <- reduce().0, chars <- reduce().1" if pair_ok else \
                    "source <- .%s, chars <- .%s" % (tup_idx(se), tup_idx(ce))
            else:
                pair_ok = bool(U.expr_calls(se, "unicode_compose")) and bool(U.expr_calls(ce, "unicode_compose"))
                detail["pair"] = "source and chars both from the composed text"
            ok = len_ok and pair_ok
        if ok:
            ctx.ok(rule, key, where(b, cb, cst), "source, chars and words[0].slice.1 are updated together (%s)" % detail["pair"],
                   detail, nontrivial=True)
        else:
            ctx.fail(rule, key, where(b, cb, cst),
                     "Text::normalize updates `chars` without the matching `source` / `words[0].slice.1 = chars.len()` update, "
                     "or pairs them wrongly (%s)" % detail.get("pair", "missing assignment"),
                     {"witness": "German title 'Straße': source and chars differ in length, highlight slices the wrong range"})


def notalpha_fallback(ctx, rule):
    """R14.d: the class written for a character is the language's class if it has one, else NotAlpha when
    `CharClass::NotAlpha.matches(ch)` says so, else Any — decided as a decision table by abstract interpretation (A13), so
    that `or_else`/`unwrap_or` chains, nested matches and helper functions are one fact"""
    from .. import absint as AI
    tm = _text_methods(ctx)
    b = tm.get("set_char_classes")
    if not ctx.require(rule, "Text::set_char_classes", b):
        return
    key = "fallback-chain"
    cc = None
    for a in ctx.facts.adts.values():
        if a["id"].endswith("char_class::CharClass"):
            cc = a["id"]
    KNOWN = ("sym", "class-from-language")

    def variant(name):
        return ("enum", cc, name, ())

    def run(G, M):
        writes = []

        def oracle(t, args, body):
            cn = t.get("cn") or ""
            if cn.endswith("Lang::get_char_class"):
                return [G]
            if cn.endswith("CharPattern::matches"):
                if args and args[0] == variant("NotAlpha"):
                    return [M]
                return [AI.UNKNOWN]
            if cn.endswith("Iterator::next"):
                return [AI.some(("agg", "tuple", (("sym", "ch"), ("sym", "slot")))), AI.NONE]
            if cn.endswith(("Vec::push",)) and len(args) > 1:
                writes.append(args[1])
                return [("agg", "tuple", ())]
            return None
        ai = AI.AbsInt(ctx, oracle)
        orig = ai.write_place

        def write_place(env, pl, v):
            if pl["p"] and pl["p"][0] == "deref" and pl.get("ty", "").endswith("CharClass"):
                writes.append(v)
            return orig(env, pl, v)
        ai.write_place = write_place
        # the classification may be a closure handed to map/extend: evaluate closures returning CharClass too
        try:
            ai.run_body(b, [("sym", "self"), ("sym", "lang")])
            for cb in U.nested_closures(ctx, b):
                if cb.local_ty(0).endswith("CharClass"):
                    caps = ctx.model.creation.get(cb.id)
                    ncap = len(caps[3]["rv"]["ops"]) if caps else 0
                    for r in ai.run_body(cb, [("closure", cb.id, tuple(("sym", "cap%d" % i) for i in range(ncap))), ("sym", "ch")]):
                        writes.append(r)
        except AI.Limit:
            return None
        return set(writes)
    table = [
        ("language class known", AI.some(KNOWN), AI.some(AI.const(True)), {KNOWN}),
        ("language class known", AI.some(KNOWN), AI.NONE, {KNOWN}),
        ("no language class, not alphabetic", AI.NONE, AI.some(AI.const(True)), {variant("NotAlpha")}),
        ("no language class, alphabetic", AI.NONE, AI.some(AI.const(False)), {variant("Any")}),
        ("no language class, predicate undecided", AI.NONE, AI.NONE, {variant("Any")}),
    ]
    bad = []
    for name, G, M, want in table:
        got = run(G, M)
        if got != want:
            bad.append("%s: class is %s, expected %s" % (name, sorted(AI.show(x) for x in got) if got is not None else "not evaluable",
                                                          sorted(AI.show(x) for x in want)))
    # the NotAlpha arm of CharClass::matches is !is_alphabetic
    arm_ok = False
    for mb in ctx.facts.fns():
        if mb.kind == "method" and mb.impl_trait and mb.impl_trait.endswith("CharPattern") and \
                (mb.impl_self or "").endswith("CharClass"):
            for (sbi, adt, arms, other) in U.enum_switches(ctx, mb):
                if "NotAlpha" in arms:
                    ae = U.arm_ret_expr(ctx, mb, arms["NotAlpha"])
                    if ae is not None and ae[0] == "agg" and ae[2].endswith("Option::Some"):
                        x = ae[3][0]
                        if x[0] == "unop" and x[1] == "Not" and U.expr_calls(x[2], "is_alphabetic"):
                            arm_ok = True
    if not bad and arm_ok:
        ctx.ok(rule, key, b.where(), "characters without a language class get NotAlpha exactly when they are not "
               "alphabetic, otherwise Any (decision table over get_char_class x NotAlpha.matches: %d cases)" % len(table), nontrivial=True)
    else:
        ctx.fail(rule, key, b.where(),
                 "character class is no longer `lang class, else NotAlpha-if-not-alphabetic, else Any`: %s%s"
                 % ("; ".join(bad[:3]), "" if arm_ok else "; the NotAlpha predicate is not !is_alphabetic"),
                 {"witness": "title 'b-cd', query 'bcd'"})


def _run_counter(ctx, b, l, rev):
    """local `l` counts a run of pattern characters by hand: it starts at 0 and is incremented only where the pattern matched
    the character at index `l` (leading run) or at index `len - 1 - l` (trailing run, rev=True)"""
    from .. import bounds as B_
    sy = ctx.sym(b)
    cfg = ctx.cfg(b)
    ds = b.defs().get(l, [])
    incs = []
    for kind, dbi, dsi, node in ds:
        if kind != "assign":
            return False
        v = B_.lin(sy.rvalue(node["rv"]))
        if not v.co and v.c == 0:
            continue
        if v.co == {("var", l): 1} and v.c == 1:
            incs.append(dbi)
        else:
            return False
    if len(incs) != 1:
        return False
    ib = incs[0]
    for sb, bl in enumerate(b.blocks):
        t = bl["term"]
        if not t or t["k"] != "switch" or bl["cleanup"] or not cfg.dominates(sb, ib):
            continue
        bt = U.bool_switch_targets(t)
        if not bt:
            continue
        e = S.strip_refs(sy.operand(t["discr"]))
        ms = [c for c in S.walk(e) if isinstance(c, tuple) and c and c[0] == "call" and c[1].endswith("CharPattern::matches")]
        if len(ms) != 1 or not (e[0] == "call" and e[1].endswith("Option::unwrap_or") and len(e[2]) == 2 and
                                U.is_const(e[2][1]) and S.const_value(e[2][1]) is False):
            continue
        idx = [a for a in ms[0][2] for y in [S.strip_refs(a)] if y[0] == "index"]
        if len(idx) != 1:
            continue
        il = B_.lin(S.strip_refs(idx[0])[2])
        lead = il.co == {("var", l): 1} and il.c == 0
        trail = il.c == -1 and il.co.get(("var", l)) == -1 and len(il.co) == 2 and \
            all(k == ("var", l) or (isinstance(k, tuple) and k and k[0] == "len" and c == 1) for k, c in il.co.items())
        if (trail if rev else lead) and cfg.dominates(bt[1], ib) and not cfg.path_exists(bt[0], ib, avoid=[cfg.inner_header(ib)]):
            return True
    return False


def _is_word_len(e):
    """the length of the parent word, however it is read: word.len(), chars[word.slice.0 .. word.slice.1].len(), or
    word.slice.1 - word.slice.0"""
    e = S.strip_refs(e)
    if e[0] == "call" and e[1].endswith("Word::len"):
        return True
    def sl(x, k):
        p = U.field_path(x)
        return bool(p and p[2][-2:] == ["slice", str(k)])
    if e[0] == "call" and e[1].endswith("::len") and e[2]:
        x = S.strip_refs(e[2][0])
        if x[0] == "call" and x[1].endswith("Index::index") and len(x[2]) == 2:
            r = S.strip_refs(x[2][1])
            return r[0] == "agg" and r[2].endswith("Range::Range") and len(r[3]) == 2 and sl(r[3][0], 0) and sl(r[3][1], 1)
    if e[0] == "binop" and e[1] == "Sub":
        return sl(e[2], 1) and sl(e[3], 0)
    return False


def word_shape_rules(ctx, rule):
    """R15.h: WordSplit::next and WordShape::strip keep the `fin` flag and the slice arithmetic in shape"""
    facts = ctx.facts
    # WordShape::strip: fin = fin || right != 0 ; slice.0 += left ; slice.1 -= right
    b = None
    for x in facts.fns():
        if x.cn.endswith("WordShape::strip"):
            b = x
    if ctx.require(rule, "WordShape::strip", b):
        sy = ctx.sym(b)
        asg = {}
        for bi, si, st in b.iter_stmts():
            if st["k"] == "assign" and st["place"]["p"] and not b.blocks[bi]["cleanup"]:
                pl = sy.dest(st["place"])
                pth = U.field_path(pl)
                if pth and pth[0] == "arg" and pth[1] == 1:
                    v_ = sy.rvalue(st["rv"])
                    asg.setdefault(".".join(pth[2]), []).append((bi, st, v_))
                    vs_ = S.strip_refs(v_)
                    if vs_[0] == "agg" and vs_[1] == "tuple":
                        # `self.slice = (a, b)` assigns slice.0 and slice.1
                        for i_, comp in enumerate(vs_[3]):
                            asg.setdefault(".".join(pth[2] + [str(i_)]), []).append((bi, st, comp))
        def is_count_of(e, rev):
            e = S.strip_refs(e)
            if e[0] in ("phi", "local") and isinstance(e[1], int):
                return _run_counter(ctx, b, e[1], rev)
            calls = [c[1].rsplit("::", 1)[-1] for c in S.walk(e) if isinstance(c, tuple) and c and c[0] == "call"]
            return ("count" in calls) and (("rev" in calls) == rev)
        k = "strip-slice"
        s0 = asg.get("slice.0", [])
        s1 = asg.get("slice.1", [])
        ok = len(s0) == 1 and len(s1) == 1
        if ok:
            e0, e1 = s0[0][2], s1[0][2]
            ok = e0[0] == "binop" and e0[1] == "Add" and is_count_of(e0[3], False) and \
                e1[0] == "binop" and e1[1] == "Sub" and is_count_of(e1[3], True)
        if ok:
            ctx.ok(rule, k, b.where(), "strip advances slice.0 by the leading and reduces slice.1 by the trailing run", nontrivial=True)
        else:
            ctx.fail(rule, k, b.where(), "WordShape::strip no longer moves slice.0 by the leading run and slice.1 by the trailing run",
                     {"witness": "'(word)' keeps a parenthesis or loses a letter"})
        k = "strip-fin"
        fa = asg.get("fin", [])
        ok = False
        for (bi, st, e) in fa:
            alts = U.flatten_phi(e)
            # fin || right != 0   is lowered to  phi(true | right != 0)
            txt = S.show(e, b)
        # MIR lowers `a || b` into branches writing a temp; accept: some path assigns fin from `Ne(right, 0)` and another from `true`
        ne0 = False
        for bi, si, st in b.iter_stmts():
            if st["k"] == "assign" and st["rv"]["k"] == "binop" and st["rv"]["op"] in ("Ne", "Gt", "Lt", "Ge", "Le"):
                e = sy.rvalue(st["rv"])
                # right != 0, 0 != right, right > 0, 0 < right, right >= 1
                for cnt, cst, op in ((e[2], e[3], e[1]), (e[3], e[2], {"Gt": "Lt", "Lt": "Gt", "Ge": "Le", "Le": "Ge"}.get(e[1], e[1]))):
                    if U.is_const(cst) and isinstance(S.const_value(cst), int) and is_count_of(cnt, True):
                        c_ = S.const_value(cst)
                        if [U.cmp_eval(op, v_, c_) for v_ in (0, 1, 2, 9)] == [False, True, True, True]:
                            ne0 = True
        if fa and ne0:
            ctx.ok(rule, k, b.where(), "a word that loses trailing characters becomes finished (fin = fin || right != 0)", nontrivial=True)
        else:
            ctx.fail(rule, k, b.where(), "WordShape::strip no longer marks a word finished when trailing characters were stripped",
                     {"witness": "query 'foo)' keeps an unfinished last word"})
    # WordSplit::next: fin = word.fin || char_offset + len < word.len()
    nb = None
    for x in facts.fns():
        if x.kind == "method" and x.impl_trait == "std::iter::Iterator" and "WordSplit" in (x.impl_self or ""):
            nb = x
    if ctx.require(rule, "WordSplit::next", nb):
        sy = ctx.sym(nb)
        found = False
        for bi, si, st in nb.iter_stmts():
            if st["k"] == "assign" and st["rv"]["k"] == "binop" and st["rv"]["op"] == "Lt" and not nb.blocks[bi]["cleanup"]:
                e = sy.rvalue(st["rv"])
                lhs, rhs = e[2], e[3]
                if lhs[0] == "binop" and lhs[1] == "Add" and _is_word_len(rhs):
                    found = True
        k = "split-fin"
        if found:
            ctx.ok(rule, k, nb.where(), "a split word is finished when something follows it inside the parent word "
                   "(char_offset + len < word.len())", nontrivial=True)
        else:
            ctx.fail(rule, k, nb.where(), "WordSplit::next no longer derives `fin` from `char_offset + len < word.len()`",
                     {"witness": "in the query 'foo bar' the first word stays unfinished / the last word becomes finished"})
        # slice of the produced word: (word.slice.0 + char_offset, word.slice.0 + char_offset + len)
        k = "split-slice"
        good = False
        for bi, si, st in nb.iter_stmts():
            if st["k"] == "assign" and st["rv"]["k"] == "agg" and st["rv"].get("akind") == "adt" and \
                    st["rv"].get("did", "").endswith("WordShape"):
                e = sy.rvalue(st["rv"])
                names = list(e[4])
                if "slice" in names and "stem" in names:
                    sl = S.strip_refs(e[3][names.index("slice")])
                    stem = S.strip_refs(e[3][names.index("stem")])
                    if sl[0] == "agg" and len(sl[3]) == 2:
                        a0, a1 = sl[3]
                        from .. import bounds as B_
                        # end - start == stem, as linear forms (so `let end = start + len` is the same fact), and the
                        # start is an offset added to the parent word's start
                        d_ = B_.lin(a1) - B_.lin(a0) - B_.lin(stem)
                        starts_in_word = any(isinstance(k_, tuple) and k_ and k_[0] == "field" and str(k_[2]) == "0"
                                             for k_ in B_.lin(a0).co)
                        if not d_.co and d_.c == 0 and len(B_.lin(stem).co) == 1 and starts_in_word:
                            good = True
        if good:
            ctx.ok(rule, k, nb.where(), "split words span (start, start + len) with stem = len", nontrivial=True)
        else:
            ctx.fail(rule, k, nb.where(), "WordSplit::next no longer builds words as (start, start+len) with stem = len",
                     {"witness": "words overlap or lose their last character"})


CLASS_PREDICATES = {
    "Control": ("is_control", False), "Whitespace": ("is_whitespace", False), "Punctuation": ("is_punctuation", False),
    "NotAlpha": ("is_alphabetic", True), "NotAlphaNum": ("is_alphanumeric", True),
}


def class_predicates(ctx, rule):
    """R15.i: each CharClass arm of CharPattern::matches is the predicate its name says"""
    mb = None
    for b in ctx.facts.fns():
        if b.kind == "method" and b.impl_trait and b.impl_trait.endswith("CharPattern") and (b.impl_self or "").endswith("CharClass"):
            mb = b
    if not ctx.require(rule, "CharClass::matches", mb):
        return
    sw = [x for x in U.enum_switches(ctx, mb) if x[1]["id"].endswith("CharClass")]
    if not ctx.require(rule, "match-on-class", sw, mb.where()):
        return
    bi, adt, arms, other = sw[0]
    for cls, (pred, negated) in sorted(CLASS_PREDICATES.items()):
        key = "class-predicate:%s" % cls
        e = U.arm_ret_expr(ctx, mb, arms[cls]) if cls in arms else None
        ok = False
        if e is not None and e[0] == "agg" and e[2].endswith("Option::Some"):
            x = e[3][0]
            if negated and x[0] == "unop" and x[1] == "Not":
                x = x[2]
                ok = x[0] == "call" and x[1].endswith("::" + pred) and S.strip_refs(x[2][0]) == ("arg", 2)
            elif not negated:
                ok = x[0] == "call" and x[1].endswith("::" + pred) and S.strip_refs(x[2][0]) == ("arg", 2)
        if ok:
            ctx.ok(rule, key, mb.where(), "CharClass::%s matches exactly %s%s(ch)" % (cls, "!" if negated else "", pred), nontrivial=True)
        else:
            ctx.fail(rule, key, mb.where(), "CharClass::%s is no longer `%s%s(ch)`: %s" % (cls, "!" if negated else "", pred,
                                                                                         S.show(e, mb)[:120] if e else "arm not found"),
                     {"witness": "characters of that class at a word edge are kept / letters or digits are stripped, e.g. a "
                                 "non-ASCII digit '５' or a tab"})
    # Any arm: Some(true)
    e = U.arm_ret_expr(ctx, mb, arms["Any"]) if "Any" in arms else None
    if e is not None and e[0] == "agg" and e[2].endswith("Option::Some") and S.const_value(e[3][0]) is True:
        ctx.ok(rule, "class-predicate:Any", mb.where(), "CharClass::Any matches everything")
    else:
        ctx.fail(rule, "class-predicate:Any", mb.where(), "CharClass::Any no longer matches everything")


def text_methods_use_chars(ctx, rule):
    """R15.j: Text::{split, strip, set_stem, set_pos} hand the *normalised* `self.chars` to the word methods, never the
    NUL-padded original `self.source`"""
    tm = _text_methods(ctx)
    n = 0
    for name in ("split", "strip", "set_stem", "set_pos"):
        b = tm.get(name)
        if b is None:
            ctx.fail(rule, "text-method:%s" % name, "-", "Text::%s not found (fail closed)" % name)
            continue
        for b2 in [b] + U.nested_closures(ctx, b):
          sy = ctx.sym(b2)
          for bi, t in b2.calls():
            if (t.get("rcn") or "").startswith("tokenization::word_shape::WordShape::") and len(t["args"]) >= 2:
                n += 1
                _, ae = U.out_of_closure(ctx, b2, sy.operand(t["args"][1]))
                arr = U.field_path(ae)
                key = "chars-arg:%s" % name
                if arr and arr[0] == "arg" and arr[1] == 1 and arr[2] == ["chars"]:
                    ctx.ok(rule, key, where(b2, bi, t), "Text::%s passes self.chars to WordShape::%s" % (name, t["rcn"].rsplit("::", 1)[-1]))
                else:
                    ctx.fail(rule, key, where(b2, bi, t), "Text::%s passes %s instead of the normalised `chars` to WordShape::%s"
                             % (name, ".".join(arr[2]) if arr else "another array", t["rcn"].rsplit("::", 1)[-1]),
                             {"witness": "German 'Fuß': the NUL padding after 'ß' is stripped as trailing junk / the stemmer sees 'ß\\0'"})
    ctx.floor(rule, "word_method_calls_from_text", n, 4)
    # set_char_classes classifies the *normalised* characters (the class tables list folded, lower-case letters)
    b = tm.get("set_char_classes")
    if b is not None:
        key = "chars-arg:set_char_classes"
        srcs = set()
        for b2 in [b] + U.nested_closures(ctx, b):
            sy = ctx.sym(b2)
            for bi, t in b2.calls():
                if (t.get("rcn") or "").endswith("Lang::get_char_class") or (t.get("cn") or "").endswith("CharPattern::matches"):
                    ch = t["args"][1] if len(t["args"]) > 1 else None
                    if ch is None:
                        continue
                    _, e_ = U.out_of_closure(ctx, b2, sy.operand(ch))
                    for x in S.walk(e_):
                        if isinstance(x, tuple) and x and x[0] == "field" and len(x) > 3 and str(x[2]) in ("chars", "source") and \
                                (x[3] or "").endswith("text::Text"):
                            srcs.add(str(x[2]))
                    if b2.kind == "closure":
                        _, it_ = U.closure_param_item(ctx, b2)
                        for x in S.walk(it_ or ()):
                            if isinstance(x, tuple) and x and x[0] == "field" and str(x[2]) in ("chars", "source"):
                                srcs.add(str(x[2]))
        if srcs == {"chars"}:
            ctx.ok(rule, key, b.where(), "set_char_classes classifies self.chars (the normalised characters)", nontrivial=True)
        elif "source" in srcs:
            ctx.fail(rule, key, b.where(), "set_char_classes classifies the original `source` characters instead of the normalised `chars`: "
                     "an accented letter gets no language class and its typo costs differ from the folded spelling",
                     {"witness": "German store with 'Rock': query 'Rack' finds it, 'Räck' does not"})
        else:
            ctx.fail(rule, key, b.where(), "cannot see which array set_char_classes classifies (%s; fail closed)" % sorted(srcs))


def punctuation_table(ctx, rule):
    """R15.k: no character that the punctuation predicate accepts is a letter or digit (Unicode categories L*, N*)"""
    import unicodedata as ud
    b = None
    for x in ctx.facts.fns():
        if x.cn.endswith("char_class::is_punctuation"):
            b = x
    if not ctx.require(rule, "is_punctuation", b):
        return
    sy = ctx.sym(b)
    chars = []
    for bi, t in b.iter_terms():
        if t["k"] == "switch" and t.get("discr_ty") == "char":
            for val, tgt in t["targets"]:
                e = U.arm_ret_expr(ctx, b, tgt)
                if e is not None and U.is_const(e) and S.const_value(e) is True:
                    chars.append(chr(val))
    if not ctx.floor(rule, "punctuation_characters", len(chars), 10, b.where()):
        return
    bad = [c for c in chars if ud.category(c)[0] in ("L", "N")]
    key = "no-alphanumeric-punctuation"
    if not bad:
        ctx.ok(rule, key, b.where(), "none of the %d punctuation characters is a letter or digit" % len(chars), nontrivial=True)
    else:
        ctx.fail(rule, key, b.where(), "the punctuation predicate accepts letters/digits: %s" %
                 ", ".join("U+%04X %s (%s)" % (ord(c), c, ud.category(c)) for c in bad),
                 {"witness": "a word containing that letter (e.g. 'O\\u02BCahu') is cut in two and the letter lies in no word"})


def lower_rules(ctx, rule):
    """R15.l: Text::lower lower-cases every character for which `char::is_uppercase` holds: the pre-check (if any) is
    `any(|ch| ch.is_uppercase())` and the loop writes `to_lowercase().next()`"""
    tm = _text_methods(ctx)
    b = tm.get("lower")
    if not ctx.require(rule, "Text::lower", b):
        return
    sy = ctx.sym(b)
    guards = [(bi, t) for bi, t in b.calls() if U.callee_is(t, "Iterator::any", "Iterator::all", "Iterator::find", "Iterator::position")]
    key = "precheck"
    ok = True
    for bi, t in guards:
        cb = U.closure_body(ctx, sy.operand(t["args"][1]))
        e = ctx.sym(cb).local(0) if cb is not None else None
        if not (e is not None and e[0] == "call" and e[1].endswith("<impl char>::is_uppercase")):
            ok = False
            ctx.fail(rule, key, where(b, bi, t), "the pre-check of Text::lower is `%s`, not `is_uppercase`: titles whose capitals are all "
                     "non-ASCII are never lower-cased" % (S.show(e, cb)[:60] if e is not None else "?"),
                     {"witness": "Russian title 'Москва' stays capitalised; the query 'мосвка' no longer finds it"})
    # polarity: the mapping runs on the side where an upper-case character WAS found
    cfg = ctx.cfg(b)
    maps_ = U.calls_named(b, "<impl char>::to_lowercase")
    for bi, t in guards:
        if not U.callee_is(t, "Iterator::any") or not maps_ or not ok:
            continue
        for sb, bl in enumerate(b.blocks):
            tt = bl["term"]
            if not tt or tt["k"] != "switch" or bl["cleanup"]:
                continue
            bt = U.bool_switch_targets(tt)
            e = S.strip_refs(sy.operand(tt["discr"]))
            neg = False
            while e[0] == "unop" and str(e[1]).lower() == "not":
                neg = not neg
                e = S.strip_refs(e[2])
            if not bt or not (e[0] == "call" and e[1].endswith("Iterator::any") and len(e) > 3 and e[3] == bi):
                continue
            mb = maps_[0][0]
            on_true = cfg.path_exists(bt[1], mb) or bt[1] == mb
            on_false = cfg.path_exists(bt[0], mb) or bt[0] == mb
            if on_true != on_false and (on_true == neg):
                ok = False
                ctx.fail(rule, key, where(b, sb), "Text::lower maps the characters only when NO upper-case character is present (inverted pre-check)",
                         {"witness": "query 'FOO' is not lower-cased"})
    if ok:
        ctx.ok(rule, key, b.where(), "Text::lower is skipped only when no character is upper-case (char::is_uppercase)", nontrivial=True)
    # pre-check and mapping both range over the whole of self.chars (no skip / take / step_by / rev-limited sub-range)
    key = "whole-text"
    partial = []
    for bi, t in b.calls():
        if not (U.callee_is(t, "Iterator::any", "Iterator::all", "Iterator::find", "Iterator::position", "Iterator::next",
                            "Iterator::for_each") and t["args"]):
            continue
        src_, st_ = U.chain(sy.operand(t["args"][0]))
        p_ = U.field_path(src_)
        if not (p_ and p_[2] and p_[2][-1] == "chars"):
            continue
        extra = [x[0] for x in st_ if x[0] not in ("iter", "iter_mut", "into_iter", "copied", "cloned", "by_ref", "enumerate", "map", "inspect")]
        if extra:
            partial.append((bi, t, extra))
    if partial:
        bi, t, extra = partial[0]
        ctx.fail(rule, key, where(b, bi, t), "Text::lower looks at / maps only part of the text (`%s` on the character iterator)" % extra[0],
                 {"witness": "query 'Foo' (only the first letter is upper-case) is not lower-cased and finds nothing"})
    else:
        ctx.ok(rule, key, b.where(), "pre-check and mapping range over all of self.chars")
    # every character of the loop is assigned its lower case: the store is on every trip (a length / identity test in front of
    # it leaves some upper-case letters in place)
    key = "every-char-mapped"
    stores = [bi for bi, si, st in b.iter_stmts() if st["k"] == "assign" and st["place"]["p"] and not b.blocks[bi]["cleanup"]
              and st["place"]["p"][0] == "deref" and b.local_ty(st["place"]["l"]).lstrip("&mut ").strip() == "char"]
    nexts_ = [(bi, t) for bi, t in b.calls() if U.callee_is(t, "Iterator::next") and cfg.inner_header(bi) is not None]
    nexts_ = [(bi, t) for bi, t in nexts_ if stores and cfg.inner_header(stores[0]) is not None and
              cfg.inner_header(bi) == cfg.inner_header(stores[0])]          # the loop that does the mapping
    if stores and nexts_:
        nbi, nt = nexts_[0]
        tg = nt.get("target")
        sw = b.blocks[tg]["term"] if tg is not None else None
        some_t = [x for v, x in sw["targets"] if v == 1] if sw is not None and sw["k"] == "switch" else []
        if some_t and any(cfg.path_exists(some_t[0], nbi, avoid=stores) for _ in [0] if some_t[0] not in stores):
            ctx.fail(rule, key, where(b, stores[0]), "Text::lower leaves some characters of the loop unmapped (the assignment is skipped on some trip)",
                     {"witness": "'İ' (U+0130, lower case is two characters) stays upper-case inside a word"})
        else:
            ctx.ok(rule, key, where(b, stores[0]), "every character visited by the loop is assigned its lower case")
    key = "mapping"
    maps = U.calls_named(b, "<impl char>::to_lowercase")
    src = U.field_path(sy.operand(maps[0][1]["args"][0])) if maps else None
    if maps:
        ctx.ok(rule, key, where(b, maps[0][0], maps[0][1]), "characters are mapped with char::to_lowercase")
    else:
        ctx.fail(rule, key, b.where(), "Text::lower no longer maps characters with char::to_lowercase",
                 {"witness": "non-ASCII capitals are not folded"})


def per_word_stages_unconditional(ctx, rule, stages=("strip", "set_stem", "set_pos")):
    """R15.n: Text::{strip, set_stem, set_pos} visit every word on every path (no fast path that leaves the words as an
    earlier stage made them): after `strip` has shortened a word its stem must be recomputed — `stem <= len` depends on it —
    and WordShape::set_stem assigns the stem on every path."""
    tm = _text_methods(ctx)
    for name in stages:
        b = tm.get(name)
        if b is None:
            ctx.fail(rule, "every-word:%s" % name, "-", "Text::%s not found (fail closed)" % name)
            continue
        cfg = ctx.cfg(b)
        sy = ctx.sym(b)
        key = "every-word:%s" % name
        # the loop (or consuming adaptor) over self.words that calls the word method
        ok = False
        for bi, t in b.calls():
            if not (t.get("cn") or "").endswith("Iterator::next"):
                continue
            src, st = U.chain(sy.operand(t["args"][0]))
            p = U.field_path(src)
            if not (p and p[2] and p[2][-1] == "words") or [s_ for s_ in st if s_[0] not in ("iter", "iter_mut", "into_iter", "drain")]:
                continue
            if any(s_[0] == "drain" and not (s_[1] and "RangeFull" in str(S.strip_refs(s_[1][0]))) for s_ in st):
                continue                # draining a sub-range does not visit every word
            h = cfg.inner_header(bi)
            if h is None:
                continue
            calls_word = [x for x, t2 in b.calls() if (t2.get("rcn") or "").startswith("tokenization::word_shape::WordShape::")
                          and cfg.in_natural_loop(x, h)]
            tg = t.get("target")
            sw = b.blocks[tg]["term"] if tg is not None else None
            some_t = [x for v, x in sw["targets"] if v == 1] if sw is not None and sw["k"] == "switch" else []
            if calls_word and some_t and cfg.every_path_passes(0, [h]) and \
                    not any(cfg.path_exists(some_t[0], bi, avoid=calls_word) for _ in [0] if some_t[0] not in calls_word):
                ok = True
        if ok:
            ctx.ok(rule, key, b.where(), "Text::%s visits every word on every path" % name, nontrivial=True)
        else:
            ctx.fail(rule, key, b.where(), "Text::%s has a path that does not visit every word (a fast path / early return): words keep "
                     "what an earlier stage left" % name,
                     {"witness": "language without stemmer, title '100%': the stem stays longer than the stripped word and the word "
                                 "can never match"})
    # WordShape::set_stem assigns `stem` on every path
    for x in ctx.facts.fns():
        if x.cn.endswith("WordShape::set_stem"):
            sy = ctx.sym(x)
            cfg = ctx.cfg(x)
            asg = [bi for bi, si, st in x.iter_stmts() if st["k"] == "assign" and st["place"]["p"] and not x.blocks[bi]["cleanup"]
                   and (U.field_path(sy.dest(st["place"])) or (0, 0, [None]))[2][-1:] == ["stem"]]
            asg += [bi for bi, t in x.calls() if t["dest"]["p"] and (U.field_path(sy.dest(t["dest"])) or (0, 0, [None]))[2][-1:] == ["stem"]]
            key = "stem-assigned"
            if asg and cfg.every_path_passes(0, asg):
                ctx.ok(rule, key, x.where(), "WordShape::set_stem assigns the stem on every path")
            else:
                ctx.fail(rule, key, x.where(), "WordShape::set_stem can return without assigning the stem")
