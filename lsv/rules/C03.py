"""C03 — any prefix of any title word finds the record (necessary constants and shapes)."""
from . import r_gates as RG
from . import r_trigram as RT
from . import C20 as RC20
from . import r_token as RK
from .common import info


def run(ctx):
    gates = RG._gates(ctx, "R03.a")
    if gates is not None:
        RG.gate_presence(ctx, "R03.a", gates, ["jaccard", "length", "damlev"])
        RG.check_worst(ctx, "R03.a", "C03", gates, ["jaccard"])
        RG.check_worst(ctx, "R03.b", "C03", gates, ["length", "damlev"])
        RG.shape_length(ctx, "R03.b", gates, clip_rule="R03.f")
    RT.gram_iter_width(ctx, "R03.c")
    RT.shared_generator(ctx, "R03.d")
    RT.grams_from_whole_words(ctx, "R03.d")
    RT.candidate_cap(ctx, "R03.e", minimum=1)
    RT.every_posting_counted(ctx, "R03.e")
    RT.counters(ctx, "R03.e")
    RT.only_store_add_feeds_index(ctx, "R03.e")
    # record and query are folded alike: every reducible letter is reduced in both cases (normalisation precedes lower-casing)
    from . import r_lang as RL
    RL.table_rules(ctx, "R03.j", "R03.j", "R03.j", "R03.j", "R03.j")
    RT.unfinished_prefix_clip(ctx, "R03.f")
    RK.class_predicates(ctx, "R03.g")
    RK.text_methods_use_chars(ctx, "R03.g")
    from . import C10 as RC10
    from . import r_state as RS
    # scratch state (candidate counters, matcher buffers) must be fresh for every search: a stale counter makes records
    # unreachable by any prefix after an earlier, larger search
    RC10.hidden_state_inventory(ctx, "R10.e", RS.reset_before_read(ctx, "R03.h", floor=8))
    # the Jaccard pre-filter compares the two words as sets (duplicates removed on both sides)
    from . import C17 as RC17
    RC17.chain_rule(ctx, "R03.i")
    from . import r_rank as RR
    RR.search_chain_shape(ctx, "R06.a", parts=("complete", "score", "filter"))
    RC20.buffer_rules(ctx, None, None, "R20.f")
    from . import r_word as RW
    RR.hit_from_record(ctx, "R03.k")
    RW.word_field_from_lang(ctx, "R03.k", "set_stem", "stem", "Lang::stem")
    from . import C20 as _RC20
    _RC20.api_effects(ctx, "R03.l", which=("add",))
    from . import r_rank as _RR
    _RR.filter_passes(ctx, "R03.m", "one-match-passes", 1, 1, 1, "a hit with one matched word for a one-word query", "typing a prefix of a function word ('th' for 'the') finds nothing")
    from . import r_join as _RJ
    _RJ.plain_attempt_unguarded(ctx, "R03.n")
    from . import r_rank as _RR2
    from .common import Only as _Only
    # of the selection rules only what a store no larger than the limit needs: the limit reaches the selection unnarrowed
    # and every item is buffered (how exactly the cut is made is C06's business)
    _RR2.bounded_selection(_Only(ctx, ("ctor-roles", "every-item-buffered", "anchor")), "R06.a")
    _RR2.limit_provenance(ctx, "R06.a")
    from . import r_word as _RW2
    _RW2.no_shadowed_defaults(ctx, "R03.o")
    RK.sibling_agreement(ctx, "R03.p", "R03.p", stages_too=False, only=("query",))
    return info("R03.p: the query tokeniser splits and strips on the same classes as the record tokeniser. R03.o: no impl overrides a provided method of the crate's traits (Word::len / dist / is_function, LimitSort). R06.a: the bounded selection keeps `limit` items at full width (a store no larger than the limit loses no hit to the cut). R03.n: the word-to-word alternative of text_match calls word_match on every path (no pre-test in front of the gates). R03.m: a hit with one matched word for a one-word query passes hit_matches whatever the match looks like (abstract run). R03.l: add_record really adds the record to the addressed store on every call (the registry API is not exercised by the repository's tests). R03.k: a hit carries the whole title of its record (no truncation) and the stem of a word is computed from exactly the word's characters. "
                "Necessary constants/shapes for prefix search: the Jaccard gate accepts distance 1/2 (first keystroke), "
                "the length and DL gates accept distance 0, the gram iterator starts at width 1 and index writer and "
                "reader share one gram generator, the candidate cap is at least the limit, and for an unfinished query "
                "word the record side of the length/Jaccard gates is clipped to the typed length.")
