"""C15 — tokenisation well-formedness (pipeline shape)."""
from . import r_token as RK
from . import r_lang as RL
from .common import info


def run(ctx):
    RK.pipeline_order(ctx, "R15.a")
    RK.normalize_first(ctx, "R15.a")
    RK.sibling_agreement(ctx, "R15.b", "R15.c")
    RK.renumber_after_mutation(ctx, "R15.d")
    RK.drop_empty_after_strip(ctx, "R15.e")
    RK.classes_resized(ctx, "R15.f")
    RK.normalize_assigns_together(ctx, "R15.f")
    RL.reductions_never_shrink(ctx, "R15.g")
    RL.reduce_equal_length(ctx, "R15.m")
    RK.per_word_stages_unconditional(ctx, "R15.n")
    RK.word_shape_rules(ctx, "R15.h")
    RK.class_predicates(ctx, "R15.i")
    RK.text_methods_use_chars(ctx, "R15.j")
    RK.punctuation_table(ctx, "R15.k")
    RK.lower_rules(ctx, "R15.l")
    from . import r_lang as _RL
    _RL.table_rules(ctx, None, None, "R15.o", None, None, rule_m="R15.o")
    from . import r_word as _RW2
    _RW2.no_shadowed_defaults(ctx, "R15.p")
    return info("R15.p: no impl overrides a provided method of the crate's traits (Word::len / dist / is_function, LimitSort). R15.o: reduction tables are closed under case (including characters that only map TO a key, such as U+1E9E) and Lang::new starts empty. R15.a: stage order on both builder chains (normalize first; fin before split; split before strip/pos/stem; "
                "strip before pos/stem; lower before pos/stem); R15.b/c: query and record tokenisers run the same stages with "
                "equal split/strip class sets {Whitespace,Control,Punctuation}/{NotAlphaNum}, fin(false) only for queries; "
                "R15.d: every Text method that filters/replaces `words` renumbers offsets afterwards; R15.e: emptied words are "
                "dropped after strip; R15.f: classes resized to chars.len() before writing, normalize updates source/chars/"
                "slice together with the right pairing; R15.g: reductions never shrink and padding = len(norm)-len(orig); "
                "R15.h: split/strip keep the finished flag and slice arithmetic in the recognised shape. R15.i: each CharClass arm of the pattern matcher is the std predicate its name says. Stem length range "
                "(Snowball) and the scanning loops are not decided.")
