"""Shared helpers for rules."""
from fractions import Fraction

from . import sym as S
from .cfg import CFG

CMP_OPS = ("Lt", "Le", "Gt", "Ge", "Eq", "Ne")
NEG = {"Lt": "Ge", "Le": "Gt", "Gt": "Le", "Ge": "Lt", "Eq": "Ne", "Ne": "Eq"}
FLIP = {"Lt": "Gt", "Le": "Ge", "Gt": "Lt", "Ge": "Le", "Eq": "Eq", "Ne": "Ne"}
OPSTR = {"Lt": "<", "Le": "<=", "Gt": ">", "Ge": ">=", "Eq": "==", "Ne": "!="}


def is_const(e):
    return isinstance(e, tuple) and e and e[0] in ("const", "nconst") and S.const_value(e) is not None


def const_name(e):
    return e[1] if e[0] == "nconst" else None


def calls_named(body, *suffixes, include_cleanup=False):
    """call terminators whose canonical callee ends with one of the suffixes"""
    out = []
    for bi, t in body.calls(include_cleanup):
        cn = t.get("cn") or ""
        rcn = t.get("rcn") or ""
        for s in suffixes:
            if cn == s or cn.endswith("::" + s) or rcn == s or rcn.endswith("::" + s):
                out.append((bi, t))
                break
    return out


def callee_is(t, *suffixes):
    cn = t.get("cn") or ""
    rcn = t.get("rcn") or ""
    for s in suffixes:
        if cn == s or cn.endswith("::" + s) or rcn == s or rcn.endswith("::" + s):
            return True
    return False


def expr_calls(e, *suffixes):
    """sub-expressions of e that are calls to a callee ending in one of suffixes"""
    out = []
    for x in S.walk(e):
        if isinstance(x, tuple) and x and x[0] == "call":
            for s in suffixes:
                if x[1] == s or x[1].endswith("::" + s):
                    out.append(x)
                    break
    return out


def branch_reaches(cfg, switch_bb, target, goals):
    """is a goal block reachable from `target` without re-entering a dominator of the switch block
    (i.e. within the current loop iteration / straight-line continuation)?"""
    avoid = set(cfg.dom().get(switch_bb, set()))
    avoid.discard(target)
    if target in goals:
        return True
    seen = set()
    st = [target]
    while st:
        x = st.pop()
        if x in seen or x in avoid:
            continue
        seen.add(x)
        if x in goals:
            return True
        st.extend(cfg.succ[x])
    return False


def bool_switch_targets(t):
    """(false_target, true_target) of a switch on a bool, else None"""
    if t["k"] != "switch":
        return None
    tg = t["targets"]
    if len(tg) == 1 and tg[0][0] == 0:
        return tg[0][1], t["otherwise"]
    if len(tg) == 1 and tg[0][0] == 1:
        return t["otherwise"], tg[0][1]
    if len(tg) == 2 and {tg[0][0], tg[1][0]} == {0, 1}:
        d = dict((v, b) for v, b in tg)
        return d[0], d[1]
    return None


def frac(x):
    """exact rational value of a decimal literal / python number"""
    if isinstance(x, bool):
        return Fraction(int(x))
    if isinstance(x, int):
        return Fraction(x)
    if isinstance(x, float):
        return Fraction(repr(x))
    return Fraction(str(x))


def cmp_eval(op, a, b):
    return {"Lt": a < b, "Le": a <= b, "Gt": a > b, "Ge": a >= b, "Eq": a == b, "Ne": a != b}[op]


def type_kind(facts, tyname):
    return facts.ty(tyname).get("k")


def strip_ref_ty(facts, tyname):
    t = facts.ty(tyname)
    while t.get("k") in ("ref", "ptr"):
        tyname = t["to"]
        t = facts.ty(tyname)
    return tyname


def adt_of(facts, tyname):
    """def path of the ADT a type (through references) names, else None"""
    t = facts.ty(strip_ref_ty(facts, tyname))
    if t.get("k") == "adt":
        return t["did"]
    return None


def adt_args(facts, tyname):
    t = facts.ty(strip_ref_ty(facts, tyname))
    if t.get("k") == "adt":
        return t.get("args", [])
    return []


def closure_of_expr(e):
    """closure def ids mentioned (as aggregates) in expression e"""
    out = []
    for x in S.walk(e):
        if isinstance(x, tuple) and x and x[0] == "agg" and x[1] == "closure":
            out.append(x[2])
    return out


def ret_expr(ctx, body):
    return ctx.sym(body).local(0)


def flatten_phi(e):
    """alternatives of a (possibly nested) phi"""
    if isinstance(e, tuple) and e and e[0] == "phi":
        out = []
        for a in e[2]:
            out.extend(flatten_phi(a))
        return out
    return [e]


ADAPTORS = ("Iterator::map", "Iterator::filter", "Iterator::filter_map", "Iterator::enumerate", "Iterator::rev",
            "Iterator::zip", "Iterator::take", "Iterator::take_while", "Iterator::skip", "Iterator::cloned",
            "Iterator::copied", "LimitSort::limit_sort_unstable", "LimitSort::limit_sort",
            "IntoIterator::into_iter", "<impl [T]>::iter", "<impl [T]>::iter_mut", "Vec::iter", "Vec::drain",
            "Iterator::collect", "Iterator::sum", "Iterator::count", "Iterator::min", "Iterator::max",
            "Iterator::find", "Iterator::any", "Iterator::all", "Option::unwrap_or")


def chain(e):
    """unroll an iterator-adaptor expression: returns (source_expr, [(method, extra_args, call_expr)...]) from the
    source outwards"""
    stages = []
    while isinstance(e, tuple) and e and e[0] in ("ref", "deref") and len(e) == 2:
        e = e[1]
    while isinstance(e, tuple) and e and e[0] == "call" and e[2]:
        name = e[1]
        if not any(name == a or name.endswith("::" + a) for a in ADAPTORS):
            break
        short = name.rsplit("::", 1)[-1]
        stages.append((short, e[2][1:], e))
        e = e[2][0]
        # look through references to temporaries
        while isinstance(e, tuple) and e and e[0] in ("ref", "deref"):
            e = e[1]
    return e, stages[::-1]


def closure_body(ctx, e):
    """Body of the closure an expression denotes (aggregate or fn item), else None"""
    if isinstance(e, tuple) and e:
        if e[0] == "agg" and e[1] == "closure":
            return ctx.facts.bodies.get(e[2])
        if e[0] == "fn":
            return ctx.facts.bodies.get(e[1])
        if e[0] in ("ref", "deref"):
            return closure_body(ctx, e[1])
    return None


def receiver_events(ctx, body, include_cleanup=False):
    """(bi, term, receiver_key, method) for every call with at least one argument; receiver_key is the
    reference-stripped provenance of the first argument"""
    from . import sym as S_
    sy = ctx.sym(body)
    out = []
    for bi, t in body.calls(include_cleanup):
        if not t["args"]:
            continue
        r = S_.strip_refs(sy.operand(t["args"][0]))
        out.append((bi, t, r, (t.get("cn") or "?").rsplit("::", 1)[-1]))
    return out


def field_path(e):
    """('arg', i, [field names]) if e is a (ref-stripped) field path rooted at a parameter / upvar, else None"""
    from . import sym as S_
    e = S_.strip_refs(e)
    names = []
    while isinstance(e, tuple) and e and e[0] == "field":
        names.append(e[2])
        e = S_.strip_refs(e[1])
    if isinstance(e, tuple) and e and e[0] in ("arg", "upvar"):
        return (e[0], e[1] if e[0] == "arg" else e[2], names[::-1])
    return None


def enum_switches(ctx, body):
    """[(bi, enum adt, {variant name: target block}, otherwise block)] for switches on an enum discriminant"""
    out = []
    sy = ctx.sym(body)
    for bi, t in body.iter_terms():
        if t["k"] != "switch":
            continue
        d = t["discr"]
        p = d.get("copy") or d.get("move")
        if p is None:
            continue
        defs = body.defs().get(p["l"], [])
        if len(defs) != 1 or defs[0][0] != "assign" or defs[0][3]["rv"]["k"] != "discr":
            continue
        pty = defs[0][3]["rv"]["place"]["ty"]
        adt = ctx.facts.adts.get(adt_of(ctx.facts, pty) or "")
        if adt is None or adt["kind"] != "enum":
            continue
        names = {v["discr"]: v["name"] for v in adt["variants"]}
        arms = {}
        listed = set()
        for val, tgt in t["targets"]:
            arms[names.get(val, str(val))] = tgt
            listed.add(val)
        for dv, n in names.items():
            if dv not in listed:
                arms[n] = t["otherwise"]
        out.append((bi, adt, arms, t["otherwise"]))
    return out


def arm_ret_expr(ctx, body, block, limit=12):
    """expression assigned to _0 in the straight-line region starting at `block` (follows gotos and calls)"""
    sy = ctx.sym(body)
    seen = set()
    while block is not None and block not in seen and len(seen) < limit:
        seen.add(block)
        bl = body.blocks[block]
        for st in bl["stmts"]:
            if st["k"] == "assign" and st["place"]["l"] == 0 and not st["place"]["p"]:
                return sy.rvalue(st["rv"])
        t = bl["term"]
        if t["k"] == "goto":
            block = t["target"]
        elif t["k"] == "call":
            if t["dest"]["l"] == 0 and not t["dest"]["p"]:
                return sy.call_expr(t, block)
            block = t["target"]
        elif t["k"] in ("drop", "assert"):
            block = t["target"]
        else:
            return None
    return None


def agg_variant(e):
    """variant path of an enum aggregate expression like ('agg','adt','a::B::C',...) -> 'C'"""
    from . import sym as S_
    e = S_.strip_refs(e)
    if isinstance(e, tuple) and e and e[0] == "agg" and e[1] == "adt":
        return e[2].rsplit("::", 1)[-1]
    return None


def array_variants(e):
    """['A','B'] for an array aggregate of fieldless enum variants, else None"""
    from . import sym as S_
    e = S_.strip_refs(e)
    if isinstance(e, tuple) and e and e[0] == "agg" and e[1] == "array":
        out = [agg_variant(x) for x in e[3]]
        if all(out):
            return out
    v = agg_variant(e)
    if v:
        return [v]
    return None
