"""Shared helpers for rules."""
from fractions import Fraction

from . import sym as S
from .cfg import CFG

CMP_OPS = ("Lt", "Le", "Gt", "Ge", "Eq", "Ne")
NEG = {"Lt": "Ge", "Le": "Gt", "Gt": "Le", "Ge": "Lt", "Eq": "Ne", "Ne": "Eq"}
FLIP = {"Lt": "Gt", "Le": "Ge", "Gt": "Lt", "Ge": "Le", "Eq": "Eq", "Ne": "Ne"}
OPSTR = {"Lt": "<", "Le": "<=", "Gt": ">", "Ge": ">=", "Eq": "==", "Ne": "!="}


def is_const(e):
    return isinstance(e, tuple) and e and e[0] in ("const", "nconst") and S.const_value(e) is not None


def const_name(e):
    return e[1] if e[0] == "nconst" else None


def calls_named(body, *suffixes, include_cleanup=False):
    """call terminators whose canonical callee ends with one of the suffixes"""
    out = []
    for bi, t in body.calls(include_cleanup):
        cn = t.get("cn") or ""
        rcn = t.get("rcn") or ""
        for s in suffixes:
            if cn == s or cn.endswith("::" + s) or rcn == s or rcn.endswith("::" + s):
                out.append((bi, t))
                break
    return out


def callee_is(t, *suffixes):
    cn = t.get("cn") or ""
    rcn = t.get("rcn") or ""
    for s in suffixes:
        if cn == s or cn.endswith("::" + s) or rcn == s or rcn.endswith("::" + s):
            return True
    return False


def expr_calls(e, *suffixes):
    """sub-expressions of e that are calls to a callee ending in one of suffixes"""
    out = []
    for x in S.walk(e):
        if isinstance(x, tuple) and x and x[0] == "call":
            for s in suffixes:
                if x[1] == s or x[1].endswith("::" + s):
                    out.append(x)
                    break
    return out


def branch_reaches(cfg, switch_bb, target, goals):
    """is a goal block reachable from `target` without re-entering a dominator of the switch block
    (i.e. within the current loop iteration / straight-line continuation)?"""
    avoid = set(cfg.dom().get(switch_bb, set()))
    avoid.discard(target)
    if target in goals:
        return True
    seen = set()
    st = [target]
    while st:
        x = st.pop()
        if x in seen or x in avoid:
            continue
        seen.add(x)
        if x in goals:
            return True
        st.extend(cfg.succ[x])
    return False


def bool_switch_targets(t):
    """(false_target, true_target) of a switch on a bool, else None"""
    if t["k"] != "switch":
        return None
    tg = t["targets"]
    if len(tg) == 1 and tg[0][0] == 0:
        return tg[0][1], t["otherwise"]
    if len(tg) == 1 and tg[0][0] == 1:
        return t["otherwise"], tg[0][1]
    if len(tg) == 2 and {tg[0][0], tg[1][0]} == {0, 1}:
        d = dict((v, b) for v, b in tg)
        return d[0], d[1]
    return None


def max_like(ctx, body, e):
    """operands [x, y] if `e` denotes max(x, y): a call of cmp::max, or a variable assigned x on one side and y on the
    other side of a comparison of x and y such that each side takes the operand that is not smaller.  Else None."""
    from . import sym as S_
    e = S_.strip_refs(e)
    if not isinstance(e, tuple) or not e:
        return None
    if e[0] == "call" and e[1].endswith(("cmp::max", "Ord::max")) and len(e[2]) == 2:
        return [e[2][0], e[2][1]]
    if e[0] != "phi":
        return None
    sy = ctx.sym(body)
    cfg = ctx.cfg(body)
    ds = [d for d in body.defs().get(e[1], [])]
    if len(ds) != 2 or any(k != "assign" for k, _, _, _ in ds):
        return None
    (b1, v1), (b2, v2) = [(bi, sy.rvalue(node["rv"])) for _, bi, _, node in ds]
    n1, n2 = S_.norm(S_.strip_refs(v1)), S_.norm(S_.strip_refs(v2))
    for bi, t in body.iter_terms():
        bt = bool_switch_targets(t)
        if not bt or not (cfg.dominates(bi, b1) and cfg.dominates(bi, b2)):
            continue
        c = S_.strip_refs(sy.operand(t["discr"]))
        if c[0] != "binop" or c[1] not in ("Lt", "Le", "Gt", "Ge"):
            continue
        x, y = S_.norm(S_.strip_refs(c[2])), S_.norm(S_.strip_refs(c[3]))
        if {x, y} != {n1, n2} or x == y:
            continue
        # on the true side of x<y / x<=y the maximum is y; of x>y / x>=y it is x; the false side takes the other
        big_true = y if c[1] in ("Lt", "Le") else x
        big_false = x if c[1] in ("Lt", "Le") else y
        def side_of(b):
            on_t = b == bt[1] or cfg.dominates(bt[1], b)
            on_f = b == bt[0] or cfg.dominates(bt[0], b)
            return "t" if on_t and not on_f else ("f" if on_f and not on_t else None)
        s1, s2 = side_of(b1), side_of(b2)
        if {s1, s2} != {"t", "f"}:
            continue
        want1 = big_true if s1 == "t" else big_false
        want2 = big_true if s2 == "t" else big_false
        if n1 == want1 and n2 == want2:
            return [v1, v2]
    return None


def len_test(e):
    """If `e` is a boolean test of a collection's length against a constant — `len(X) <op> c`, `c <op> len(X)`,
    `X.is_empty()`, or a negation of one — return (X, f) with f(n) the truth value for length n; else None."""
    from . import sym as S_
    e = S_.strip_refs(e)
    if not isinstance(e, tuple) or not e:
        return None
    if e[0] == "unop" and str(e[1]).lower() == "not":
        r = len_test(e[2])
        if r is None:
            return None
        x, f = r
        return x, (lambda n, f=f: not f(n))
    if e[0] == "call" and e[1].endswith("::is_empty") and e[2]:
        return S_.strip_refs(e[2][0]), (lambda n: n == 0)
    if e[0] == "binop" and e[1] in CMP_OPS:
        a, b = S_.strip_refs(e[2]), S_.strip_refs(e[3])
        if a[0] == "call" and a[1].endswith("::len") and a[2] and is_const(b):
            c = S_.const_value(b)
            return S_.strip_refs(a[2][0]), (lambda n, op=e[1], c=c: cmp_eval(op, n, c))
        if b[0] == "call" and b[1].endswith("::len") and b[2] and is_const(a):
            c = S_.const_value(a)
            return S_.strip_refs(b[2][0]), (lambda n, op=e[1], c=c: cmp_eval(op, c, n))
    return None


def lexical_unsafe_blocks(repo):
    """number of `unsafe { .. }` blocks in the non-test sources of the core crate (comments, string and char literals
    and `#[cfg(test)] mod` bodies removed).  Only used as a vacuity guard: every such block contains at least one unsafe
    operation, so an analysis that sees fewer unsafe operations than there are blocks has lost sight of some."""
    import os, re
    src = os.path.join(repo, "rust", "core", "src")
    total = 0
    per_file = {}
    for dp, dn, fn in os.walk(src):
        for f in fn:
            if not f.endswith(".rs"):
                continue
            with open(os.path.join(dp, f), encoding="utf-8", errors="replace") as fh:
                s = fh.read()
            out = []
            i, n = 0, len(s)
            while i < n:
                c = s[i]
                if s.startswith("//", i):
                    j = s.find("\n", i)
                    i = n if j < 0 else j
                elif s.startswith("/*", i):
                    depth, i = 1, i + 2
                    while i < n and depth:
                        if s.startswith("/*", i):
                            depth += 1; i += 2
                        elif s.startswith("*/", i):
                            depth -= 1; i += 2
                        else:
                            i += 1
                elif c == '"':
                    i += 1
                    while i < n and s[i] != '"':
                        i += 2 if s[i] == "\\" else 1
                    i += 1
                    out.append('""')
                elif c == "r" and re.match(r'r#*"', s[i:i + 8]):
                    m = re.match(r'r(#*)"', s[i:i + 8])
                    end = s.find('"' + m.group(1), i + len(m.group(0)))
                    i = n if end < 0 else end + 1 + len(m.group(1))
                    out.append('""')
                elif c == "'" and re.match(r"'(\\.[^']*|[^'\\])'", s[i:i + 12]):
                    m = re.match(r"'(\\.[^']*|[^'\\])'", s[i:i + 12])
                    i += len(m.group(0))
                    out.append("' '")
                else:
                    out.append(c)
                    i += 1
            t = "".join(out)
            # drop #[cfg(test)] mod bodies
            while True:
                m = re.search(r"#\[cfg\(test\)\]\s*(pub\s+)?mod\s+\w+\s*\{", t)
                if not m:
                    break
                depth, k = 1, m.end()
                while k < len(t) and depth:
                    depth += t[k] == "{"
                    depth -= t[k] == "}"
                    k += 1
                t = t[:m.start()] + t[k:]
            c_ = len(re.findall(r"\bunsafe\s*\{", t))
            if c_:
                per_file[os.path.relpath(os.path.join(dp, f), src)] = c_
            total += c_
    return total, per_file


def frac(x):
    """exact rational value of a decimal literal / python number"""
    if isinstance(x, bool):
        return Fraction(int(x))
    if isinstance(x, int):
        return Fraction(x)
    if isinstance(x, float):
        return Fraction(repr(x))
    return Fraction(str(x))


def cmp_eval(op, a, b):
    return {"Lt": a < b, "Le": a <= b, "Gt": a > b, "Ge": a >= b, "Eq": a == b, "Ne": a != b}[op]


def type_kind(facts, tyname):
    return facts.ty(tyname).get("k")


def strip_ref_ty(facts, tyname):
    t = facts.ty(tyname)
    while t.get("k") in ("ref", "ptr"):
        tyname = t["to"]
        t = facts.ty(tyname)
    return tyname


def adt_of(facts, tyname):
    """def path of the ADT a type (through references) names, else None"""
    t = facts.ty(strip_ref_ty(facts, tyname))
    if t.get("k") == "adt":
        return t["did"]
    return None


def adt_args(facts, tyname):
    t = facts.ty(strip_ref_ty(facts, tyname))
    if t.get("k") == "adt":
        return t.get("args", [])
    return []


def closure_of_expr(e):
    """closure def ids mentioned (as aggregates) in expression e"""
    out = []
    for x in S.walk(e):
        if isinstance(x, tuple) and x and x[0] == "agg" and x[1] == "closure":
            out.append(x[2])
    return out


def ret_expr(ctx, body):
    return ctx.sym(body).local(0)


def flatten_phi(e):
    """alternatives of a (possibly nested) phi"""
    if isinstance(e, tuple) and e and e[0] == "phi":
        out = []
        for a in e[2]:
            out.extend(flatten_phi(a))
        return out
    return [e]


ADAPTORS = ("Iterator::flatten", "Iterator::flat_map", "Iterator::inspect", "Iterator::map", "Iterator::filter", "Iterator::filter_map", "Iterator::enumerate", "Iterator::rev",
            "Iterator::zip", "Iterator::take", "Iterator::take_while", "Iterator::skip", "Iterator::cloned",
            "Iterator::copied", "LimitSort::limit_sort_unstable", "LimitSort::limit_sort",
            "IntoIterator::into_iter", "<impl [T]>::iter", "<impl [T]>::iter_mut", "Vec::iter", "Vec::drain",
            "Iterator::collect", "Iterator::sum", "Iterator::count", "Iterator::min", "Iterator::max", "Iterator::min_by_key",
            "Iterator::max_by_key",
            "Iterator::find", "Iterator::any", "Iterator::all", "Option::unwrap_or")


def chain(e):
    """unroll an iterator-adaptor expression: returns (source_expr, [(method, extra_args, call_expr)...]) from the
    source outwards"""
    stages = []
    while isinstance(e, tuple) and e and e[0] in ("ref", "deref") and len(e) == 2:
        e = e[1]
    while isinstance(e, tuple) and e and e[0] == "call" and e[2]:
        name = e[1]
        if not any(name == a or name.endswith("::" + a) for a in ADAPTORS):
            break
        short = name.rsplit("::", 1)[-1]
        stages.append((short, e[2][1:], e))
        e = e[2][0]
        # look through references to temporaries
        while isinstance(e, tuple) and e and e[0] in ("ref", "deref"):
            e = e[1]
    return e, stages[::-1]


def closure_body(ctx, e):
    """Body of the closure an expression denotes (aggregate or fn item), else None"""
    if isinstance(e, tuple) and e:
        if e[0] == "agg" and e[1] == "closure":
            return ctx.facts.bodies.get(e[2])
        if e[0] == "fn":
            return ctx.facts.bodies.get(e[1])
        if e[0] in ("ref", "deref"):
            return closure_body(ctx, e[1])
    return None


def receiver_events(ctx, body, include_cleanup=False):
    """(bi, term, receiver_key, method) for every call with at least one argument; receiver_key is the
    reference-stripped provenance of the first argument"""
    from . import sym as S_
    sy = ctx.sym(body)
    out = []
    for bi, t in body.calls(include_cleanup):
        if not t["args"]:
            continue
        r = S_.strip_refs(sy.operand(t["args"][0]))
        out.append((bi, t, r, (t.get("cn") or "?").rsplit("::", 1)[-1]))
    return out


def field_path(e):
    """('arg', i, [field names]) if e is a (ref-stripped) field path rooted at a parameter / upvar, else None"""
    from . import sym as S_
    e = S_.strip_refs(e)
    names = []
    while isinstance(e, tuple) and e and e[0] == "field":
        names.append(e[2])
        e = S_.strip_refs(e[1])
    if isinstance(e, tuple) and e and e[0] in ("arg", "upvar"):
        return (e[0], e[1] if e[0] == "arg" else e[2], names[::-1])
    return None


def out_of_closure(ctx, body, e, depth=0):
    """(body', e'): the expression re-rooted in the body that created the closure, when `e` is a field path rooted at a
    captured variable (followed through nested closures); otherwise (body, e)"""
    from . import sym as S_
    if depth > 4 or body.kind != "closure":
        return body, e
    x = S_.strip_refs(e)
    chain_ = []
    while isinstance(x, tuple) and x and x[0] == "field":
        chain_.append(x)
        x = S_.strip_refs(x[1])
    if not (isinstance(x, tuple) and x and x[0] == "upvar"):
        return body, e
    pb, pe = ctx.model.upvar_expr(body, x[1])
    if pb is None:
        return body, e
    cur = pe
    for f in reversed(chain_):
        cur = (f[0], cur) + tuple(f[2:])
    return out_of_closure(ctx, pb, cur, depth + 1)


ITEM_NEUTRAL = ("iter", "into_iter", "iter_mut", "copied", "cloned", "rev", "filter", "take", "skip", "take_while", "skip_while",
                "peekable", "by_ref", "fuse", "chain", "step_by", "inspect")


def subst(e, f):
    """rebuild expression `e`, replacing every sub-expression x for which f(x) is not None by f(x)"""
    if not isinstance(e, tuple) or not e:
        return e
    r = f(e)
    if r is not None:
        return r
    return tuple(subst(x, f) if isinstance(x, tuple) else x for x in e)


def item_expr(ctx, body, it, depth=0):
    """symbolic element of the iterator expression `it` (an adaptor chain in `body`):
       ('item', X)   an element of the collection / slice X (X re-rooted out of closures, references stripped)
       f(item)       for map(f): the closure's return expression with its parameter replaced by the upstream element
    Returns (body', expr) or (None, None) when the chain is not understood."""
    from . import sym as S_
    if depth > 6:
        return None, None
    src, stages = chain(it)
    cur_b, cur = out_of_closure(ctx, body, src)
    cur = ("item", S_.strip_sites(S_.strip_refs(cur)))
    for name, extra, call in stages:
        if name in ITEM_NEUTRAL:
            continue
        if name == "map" and extra:
            cb = closure_body(ctx, extra[0])
            if cb is None:
                return None, None
            r = ctx.sym(cb).local(0)
            item = cur

            def f(x, cb=cb, item=item):
                y = S_.strip_refs(x) if x and x[0] in ("ref", "deref") else x
                if y == ("arg", 2):
                    return item
                if y and y[0] == "upvar":
                    pb, pe = out_of_closure(ctx, cb, y)
                    if pe is not y:
                        return S_.strip_sites(S_.strip_refs(pe))
                return None
            cur = subst(r, f)
            continue
        if name == "enumerate":
            cur = ("agg", "tuple", "", (("index-of", cur), cur), ())
            continue
        return None, None
    return cur_b, cur


def closure_param_item(ctx, cb):
    """what the (single) parameter of closure `cb` stands for when the closure is an argument of an iterator adaptor
    (map / flat_map / for_each / filter ..): the element of the upstream iterator, as item_expr describes it"""
    c = ctx.model.creation.get(cb.id)
    if c is None:
        return None, None
    pb, bi, si, st = c
    psy = ctx.sym(pb)
    for cbi, t in pb.calls():
        if len(t["args"]) < 2:
            continue
        for ai, a in enumerate(t["args"][1:], 1):
            if closure_body(ctx, psy.operand(a)) is cb:
                m = (t.get("cn") or "").rsplit("::", 1)[-1]
                if m in ("map", "flat_map", "for_each", "filter", "filter_map", "find", "any", "all", "take_while", "skip_while",
                         "find_map", "position", "inspect", "fold"):
                    return item_expr(ctx, pb, psy.operand(t["args"][0]))
    return None, None


def rooted(ctx, body, e, depth=0):
    """expression with every captured variable replaced by what the creating body captured (recursively); parameters of
    an outer body appear as ('parg', body id, k) so that they cannot be confused with the closure's own parameters"""
    from . import sym as S_
    if depth > 4 or not isinstance(e, tuple) or not e:
        return e

    def f(x):
        if x[0] == "upvar":
            pb, pe = ctx.model.upvar_expr(body, x[1])
            if pb is None:
                return None
            pe = rooted(ctx, pb, S_.strip_sites(S_.strip_refs(pe)), depth + 1)
            return subst(pe, lambda y, pb=pb: ("parg", pb.id, y[1]) if y[0] == "arg" else None)
        return None
    if body.kind != "closure":
        return e
    return subst(e, f)


def param_sources(ctx, body, k):
    """what the callers pass for parameter k (1-based) of a fn/method: [(caller body, expr)] over all direct call sites"""
    out = []
    for (src, bi) in ctx.cg.sites_of.get(body.id, []):
        sb = ctx.facts.bodies[src]
        t = sb.blocks[bi]["term"]
        if k - 1 < len(t["args"]):
            out.append((sb, ctx.sym(sb).operand(t["args"][k - 1])))
    return out


def nested_closures(ctx, body, depth=3):
    """closures written in `body` or created there (a closure of an inlined helper keeps the helper's name), recursively"""
    out = []
    mine = list(ctx.facts.closures_of(body))
    try:
        for cid, c in ctx.model.creation.items():
            cb = ctx.facts.bodies.get(cid)
            if c[0].id == body.id and cb is not None and cb not in mine:
                mine.append(cb)
    except AttributeError:
        pass
    for c in mine:
        if c in out:
            continue
        out.append(c)
        if depth > 0:
            out.extend(x for x in nested_closures(ctx, c, depth - 1) if x not in out)
    return out


def enum_switches(ctx, body):
    """[(bi, enum adt, {variant name: target block}, otherwise block)] for switches on an enum discriminant"""
    out = []
    sy = ctx.sym(body)
    for bi, t in body.iter_terms():
        if t["k"] != "switch":
            continue
        d = t["discr"]
        p = d.get("copy") or d.get("move")
        if p is None:
            continue
        defs = body.defs().get(p["l"], [])
        if len(defs) != 1 or defs[0][0] != "assign" or defs[0][3]["rv"]["k"] != "discr":
            continue
        pty = defs[0][3]["rv"]["place"]["ty"]
        adt = ctx.facts.adts.get(adt_of(ctx.facts, pty) or "")
        if adt is None or adt["kind"] != "enum":
            continue
        names = {v["discr"]: v["name"] for v in adt["variants"]}
        arms = {}
        listed = set()
        for val, tgt in t["targets"]:
            arms[names.get(val, str(val))] = tgt
            listed.add(val)
        for dv, n in names.items():
            if dv not in listed:
                arms[n] = t["otherwise"]
        out.append((bi, adt, arms, t["otherwise"]))
    return out


def arm_ret_expr(ctx, body, block, limit=12):
    """expression assigned to _0 in the straight-line region starting at `block` (follows gotos and calls)"""
    sy = ctx.sym(body)
    seen = set()
    last = {}       # locals assigned inside the region (an inlined helper returns through a temporary)
    while block is not None and block not in seen and len(seen) < limit:
        seen.add(block)
        bl = body.blocks[block]
        for st in bl["stmts"]:
            if st["k"] == "assign" and not st["place"]["p"] and st["place"]["l"] != 0:
                rv = st["rv"]
                src = (rv["op"].get("copy") or rv["op"].get("move")) if rv["k"] == "use" else None
                if src is not None and not src["p"] and src["l"] in last:
                    last[st["place"]["l"]] = last[src["l"]]
                else:
                    last[st["place"]["l"]] = sy.rvalue(rv)
            if st["k"] == "assign" and st["place"]["l"] == 0 and not st["place"]["p"]:
                rv = st["rv"]
                src = (rv["op"].get("copy") or rv["op"].get("move")) if rv["k"] == "use" else None
                if src is not None and not src["p"] and src["l"] in last:
                    return last[src["l"]]
                return sy.rvalue(st["rv"])
        t = bl["term"]
        if t["k"] == "goto":
            block = t["target"]
        elif t["k"] == "call":
            if t["dest"]["l"] == 0 and not t["dest"]["p"]:
                return sy.call_expr(t, block)
            block = t["target"]
        elif t["k"] in ("drop", "assert"):
            block = t["target"]
        else:
            return None
    return None


def agg_variant(e):
    """variant path of an enum aggregate expression like ('agg','adt','a::B::C',...) -> 'C'"""
    from . import sym as S_
    e = S_.strip_refs(e)
    if isinstance(e, tuple) and e and e[0] == "agg" and e[1] == "adt":
        return e[2].rsplit("::", 1)[-1]
    return None


def array_variants(e, facts=None):
    """['A','B'] for an array aggregate of fieldless enum variants, else None.  With `facts`, a named constant whose
    initialiser is such an array (`const SEPARATORS: [CharClass; 3] = [..]`) is read through its initialiser."""
    from . import sym as S_
    e = S_.strip_refs(e)
    if facts is not None and isinstance(e, tuple) and e and e[0] == "nconst":
        cb = facts.all_bodies.get(e[1]) or facts.bodies.get(e[1])
        if cb is not None and getattr(cb, "kind", None) in ("const", "static"):
            e = S_.strip_refs(S_.Sym(cb, facts).local(0))
    if isinstance(e, tuple) and e and e[0] == "agg" and e[1] == "array":
        out = [agg_variant(x) for x in e[3]]
        if all(out):
            return out
    v = agg_variant(e)
    if v:
        return [v]
    return None


def unfold_struct_calls(ctx, e, depth=0):
    """Rewrite `call g(args).f` — g a function of the crate whose result is one struct literal — to that literal's field f
    with g's parameters replaced by the arguments (bottom-up, a few levels): a method that builds its result by delegating
    to a sibling (`self.to_shape().join(&other.to_shape())`) is read like the sibling's formula."""
    from . import sym as S_
    if not isinstance(e, tuple) or not e or depth > 4:
        return e
    e = tuple(unfold_struct_calls(ctx, x, depth) if isinstance(x, tuple) else x for x in e)
    if e[0] == "field":
        base = S_.strip_refs(e[1])
        if base[0] == "agg" and base[1] == "tuple" and str(e[2]).isdigit() and int(e[2]) < len(base[3]):
            return base[3][int(e[2])]
        if base[0] == "agg" and base[1] == "adt" and len(base) > 4 and str(e[2]) in [str(n) for n in base[4]]:
            return base[3][[str(n) for n in base[4]].index(str(e[2]))]
        if base[0] == "call":
            bs = [b for b in ctx.facts.fns() if b.cn == base[1] and b.kind in ("fn", "method")]
            if len(bs) == 1:
                r = S_.strip_refs(ctx.sym(bs[0]).local(0))
                if r[0] == "agg" and r[1] == "adt" and str(e[2]) in [str(n) for n in r[4]]:
                    comp = r[3][[str(n) for n in r[4]].index(str(e[2]))]
                    args = base[2]
                    comp = subst(comp, lambda y: args[y[1] - 1] if y[0] == "arg" and 0 < y[1] <= len(args) else None)
                    return unfold_struct_calls(ctx, comp, depth + 1)
    return e
