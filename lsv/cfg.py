"""A4: control-flow helpers over one MIR body (normal edges only; cleanup excluded)."""


def term_succs(t, include_unwind=False):
    if t is None:
        return []
    k = t["k"]
    out = []
    if k == "goto":
        out = [t["target"]]
    elif k == "switch":
        out = [x[1] for x in t["targets"]] + [t["otherwise"]]
    elif k in ("drop", "assert"):
        out = [t["target"]]
    elif k == "call":
        out = [t["target"]] if t["target"] is not None else []
    elif k in ("return", "unreachable", "resume", "terminate"):
        out = []
    else:
        out = []
    if include_unwind and t.get("unwind") is not None:
        out = out + [t["unwind"]]
    return out


class CFG:
    def __init__(self, body):
        self.body = body
        n = len(body.blocks)
        self.n = n
        self.succ = [[] for _ in range(n)]
        self.pred = [[] for _ in range(n)]
        for bi, b in enumerate(body.blocks):
            if b["cleanup"]:
                continue
            for s in term_succs(b["term"]):
                # constant switch (debug_assert!'s cfg!(debug_assertions)) keeps both edges
                if s not in self.succ[bi]:
                    self.succ[bi].append(s)
                    self.pred[s].append(bi)
        self.reach = self._reach_from(0)
        self.returns = [bi for bi in self.reach
                        if body.blocks[bi]["term"] and body.blocks[bi]["term"]["k"] == "return"]
        self._dom = None
        self._pdom = None

    def _reach_from(self, start, avoid=()):
        seen = set()
        st = [start]
        while st:
            x = st.pop()
            if x in seen or x in avoid:
                continue
            seen.add(x)
            st.extend(self.succ[x])
        return seen

    def reachable_from(self, start, avoid=()):
        return self._reach_from(start, avoid)

    # ------------------------------------------------------------ dominators
    def _dominators(self, entry_list, succ, pred, nodes):
        dom = {x: set(nodes) for x in nodes}
        for e in entry_list:
            dom[e] = {e}
        changed = True
        order = sorted(nodes)
        while changed:
            changed = False
            for x in order:
                if x in entry_list:
                    continue
                ps = [p for p in pred[x] if p in dom]
                if not ps:
                    new = {x}
                else:
                    new = set.intersection(*[dom[p] for p in ps]) | {x}
                if new != dom[x]:
                    dom[x] = new
                    changed = True
        return dom

    def dom(self):
        if self._dom is None:
            self._dom = self._dominators([0], self.succ, self.pred, self.reach)
        return self._dom

    def pdom(self):
        """post-dominators w.r.t. the return blocks (panicking exits ignored)."""
        if self._pdom is None:
            # nodes that can reach a return
            can = set()
            st = list(self.returns)
            while st:
                x = st.pop()
                if x in can:
                    continue
                can.add(x)
                st.extend(p for p in self.pred[x] if p in self.reach)
            EXIT = -1
            nodes = set(can) | {EXIT}
            succ = {x: [s for s in self.succ[x] if s in can] for x in can}
            for r in self.returns:
                succ[r] = succ[r] + [EXIT]
            succ[EXIT] = []
            pred = {x: [] for x in nodes}
            for x in succ:
                for s_ in succ[x]:
                    pred[s_].append(x)
            # dominators on the reversed graph
            self._pdom = self._dominators([EXIT], pred, succ, nodes)
            self._can_return = can
        return self._pdom

    def dominates(self, a, b):
        """block a dominates block b"""
        return a in self.dom().get(b, set())

    def postdominates(self, a, b):
        """every path from b to a return passes a"""
        pd = self.pdom()
        return b in pd and a in pd[b]

    def every_path_passes(self, start, through, to_returns=True):
        """True iff every path from `start` to a return visits a block in `through`."""
        through = set(through)
        if start in through:
            return True
        seen = set()
        st = [start]
        while st:
            x = st.pop()
            if x in seen or x in through:
                continue
            seen.add(x)
            if x in self.returns:
                return False
            st.extend(self.succ[x])
        return True

    def path_exists(self, a, b, avoid=()):
        """path a ->+ b (at least one edge) avoiding blocks in `avoid`"""
        seen = set()
        st = list(self.succ[a])
        while st:
            x = st.pop()
            if x in seen or x in avoid:
                continue
            if x == b:
                return True
            seen.add(x)
            st.extend(self.succ[x])
        return False

    def in_loop(self, b):
        return self.path_exists(b, b)

    def headers(self):
        """blocks that are targets of a back edge"""
        hs = set()
        for h in self.reach:
            for p in self.pred[h]:
                if p in self.reach and self.dominates(h, p):
                    hs.add(h)
        return hs

    def in_natural_loop(self, b, h):
        """b belongs to the natural loop of header h: b reaches a back-edge source of h without passing h"""
        if b == h:
            return True
        srcs = [p for p in self.pred[h] if p in self.reach and self.dominates(h, p)]
        for p in srcs:
            if b == p or self.path_exists(b, p, avoid=[h]):
                return True
        return False

    def inner_header(self, b):
        """header of the innermost loop containing block b"""
        cands = [h for h in self.headers() if self.dominates(h, b) and self.in_natural_loop(b, h)]
        if not cands:
            return None
        return max(cands, key=lambda h: len(self.dom()[h]))

    def loop_header(self, b):
        """header of the outermost loop containing block b (None when b is not in a loop)"""
        if not self.in_loop(b):
            return None
        cands = [h for h in self.headers() if self.dominates(h, b) and self.in_natural_loop(b, h)]
        if not cands:
            return None
        return min(cands, key=lambda h: len(self.dom()[h]))


# position helpers: a program point is (block, index) where index == len(stmts) means the terminator
def before(cfg, p, q):
    """p happens-before q on every path reaching q (dominance at statement granularity)."""
    (pb, pi), (qb, qi) = p, q
    if pb == qb:
        return pi < qi and not cfg.in_loop(pb) or (pi < qi)
    return cfg.dominates(pb, qb)
