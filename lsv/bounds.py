"""A8: bounds obligations for unchecked accesses, discharged in a small linear-inequality domain.

A fact / obligation is a linear form  sum(coef * atom) + const >= 0  over integer atoms.  Atoms are normalised
provenance expressions (loop indices, `len(slice)`, a matrix `size`, mutable locals as ('var', l)).  An obligation is
discharged when it equals a sum of at most MAXK facts plus a non-negative constant (a positive combination with
unit multipliers — enough for the chains that occur: index < len <= len' <= size - 2).  No solver is involved.
"""
from itertools import combinations

from . import sym as S
from . import util as U

MAXK = 5


def devar(e):
    """replace joins of several definitions by an opaque variable atom"""
    if not isinstance(e, tuple) or not e:
        return e
    if e[0] == "field" and str(e[2]) == "0" and isinstance(e[1], tuple) and e[1] and e[1][0] == "down" and e[1][2] == "Some":
        # payload of an Option that is `Some` here: if the Option variable is assigned one `Some(x)` and otherwise `None`,
        # the payload is x
        inner = S.strip_refs(e[1][1])
        if inner[0] == "phi":
            alts = U.flatten_phi(inner)
            somes = [a for a in alts if a[0] == "agg" and a[2].endswith("Option::Some")]
            nones = [a for a in alts if a[0] == "agg" and a[2].endswith("Option::None")]
            if len(somes) == 1 and len(somes) + len(nones) == len(alts) and somes[0][3]:
                return devar(somes[0][3][0])
        if inner[0] == "agg" and inner[2].endswith("Option::Some") and inner[3]:
            return devar(inner[3][0])
    if e[0] == "field" and isinstance(e[1], tuple) and e[1] and S.strip_refs(e[1])[0] == "agg" and S.strip_refs(e[1])[1] == "tuple" \
            and str(e[2]).isdigit() and int(e[2]) < len(S.strip_refs(e[1])[3]):
        return devar(S.strip_refs(e[1])[3][int(e[2])])
    if e[0] == "phi":
        return ("var", e[1])
    if e[0] == "local":
        return ("var", e[1])
    return tuple(devar(x) for x in e)


def norm_atom(e):
    return S.strip_sites(S.strip_refs(devar(e)))


class Lin:
    __slots__ = ("co", "c")

    def __init__(self, co=None, c=0):
        self.co = {k: v for k, v in (co or {}).items() if v}
        self.c = c

    def __add__(self, o):
        co = dict(self.co)
        for k, v in o.co.items():
            co[k] = co.get(k, 0) + v
        return Lin(co, self.c + o.c)

    def __sub__(self, o):
        co = dict(self.co)
        for k, v in o.co.items():
            co[k] = co.get(k, 0) - v
        return Lin(co, self.c - o.c)

    def plus(self, n):
        return Lin(self.co, self.c + n)

    def key(self):
        return (tuple(sorted((repr(k), v) for k, v in self.co.items())), self.c)


def lin(e):
    """linear form of an (integer) expression; non-linear sub-terms become atoms"""
    e = S.strip_refs(devar(e))
    if U.is_const(e) and isinstance(S.const_value(e), int) and not isinstance(S.const_value(e), bool):
        return Lin({}, S.const_value(e))
    if e[0] == "binop" and e[1] in ("Add", "Sub"):
        a, b = lin(e[2]), lin(e[3])
        return a + b if e[1] == "Add" else a - b
    if e[0] == "cast" and e[1] == "IntToInt":
        return lin(e[2])
    if e[0] == "call" and e[2] and e[1].endswith("::len") and e[1].startswith(("core::slice::<impl [T]>", "std::vec::Vec", "alloc::vec::Vec")):
        # the length of a slice / vector is one atom however it is read (len() call, slice pattern, cached local)
        return Lin({("len", norm_atom(e[2][0])): 1}, 0)
    return Lin({norm_atom(e): 1}, 0)


class Fact:
    def __init__(self, form, why):
        self.form = form      # >= 0
        self.why = why


def ge(a, b, why):
    """a >= b"""
    return Fact(a - b, why)


def gt(a, b, why):
    return Fact((a - b).plus(-1), why)


def prove(ob, facts):
    """ob: Lin that must be >= 0.  Returns the list of facts used, or None."""
    if not ob.co and ob.c >= 0:
        return []
    atoms = set(ob.co)
    rel = [f for f in facts if set(f.form.co)]
    for k in range(1, MAXK + 1):
        for combo in combinations(rel, k):
            tot = Lin()
            for f in combo:
                tot = tot + f.form
            rest = ob - tot
            if not rest.co and rest.c >= 0:
                return list(combo)
    return None


# ------------------------------------------------------------------ fact sources

def index_facts(e, facts, seen=None):
    """facts about loop-index atoms occurring in expression e"""
    seen = seen if seen is not None else set()
    for x in S.walk(S.strip_refs(e)):
        if not isinstance(x, tuple) or not x:
            continue
        # (next(into_iter(enumerate(iter(X)))) as Some).0.0
        if x[0] == "field" and str(x[2]) == "0":
            inner = S.strip_refs(x[1])
            if inner[0] == "field" and str(inner[2]) == "0":
                d = S.strip_refs(inner[1])
                if d[0] == "down":
                    nx = S.strip_refs(d[1])
                    if nx[0] == "call" and nx[1].endswith("Iterator::next"):
                        src, stages = U.chain(nx[2][0])
                        names = [s_[0] for s_ in stages]
                        if names[:2] == ["iter", "enumerate"] and all(n == "into_iter" for n in names[2:]):
                            a = norm_atom(x)
                            if a not in seen:
                                seen.add(a)
                                ln = Lin({("len", norm_atom(src)): 1})
                                facts.append(gt(ln, Lin({a: 1}), "enumerate index < len(%s)" % S.show(src)[:60]))
                                facts.append(ge(Lin({a: 1}), Lin(), "index >= 0"))
                        elif names[:3] == ["iter", "zip", "enumerate"] and all(n == "into_iter" for n in names[3:]):
                            # X.iter().zip(Y.iter()).enumerate(): the pair sequence is as long as the shorter side
                            zs = [st_ for st_ in stages if st_[0] == "zip"][0]
                            srcs = [src]
                            if zs[1]:
                                s2, st2 = U.chain(zs[1][0])
                                if all(n_[0] in ("iter", "into_iter") for n_ in st2):
                                    srcs.append(s2)
                            a = norm_atom(x)
                            if a not in seen:
                                seen.add(a)
                                for sx in srcs:
                                    facts.append(gt(Lin({("len", norm_atom(sx)): 1}), Lin({a: 1}), "enumerate index over a zip < len(%s)" % S.show(sx)[:60]))
                                facts.append(ge(Lin({a: 1}), Lin(), "index >= 0"))
            elif inner[0] == "down":
                nx = S.strip_refs(inner[1])
                if nx[0] == "call" and nx[1].endswith("Iterator::next"):
                    src, stages = U.chain(nx[2][0])
                    s0 = S.strip_refs(src)
                    if s0[0] == "agg" and s0[2].endswith("Range::Range") and all(st[0] in ("into_iter", "rev", "clone") for st in stages):
                        a = norm_atom(x)
                        if a not in seen:
                            seen.add(a)
                            lo, hi = lin(s0[3][0]), lin(s0[3][1])
                            facts.append(ge(Lin({a: 1}), lo, "range index >= start"))
                            facts.append(gt(hi, Lin({a: 1}), "range index < end"))
                    elif s0[0] == "call" and s0[1].endswith("RangeInclusive::<Idx>::new") or \
                            (s0[0] == "call" and s0[1].endswith("RangeInclusive::new")):
                        if len(s0[2]) == 2 and all(st[0] in ("into_iter", "rev", "clone") for st in stages):
                            a = norm_atom(x)
                            if a not in seen:
                                seen.add(a)
                                lo, hi = lin(s0[2][0]), lin(s0[2][1])
                                facts.append(ge(Lin({a: 1}), lo, "inclusive range index >= start"))
                                facts.append(ge(hi, Lin({a: 1}), "inclusive range index <= end"))
    return facts


def guard_facts(ctx, body, site_bi, facts, before_site_stmts=False):
    """facts from comparisons whose outcome is fixed on every path to the site block, provided the compared
    variables are not reassigned between the guard and the site"""
    sy = ctx.sym(body)
    cfg = ctx.cfg(body)
    defs = body.defs()
    for gbi, t in body.iter_terms():
        bt = U.bool_switch_targets(t)
        if not bt or not cfg.dominates(gbi, site_bi) or gbi == site_bi:
            continue
        e = sy.operand(t["discr"])
        if e[0] != "binop" or e[1] not in ("Lt", "Le", "Gt", "Ge", "Eq", "Ne"):
            continue
        to_true = U.branch_reaches(cfg, gbi, bt[1], {site_bi})
        to_false = U.branch_reaches(cfg, gbi, bt[0], {site_bi})
        if to_true == to_false:
            continue
        op = e[1] if to_true else U.NEG[e[1]]
        if op in ("Eq", "Ne"):
            # unsigned x != 0  is  x > 0
            if op == "Ne" and U.is_const(e[3]) and S.const_value(e[3]) == 0:
                e, op = ("binop", "Gt", e[2], e[3]), "Gt"
            elif op == "Ne" and U.is_const(e[2]) and S.const_value(e[2]) == 0:
                e, op = ("binop", "Gt", e[3], e[2]), "Gt"
            else:
                continue
        a, b = lin(e[2]), lin(e[3])
        # variables must be stable from the guard to the site
        vars_ = [k[1] for k in list(a.co) + list(b.co) if isinstance(k, tuple) and k and k[0] == "var"]
        target = bt[1] if to_true else bt[0]
        region = cfg.reachable_from(target, avoid=[gbi]) if target != site_bi else {site_bi}
        region = set(x for x in region if x == site_bi or cfg.path_exists(x, site_bi, avoid=[gbi]))
        stable = True
        for l in vars_:
            for kind, dbi, dsi, node in defs.get(l, []):
                if dbi in region and dbi != site_bi:
                    stable = False
                if dbi == site_bi and kind == "assign" and not before_site_stmts:
                    stable = False
        # memory-backed atoms (fields reached through a reference) must not be written in the region either
        if stable:
            mem_atoms = [k for k in list(a.co) + list(b.co) if isinstance(k, tuple) and k and k[0] == "field"]
            if mem_atoms:
                for rb in region:
                    if rb == site_bi:
                        continue
                    for st in body.blocks[rb]["stmts"]:
                        if st["k"] == "assign" and st["place"]["p"]:
                            if norm_atom(sy.dest(st["place"])) in mem_atoms:
                                stable = False
        if not stable:
            continue
        why = "guard at bb%d: %s" % (gbi, S.show(e, body)[:80])
        if op == "Lt":
            facts.append(gt(b, a, why))
        elif op == "Le":
            facts.append(ge(b, a, why))
        elif op == "Gt":
            facts.append(gt(a, b, why))
        elif op == "Ge":
            facts.append(ge(a, b, why))
    return facts


def len_atom(slice_expr):
    return ("len", norm_atom(slice_expr))


def calls_len_facts(e, facts):
    """`<[T]>::len(x)` / `Vec::len(x)` call atoms equal the ('len', x) atoms"""
    for x in S.walk(S.strip_refs(devar(e))):
        if isinstance(x, tuple) and x and x[0] == "call" and x[1].endswith("::len") and x[2] and \
                (x[1].startswith("core::slice") or x[1].startswith("std::vec::Vec")):
            a = norm_atom(x)
            b = ("len", norm_atom(x[2][0]))
            facts.append(Fact(Lin({a: 1, b: -1}), "len() call"))
            facts.append(Fact(Lin({a: -1, b: 1}), "len() call"))
    return facts


# ------------------------------------------------------------------ extra fact sources used by the C01 subtraction rule

def emptiness_guard_facts(ctx, body, site_bi, facts):
    """`x.is_empty()` / `x.len() == 0` guards: on the non-empty side len(x) >= 1"""
    sy = ctx.sym(body)
    cfg = ctx.cfg(body)
    for gbi, t in body.iter_terms():
        bt = U.bool_switch_targets(t)
        if not bt or not cfg.dominates(gbi, site_bi) or gbi == site_bi:
            continue
        e = sy.operand(t["discr"])
        x = None
        empty_when_true = None
        if e[0] == "call" and e[1].endswith("is_empty") and e[2]:
            x, empty_when_true = e[2][0], True
        elif e[0] == "binop" and e[1] in ("Eq", "Ne") and U.is_const(e[3]) and S.const_value(e[3]) == 0 and \
                e[2][0] == "call" and e[2][1].endswith("::len"):
            x, empty_when_true = e[2][2][0], e[1] == "Eq"
        if x is None:
            continue
        to_true = U.branch_reaches(cfg, gbi, bt[1], {site_bi})
        to_false = U.branch_reaches(cfg, gbi, bt[0], {site_bi})
        if to_true == to_false:
            continue
        nonempty = (to_false and empty_when_true) or (to_true and not empty_when_true)
        if nonempty:
            facts.append(Fact(Lin({("len", norm_atom(x)): 1}, -1), "guard: %s is not empty" % S.show(x, body)[:40]))
    return facts


def structural_len_facts(atoms, facts):
    """std lemmas on atoms that occur:  len(x[a..b]) = b - a, len(x[..b]) = b (checked indexing returned);
    count(adaptors(iter(x))) <= len(x) and <= n for take(n);  capacity(v) >= len(v)"""
    work = list(atoms)
    seen = set()
    while work:
        a = work.pop()
        if not isinstance(a, tuple) or not a or a in seen:
            continue
        seen.add(a)
        if a[0] == "len":
            x = a[1]
            if isinstance(x, tuple) and x and x[0] == "call" and x[1].endswith("Index::index") and len(x[2]) == 2:
                rng = x[2][1]
                if isinstance(rng, tuple) and rng and rng[0] == "agg":
                    d = dict(zip(rng[4], rng[3])) if len(rng) > 4 else {}
                    if rng[2].endswith("RangeTo::RangeTo") and "end" in d:
                        f = lin(d["end"]) - Lin({a: 1})
                        facts.append(Fact(f, "len(x[..b]) = b"))
                        facts.append(Fact(Lin() - f, "len(x[..b]) = b"))
                    elif rng[2].endswith("Range::Range") and "start" in d and "end" in d:
                        f = lin(d["end"]) - lin(d["start"]) - Lin({a: 1})
                        facts.append(Fact(f, "len(x[a..b]) = b - a"))
                        facts.append(Fact(Lin() - f, "len(x[a..b]) = b - a"))
                    elif rng[2].endswith("RangeFrom::RangeFrom") and "start" in d:
                        inner = ("len", norm_atom(x[2][0]))
                        f = Lin({inner: 1}) - lin(d["start"]) - Lin({a: 1})
                        facts.append(Fact(f, "len(x[a..]) = len(x) - a"))
                        facts.append(Fact(Lin() - f, "len(x[a..]) = len(x) - a"))
                        work.append(inner)
        if a[0] == "call" and a[1].endswith("Iterator::count") and a[2]:
            src, stages = U.chain(a[2][0])
            names = [s_[0] for s_ in stages]
            if names and names[0] in ("iter", "into_iter") and all(n in ("iter", "into_iter", "take_while", "take", "rev", "filter", "skip_while", "skip", "map") for n in names):
                facts.append(Fact(Lin({("len", norm_atom(src)): 1, a: -1}), "count(..iter(x)..) <= len(x)"))
                work.append(("len", norm_atom(src)))
                for s_ in stages:
                    if s_[0] == "take" and s_[1]:
                        facts.append(Fact(lin(s_[1][0]) - Lin({a: 1}), "count(..take(n)..) <= n"))
        if a[0] == "call" and a[1].endswith("Vec::capacity") and a[2]:
            facts.append(Fact(Lin({a: 1, ("len", norm_atom(a[2][0])): -1}), "capacity >= len"))
    return facts


def counter_facts(ctx, body, facts):
    """induction for counters: a variable whose definitions are a constant c0 and `v + 1` at blocks guarded by `v < B`
    (B not assigned in the body's loops) satisfies v <= B everywhere, provided c0 <= B is itself provable (c0 = 0)"""
    sy = ctx.sym(body)
    cfg = ctx.cfg(body)
    pending = []
    for l, ds in body.defs().items():
        if len(ds) < 2 or body.local_ty(l) != "usize":
            continue
        ok = True
        bound = None
        for kind, dbi, dsi, node in ds:
            if kind != "assign":
                ok = False
                break
            v = lin(sy.rvalue(node["rv"]))
            if not v.co and v.c == 0:
                continue
            if v.co == {("var", l): 1} and v.c == 1:
                # find a dominating stable guard  var < B
                gf = []
                guard_facts(ctx, body, dbi, gf, before_site_stmts=True)
                found = None
                hdr = cfg.inner_header(dbi)
                for f in gf:
                    if f.form.co.get(("var", l)) == -1 and f.form.c == -1:
                        rest = {k: c for k, c in f.form.co.items() if k != ("var", l)}
                        if not rest:
                            continue
                        # the bound may be a linear form (`right < len - left`); every variable in it must be stable in the
                        # loop that increments the counter
                        stable = True
                        for k in rest:
                            for y in S.walk(k) if isinstance(k, tuple) else ():
                                if isinstance(y, tuple) and y and y[0] == "var" and isinstance(y[1], int):
                                    for _, kbi, _, _ in body.defs().get(y[1], []):
                                        if hdr is not None and cfg.in_natural_loop(kbi, hdr):
                                            stable = False
                        if stable:
                            found = tuple(sorted((repr(k), c) for k, c in rest.items())), rest
                if found is None or (bound is not None and bound[0] != found[0]):
                    ok = False
                    break
                bound = found
            else:
                ok = False
                break
        if ok and bound is not None:
            co = dict(bound[1])
            co[("var", l)] = -1
            if len(bound[1]) == 1 and list(bound[1].values()) == [1]:
                facts.append(Fact(Lin(co), "counter induction: starts at 0, +1 only while < bound"))
            else:
                pending.append((Lin(dict(bound[1])), Lin(co)))
    # a bound that is a linear form (`len - left`) must itself be non-negative for the base case 0 <= bound
    for bl, form in pending:
        base = list(facts) + [Fact(Lin({k: 1}), "unsigned") for k in bl.co]
        if prove(bl, base) is not None:
            facts.append(Fact(form, "counter induction: starts at 0, +1 only while < bound"))
    return facts
