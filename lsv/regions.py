"""A11: region-wise evaluation of small branchy functions.

A "region" is a set of assumptions on the inputs of a function — linear inequalities between atoms (for instance the
two word lengths) and truth values of boolean atoms (for instance `qword.fin`).  For a region the analysis

  * enumerates the acyclic paths of the body from the entry to a set of goal blocks,
  * decides every branch on a path from the assumptions with the linear prover of `bounds` (a branch that cannot be
    decided keeps both sides),
  * resolves join variables path-sensitively (a variable takes the value of its definition lying latest on the path) and
  * rewrites `min(a, b)` / `max(a, b)` to the operand the assumptions single out,

and returns the value expressions an observer could see at the goal.  Nothing is executed; the result is a symbolic
expression over the atoms, to be compared with the formula the property prescribes for that region.
"""
from . import sym as S
from . import util as U
from . import bounds as B


class Region:
    def __init__(self, name, facts=(), bools=None):
        self.name = name
        self.facts = list(facts)          # bounds.Fact
        self.bools = dict(bools or {})    # norm_atom(expr) -> bool

    def decide_cmp(self, op, a, b):
        la, lb = B.lin(a), B.lin(b)
        def holds(o):
            if o == "Lt":
                return B.prove((lb - la).plus(-1), self.facts) is not None
            if o == "Le":
                return B.prove(lb - la, self.facts) is not None
            if o == "Gt":
                return B.prove((la - lb).plus(-1), self.facts) is not None
            if o == "Ge":
                return B.prove(la - lb, self.facts) is not None
            if o == "Eq":
                return B.prove(la - lb, self.facts) is not None and B.prove(lb - la, self.facts) is not None
            if o == "Ne":
                return B.prove((la - lb).plus(-1), self.facts) is not None or B.prove((lb - la).plus(-1), self.facts) is not None
            return False
        if holds(op):
            return True
        if holds(U.NEG[op]):
            return False
        return None

    def decide(self, e):
        """truth value of a boolean expression under the region's assumptions, or None"""
        e = S.strip_refs(e)
        if not isinstance(e, tuple) or not e:
            return None
        if U.is_const(e) and isinstance(S.const_value(e), bool):
            return S.const_value(e)
        k = B.norm_atom(e)
        if k in self.bools:
            return self.bools[k]
        if e[0] == "unop" and str(e[1]).lower() == "not":
            r = self.decide(e[2])
            return None if r is None else (not r)
        if e[0] == "binop" and e[1] in U.CMP_OPS:
            return self.decide_cmp(e[1], e[2], e[3])
        if e[0] == "binop" and e[1] in ("BitAnd", "BitOr"):
            a, b = self.decide(e[2]), self.decide(e[3])
            if e[1] == "BitAnd":
                if a is False or b is False:
                    return False
                return True if (a and b) else None
            if a is True or b is True:
                return True
            return False if (a is False and b is False) else None
        return None

    def simplify(self, e, depth=0):
        """min/max of two operands ordered by the assumptions -> that operand; casts between integer types dropped"""
        if not isinstance(e, tuple) or not e or depth > 12:
            return e
        if e[0] == "field" and str(e[2]) == "0" and isinstance(e[1], tuple) and e[1] and e[1][0] == "down" and e[1][2] == "Some":
            # payload of `a.checked_sub(b)` on the Some side is a - b
            x = S.strip_refs(e[1][1])
            if x[0] == "call" and x[1].endswith("::checked_sub") and len(x[2]) == 2:
                return ("binop", "Sub", self.simplify(x[2][0], depth + 1), self.simplify(x[2][1], depth + 1))
        if e[0] == "call" and e[1].endswith(("cmp::min", "cmp::max", "Ord::min", "Ord::max")) and len(e[2]) == 2:
            a, b = self.simplify(e[2][0], depth + 1), self.simplify(e[2][1], depth + 1)
            le = self.decide_cmp("Le", a, b)
            ge = self.decide_cmp("Ge", a, b)
            is_min = e[1].endswith("min")
            if le is True:
                return a if is_min else b
            if ge is True:
                return b if is_min else a
            return (e[0], e[1], (a, b)) + tuple(e[3:])
        return tuple(self.simplify(x, depth + 1) if isinstance(x, tuple) else x for x in e)


def resolve_on_path(body, sy, e, prefix, depth=0):
    """path-sensitive value of an expression: a join variable takes the value of its definition latest on `prefix`"""
    if not isinstance(e, tuple) or not e or depth > 8:
        return e
    if e[0] == "phi":
        best = None
        for d in body.defs().get(e[1], []):
            if d[1] in prefix:
                pos = len(prefix) - 1 - prefix[::-1].index(d[1])
                if best is None or pos > best[0]:
                    best = (pos, d)
        if best is None:
            return e
        kind, dbi, dsi, node = best[1]
        v = sy.rvalue(node["rv"]) if kind == "assign" else sy.call_expr(node, dbi)
        return resolve_on_path(body, sy, v, prefix[:best[0] + 1], depth + 1)
    if e[0] == "field" and isinstance(e[1], tuple) and e[1] and S.strip_refs(e[1])[0] == "phi":
        inner = resolve_on_path(body, sy, S.strip_refs(e[1]), prefix, depth + 1)
        inner = S.strip_refs(inner)
        if inner[0] == "agg" and str(e[2]).isdigit() and int(e[2]) < len(inner[3]):
            return resolve_on_path(body, sy, inner[3][int(e[2])], prefix, depth + 1)
        return (e[0], inner) + tuple(e[2:])
    return tuple(resolve_on_path(body, sy, x, prefix, depth) if isinstance(x, tuple) else x for x in e)


def feasible_paths(ctx, body, region, goals, limit=400):
    """acyclic paths entry -> a block in `goals`, keeping only branches the region does not refute.
    Returns (paths, undecided) or (None, reason) when the body is not suitable (too many paths)."""
    sy = ctx.sym(body)
    cfg = ctx.cfg(body)
    goals = set(goals)
    out = []
    undecided = []

    def succs(bi, path):
        t = body.blocks[bi]["term"]
        if t is None:
            return []
        if t["k"] == "switch":
            d = resolve_on_path(body, sy, sy.operand(t["discr"]), path)
            d = region.simplify(d)
            ds = S.strip_refs(d)
            if ds[0] == "discr":
                x = S.strip_refs(ds[1])
                if x[0] == "call" and x[1].endswith("::checked_sub") and len(x[2]) == 2:
                    # Option discriminant of a.checked_sub(b): Some exactly when a >= b
                    r = region.decide_cmp("Ge", x[2][0], x[2][1])
                    if r is not None:
                        tg = [b for v, b in t["targets"] if v == (1 if r else 0)]
                        if tg:
                            return tg
                        if isinstance(t.get("otherwise"), int):
                            return [t["otherwise"]]
            if ds[0] == "discr":
                x = S.strip_refs(ds[1])
                if x[0] == "call" and x[1].endswith(("Ord::cmp", "::cmp")) and len(x[2]) == 2:
                    # Ordering discriminant of a.cmp(&b): Less = -1, Equal = 0, Greater = 1
                    which = None
                    if region.decide_cmp("Lt", x[2][0], x[2][1]) is True:
                        which = "less"
                    elif region.decide_cmp("Gt", x[2][0], x[2][1]) is True:
                        which = "greater"
                    elif region.decide_cmp("Eq", x[2][0], x[2][1]) is True:
                        which = "equal"
                    if which is not None:
                        tg = [b for v, b in t["targets"] if (v == 0 and which == "equal") or (v == 1 and which == "greater")
                              or (v not in (0, 1) and which == "less")]
                        if tg:
                            return tg
                        if isinstance(t.get("otherwise"), int):
                            return [t["otherwise"]]
            bt = U.bool_switch_targets(t)
            if bt:
                r = region.decide(d)
                if r is True:
                    return [bt[1]]
                if r is False:
                    return [bt[0]]
                undecided.append((bi, S.show(d, body)[:100]))
                return [bt[0], bt[1]]
            undecided.append((bi, S.show(d, body)[:100]))
            return [b for _, b in t["targets"]] + ([t["otherwise"]] if isinstance(t.get("otherwise"), int) else [])
        if t["k"] in ("goto", "call", "assert", "drop"):
            return [t["target"]] if isinstance(t.get("target"), int) else []
        return []

    def dfs(bi, path):
        if len(out) > limit:
            return
        if bi in goals:
            out.append(path)
            return
        for y in succs(bi, path):
            if y in path:
                continue
            dfs(y, path + [y])
    dfs(0, [0])
    if len(out) > limit:
        return None, "too many paths"
    return out, undecided


def values_at(ctx, body, region, goal_bi, expr):
    """the set of (simplified, path-resolved) values of `expr` over the region's feasible paths to block goal_bi"""
    sy = ctx.sym(body)
    paths, und = feasible_paths(ctx, body, region, [goal_bi])
    if paths is None:
        return None, und
    vals = []
    for p in paths:
        v = region.simplify(resolve_on_path(body, sy, expr, p))
        v = S.strip_sites(S.strip_refs(v))
        if v not in vals:
            vals.append(v)
    return vals, und
