"""Word-matcher gates and edit costs (rules R03.a/b, R04.a/c/d, R05.a, R14.a/b, R16.a/c).

A *gate* is a comparison against a constant that decides whether the matcher can still reach
the construction of a WordMatch (`WordMatch::new_pair`).  Gates are located by data-flow role:
  jaccard  — the compared value derives from Jaccard::rel_dist
  length   — 1 - short/long over word lengths (int->float casts, division)
  damlev   — a DistMatrix read divided by a length
  slice    — |qslice - rslice| (integer abs of a difference)
Polarity is derived from the CFG (which branch can still reach new_pair within the iteration),
so `x < C`, `!(x >= C)`, `if x > C { continue }` are one fact.
"""
from . import sym as S
from . import util as U
from .engine import where

NEW_PAIR = "matching::word_match::WordMatch::new_pair"


class Gate:
    def __init__(self, kind, body, bi, op, const_e, x, pol_note, xbody=None, cmp_e=None):
        self.kind = kind
        self.xbody = xbody or body      # the body the compared value is computed in
        self.cmp_e = cmp_e
        self.body = body
        self.bi = bi
        self.op = op              # accept iff  x <op> C
        self.const_e = const_e
        self.x = x
        self.c = S.const_value(const_e)
        self.cname = (const_e[1] if const_e[0] == "nconst" else None)
        self.note = pol_note

    def accepts(self, w):
        return U.cmp_eval(self.op, w, self.c)

    def describe(self):
        return "accept iff %s %s %s%s" % (self.kind, U.OPSTR[self.op], self.c,
                                            " (%s)" % self.cname.split("::")[-1] if self.cname else "")


def _expand(ctx, e, depth=0):
    """expression with closures handed to LocalKey::with / local bool fns replaced by their return exprs
    (only used for classification: returns the list of all expressions involved)"""
    out = [e]
    if depth > 3:
        return out
    for x in S.walk(e):
        if isinstance(x, tuple) and x and x[0] == "call":
            for cid in U.closure_of_expr(x):
                cb = ctx.facts.bodies.get(cid)
                if cb is not None:
                    out.extend(_expand(ctx, U.ret_expr(ctx, cb), depth + 1))
    return out


def classify(ctx, x):
    exprs = _expand(ctx, x)
    def has_call(*sfx):
        return any(U.expr_calls(e, *sfx) for e in exprs)
    def has_binop(op):
        return any(isinstance(y, tuple) and y and y[0] == "binop" and y[1] == op
                   for e in exprs for y in S.walk(e))
    def has_cast(kind):
        return any(isinstance(y, tuple) and y and y[0] == "cast" and y[1] == kind
                   for e in exprs for y in S.walk(e))
    if has_call("Jaccard::rel_dist"):
        return "jaccard"
    if has_call("Jaccard::similarity"):
        return "jaccard_similarity"
    if has_call("DistMatrix::get", "DistMatrix::get_unchecked"):
        return "damlev" if has_binop("Div") else "damlev_abs"
    if has_binop("Div") and has_cast("IntToFloat"):
        return "length"
    if has_call("abs") and (has_binop("Sub") or has_binop("SubWithOverflow")):
        return "slice"
    return None


def _cmp_leaves(ctx, e, pol, out, depth=0, owner=None):
    """comparisons inside a boolean expression with the polarity under which they make it true"""
    if not isinstance(e, tuple) or depth > 4:
        return
    if e[0] == "binop" and e[1] in U.CMP_OPS:
        out.append((e, pol, owner))
    elif e[0] == "unop" and e[1] == "Not":
        _cmp_leaves(ctx, e[2], not pol, out, depth + 1, owner)
    elif e[0] == "phi":
        for a in e[2]:
            _cmp_leaves(ctx, a, pol, out, depth + 1, owner)
    elif e[0] == "call":
        b = ctx.facts.bodies.get(e[1])
        if b is None:
            cands = [x for x in ctx.facts.bodies.values() if x.cn == e[1]]
            b = cands[0] if len(cands) == 1 else None
        if b is not None and b.kind in ("fn", "method") and ctx.facts.body(b.id).local_ty(0) == "bool":
            _cmp_leaves(ctx, U.ret_expr(ctx, b), pol, out, depth + 1, b)


def find_gates(ctx):
    facts = ctx.facts
    cg = ctx.cg
    np_body = [b for b in facts.bodies.values() if b.cn == NEW_PAIR]
    if not np_body:
        return None, []
    np_id = np_body[0].id
    # bodies that call new_pair directly
    makers = [b for b in facts.fns() if any(True for _ in U.calls_named(b, "WordMatch::new_pair"))]
    gates = []
    roots = set(cg.root_of[m.id] for m in makers)
    region = []
    for r in roots:
        region.append(facts.bodies[r])
        region.extend(b for b in facts.bodies.values() if b.kind == "closure" and cg.root_of[b.id] == r)
    can_reach = set(x for x in facts.bodies if np_id in cg.reachable([x]))
    for b in region:
        cfg = ctx.cfg(b)
        goals = set()
        for bi, t in b.calls():
            if bi not in cfg.reach:
                continue
            tg = [x for x, _ in cg.targets(b, t)]
            if any(x in can_reach or x == np_id for x in tg):
                goals.add(bi)
        if not goals:
            continue
        sy = ctx.sym(b)
        for bi, t in b.iter_terms():
            if t["k"] != "switch" or bi not in cfg.reach:
                continue
            bt = U.bool_switch_targets(t)
            if bt is None:
                continue
            f_t, t_t = bt
            r_true = U.branch_reaches(cfg, bi, t_t, goals)
            r_false = U.branch_reaches(cfg, bi, f_t, goals)
            if r_true == r_false:
                continue
            accept_when = r_true
            e = sy.operand(t["discr"])
            leaves = []
            _cmp_leaves(ctx, e, True, leaves, owner=b)
            for (cmp_e, pol, owner) in leaves:
                _, op, a, c = cmp_e
                if U.is_const(a) and not U.is_const(c):
                    a, c, op = c, a, U.FLIP[op]
                if not U.is_const(c) or U.is_const(a):
                    continue
                need_true = (accept_when == pol)
                if not need_true:
                    op = U.NEG[op]
                kind = classify(ctx, a)
                if kind is None:
                    continue
                gates.append(Gate(kind, b, bi, op, c, a,
                                  "switch at bb%d, accept on %s branch" % (bi, "true" if accept_when else "false"),
                                  xbody=owner, cmp_e=cmp_e))
    return np_id, gates


# ------------------------------------------------------------------ edit costs

def cost_constants(ctx):
    """(distance body, {role: [(value, name, where)]}) — f64 constants that act as edit costs."""
    facts = ctx.facts
    dist = [b for b in facts.fns() if b.cn.endswith("DamerauLevenshtein::distance")]
    if len(dist) != 1:
        return None, None
    dist = dist[0]
    sy = ctx.sym(dist)
    res = {"direct": [], "per_char": [], "zero": []}
    cost_fn_ids = set()
    # per-character cost function(s): fn items mapped into the cost vectors
    for bi, t in dist.calls():
        for a in t["args"]:
            e = sy.operand(a)
            for x in S.walk(e):
                if isinstance(x, tuple) and x and x[0] == "fn" and x[1] in facts.bodies:
                    cost_fn_ids.add(x[1])
                # the per-character cost may also be a closure literal (`.map(|&class| class_cost(class))`)
                if isinstance(x, tuple) and x and x[0] == "agg" and x[1] == "closure" and x[2] in facts.bodies and \
                        facts.bodies[x[2]].local_ty(0) == "f64":
                    cost_fn_ids.add(x[2])
    # ... or called directly in a push loop: a local function from a character class to f64
    for bi, t in dist.calls():
        tgt = t.get("resolved") or t.get("callee")
        fb_ = facts.bodies.get(tgt)
        if fb_ is not None and fb_.kind in ("fn", "method") and fb_.local_ty(0) == "f64" and fb_.arg_count >= 1 and \
                any("CharClass" in fb_.local_ty(i) for i in range(1, fb_.arg_count + 1)):
            cost_fn_ids.add(fb_.id)
    for fid in sorted(cost_fn_ids):
        fb = facts.bodies[fid]
        if fb.local_ty(0) != "f64":
            continue
        for alt in U.flatten_phi(U.ret_expr(ctx, fb)):
            if U.is_const(alt):
                res["per_char"].append((S.const_value(alt), U.const_name(alt), fb.id))
            else:
                res["per_char"].append((None, S.show(alt, fb), fb.id))
    # direct cost operands: the non-matrix side of an f64 Add with a matrix read
    adds = []
    for bi, si, st in dist.iter_stmts():
        if st["k"] != "assign" or st["rv"]["k"] != "binop" or st["rv"]["op"] != "Add":
            continue
        if dist.blocks[bi]["cleanup"]:
            continue
        a = sy.operand(st["rv"]["a"])
        b = sy.operand(st["rv"]["b"])
        ma = bool(U.expr_calls(a, "DistMatrix::get_unchecked", "DistMatrix::get"))
        mb = bool(U.expr_calls(b, "DistMatrix::get_unchecked", "DistMatrix::get"))
        if ma == mb:
            continue
        cost = b if ma else a
        adds.append((bi, st, cost))
        for x in S.walk(cost):
            if U.is_const(x) and isinstance(S.const_value(x), float):
                v = S.const_value(x)
                (res["zero"] if v == 0.0 else res["direct"]).append((v, U.const_name(x), where(dist, bi, st)))
    return dist, {"roles": res, "adds": adds, "cost_fns": sorted(cost_fn_ids)}
