"""A12: alignment with the reference tree (rename tolerance).

The rule tables address the analysed crate by name: functions, methods, types, fields, enum variants.  A refactoring
that renames or moves one of them changes no behaviour, so before the rules run the extracted facts are aligned with a
snapshot of the names of the reference tree (`reference.json`, written by tools/gen_reference.py):

  * a type that is missing under its reference name and present under a new name with the same kind and the same
    field types is taken to be the renamed / moved type;
  * a field or enum variant whose position and type are unchanged but whose name differs is a renamed field;
  * a constant / static that is missing and has exactly one new counterpart of the same type (and value) is renamed;
  * a function or method that is missing and has a new counterpart with the same signature and a similar set of callees
    is the renamed / moved function.

Aligned items are renamed *back* to their reference names in the facts (the report says which), so the rules see the
names they know.  Alignment never decides a verdict: an item that cannot be aligned stays as it is and the rules fail
closed on the missing anchor, exactly as without this step.  A wrong alignment can only pair things with identical
signatures; the rules then check the paired body against the obligations of the reference name.
"""
import json
import os
import re

REF_FILE = os.path.join(os.path.dirname(os.path.abspath(__file__)), "reference.json")


# ------------------------------------------------------------------ snapshot

def _callees(b):
    out = set()
    for bl in b["blocks"]:
        t = bl["term"]
        if t is not None and t["k"] == "call" and not bl.get("cleanup"):
            c = t.get("callee") or t.get("resolved")
            if c:
                out.add(c)
    return sorted(out)


def _const_value(b):
    for bl in b["blocks"]:
        for st in bl["stmts"]:
            if st["k"] == "assign" and st["place"]["l"] == 0 and not st["place"]["p"]:
                return st.get("dbg", "").split("=", 1)[-1].strip()[:120]
    return None


def _shape(b):
    """name-independent fingerprint of a body: statement / terminator kinds, operators, constants, field indices and the
    names of non-local callees, in block order"""
    import hashlib
    out = []

    def operand(o):
        if not isinstance(o, dict):
            return "?"
        if "const" in o:
            c = o["const"]
            return "c:%s:%s" % (c.get("ty"), c.get("val", c.get("fstr", c.get("str", ""))) if not c.get("fn") and not c.get("def") else "item")
        pl = o.get("copy") or o.get("move")
        if pl is None:
            return "?"
        return "p:" + ",".join(str(e.get("f", "x")) if isinstance(e, dict) else str(e) for e in pl["p"])
    for bl in b["blocks"]:
        if bl.get("cleanup"):
            continue
        for st in bl["stmts"]:
            if st["k"] != "assign":
                continue
            rv = st["rv"]
            item = [rv["k"], str(rv.get("op", rv.get("kind", rv.get("akind", ""))))]
            for key in ("op", "a", "b"):
                if isinstance(rv.get(key), dict):
                    item.append(operand(rv[key]))
            if rv["k"] == "agg":
                item.append(str(len(rv.get("ops", []))))
                item.append(str(rv.get("variant_idx", "")))
            out.append("|".join(item))
        t = bl["term"]
        if t is None:
            continue
        if t["k"] == "call":
            c = t.get("callee") or ""
            out.append("call:%s:%d" % (c if not t.get("callee_local") else "local", len(t["args"])))
        elif t["k"] == "switch":
            out.append("switch:%s" % ",".join(str(v) for v, _ in t["targets"]))
        else:
            out.append(t["k"])
    return hashlib.sha256("\n".join(out).encode()).hexdigest()[:16]


def snapshot(data):
    fns, adts, consts = {}, {}, {}
    for b in data["bodies"]:
        if b["kind"] in ("fn", "method"):
            fns[b["id"]] = {
                "kind": b["kind"], "impl_self": b.get("impl_self"), "impl_trait": b.get("impl_trait"),
                "params": [b["locals"][i]["ty"] for i in range(1, b["arg_count"] + 1)],
                "ret": b["locals"][0]["ty"], "callees": _callees(b), "nblocks": len(b["blocks"]), "shape": _shape(b),
            }
        elif b["kind"] in ("const", "static") and "{" not in b["id"]:
            consts[b["id"]] = {"kind": b["kind"], "ty": b["locals"][0]["ty"], "value": _const_value(b)}
    for a in data["adts"]:
        adts[a["id"]] = {"kind": a["kind"],
                         "variants": [{"name": v["name"], "fields": [{"name": f["name"], "ty": f["ty"]} for f in v["fields"]]}
                                      for v in a["variants"]]}
    return {"crate": data.get("crate"), "fns": fns, "adts": adts, "consts": consts}


def load_reference():
    if not os.path.exists(REF_FILE):
        return None
    with open(REF_FILE) as fh:
        return json.load(fh)


# ------------------------------------------------------------------ renaming machinery

def _replace_paths(data, mapping):
    """rename item paths everywhere (ids, callee names, type strings): textual, on path boundaries"""
    if not mapping:
        return data
    text = json.dumps(data)
    # longest first so that a path is not clobbered by the rename of its prefix
    for new, old in sorted(mapping.items(), key=lambda kv: -len(kv[0])):
        enc_new = json.dumps(new)[1:-1]
        enc_old = json.dumps(old)[1:-1]
        pat = re.compile(r"(?<![A-Za-z0-9_:])" + re.escape(enc_new) + r"(?![A-Za-z0-9_])")
        text = pat.sub(lambda m: enc_old, text)
    return json.loads(text)


def _rename_fields(data, fmap, vmap):
    """fmap: {(adt id, new field name): old name}; vmap: {(adt id, new variant name): old name}"""
    if not fmap and not vmap:
        return

    def walk(x):
        if isinstance(x, dict):
            od = x.get("owner_did")
            if od is not None and "f" in x and (od, x.get("name")) in fmap:
                x["name"] = fmap[(od, x["name"])]
            if x.get("k") == "agg" and x.get("akind") == "adt":
                did = x.get("did")
                if "fields" in x:
                    x["fields"] = [fmap.get((did, f), f) for f in x["fields"]]
                if (did, x.get("variant")) in vmap:
                    x["variant"] = vmap[(did, x["variant"])]
            if "down" in x and "vname" in x:
                # downcast projection: the enum is known from the place type only; rename when unambiguous
                cands = [old for (did, new), old in vmap.items() if new == x["vname"]]
                if len(cands) == 1:
                    x["vname"] = cands[0]
            for v in x.values():
                walk(v)
        elif isinstance(x, list):
            for v in x:
                walk(v)
    for b in data["bodies"]:
        walk(b["blocks"])
        for p in b.get("promoted", []):
            walk(p["blocks"])
        for d in b.get("debug", []):
            walk(d)
    for a in data["adts"]:
        for v in a["variants"]:
            if (a["id"], v["name"]) in vmap:
                v["name"] = vmap[(a["id"], v["name"])]
            for f in v["fields"]:
                if (a["id"], f["name"]) in fmap:
                    f["name"] = fmap[(a["id"], f["name"])]


def _jaccard(a, b):
    a, b = set(a), set(b)
    if not a and not b:
        return 1.0
    return len(a & b) / float(len(a | b))


def _last(path):
    return path.rsplit("::", 1)[-1]


_GEN = re.compile(r"::<([^<>]*(?:<[^<>]*>[^<>]*)*)>")


def _generic_map(new_id, old_id):
    """{new generic parameter name: reference name} read off the `::<A, B>` segments of two item paths ({} if none;
    None if the arities differ).  Only plain identifiers are mapped (concrete type arguments must agree literally)."""
    gn, go = _GEN.findall(new_id), _GEN.findall(old_id)
    if len(gn) != len(go):
        return None
    out = {}
    for a, b in zip(gn, go):
        pa, pb = [x.strip() for x in a.split(",")], [x.strip() for x in b.split(",")]
        if len(pa) != len(pb):
            if a != b:
                return None
            continue
        for x, y in zip(pa, pb):
            if x != y and re.match(r"^[A-Za-z_]\w*$", x) and re.match(r"^[A-Za-z_]\w*$", y):
                out[x] = y
    return out


def _apply_generics(s, gm):
    if not gm or not isinstance(s, str):
        return s
    return re.sub(r"\b(%s)\b" % "|".join(re.escape(k) for k in gm), lambda m: gm[m.group(1)], s)


# ------------------------------------------------------------------ alignment

def apply(data, ref=None):
    ref = load_reference() if ref is None else ref
    report = {"types": {}, "fields": {}, "variants": {}, "consts": {}, "functions": {}}
    if not ref:
        return data, report
    # A. types
    cur = snapshot(data)
    missing = [i for i in ref["adts"] if i not in cur["adts"]]
    new = [i for i in cur["adts"] if i not in ref["adts"]]
    tmap = {}
    for m in missing:
        r = ref["adts"][m]
        best = []
        for n in new:
            if n in tmap:
                continue
            c = cur["adts"][n]
            if c["kind"] != r["kind"] or len(c["variants"]) != len(r["variants"]):
                continue
            same = True
            score = 0
            for vr, vc in zip(r["variants"], c["variants"]):
                if len(vr["fields"]) != len(vc["fields"]):
                    same = False
                    break
                for fr, fc in zip(vr["fields"], vc["fields"]):
                    if fr["ty"].replace(m, "\0") != fc["ty"].replace(n, "\0"):
                        same = False
                    score += fr["name"] == fc["name"]
                score += vr["name"] == vc["name"] if r["kind"] == "enum" else 0
            if same:
                best.append((score + (2 if _last(n) == _last(m) else 0), n))
        best.sort(reverse=True)
        if best and (len(best) == 1 or best[0][0] > best[1][0]):
            tmap[best[0][1]] = m
    if tmap:
        data = _replace_paths(data, tmap)
        report["types"] = dict(tmap)
        cur = snapshot(data)
    # B. fields and variants of types present under their reference name
    fmap, vmap = {}, {}
    for aid, r in ref["adts"].items():
        c = cur["adts"].get(aid)
        if c is None or len(c["variants"]) != len(r["variants"]):
            continue
        for vr, vc in zip(r["variants"], c["variants"]):
            if r["kind"] == "enum" and vr["name"] != vc["name"] and [f["ty"] for f in vr["fields"]] == [f["ty"] for f in vc["fields"]]:
                if vc["name"] not in [v["name"] for v in r["variants"]]:
                    vmap[(aid, vc["name"])] = vr["name"]
            if len(vr["fields"]) == len(vc["fields"]):
                for fr, fc in zip(vr["fields"], vc["fields"]):
                    if fr["name"] != fc["name"] and fr["ty"] == fc["ty"] and fc["name"] not in [f["name"] for f in vr["fields"]]:
                        fmap[(aid, fc["name"])] = fr["name"]
            else:
                # fields added or removed: a field keeps its identity by name; a missing name with exactly one new field of
                # its type is a rename
                rn = [f["name"] for f in vr["fields"]]
                cn = [f["name"] for f in vc["fields"]]
                for fr in vr["fields"]:
                    if fr["name"] in cn:
                        continue
                    cands = [fc for fc in vc["fields"] if fc["name"] not in rn and fc["ty"] == fr["ty"]]
                    if len(cands) == 1 and len([x for x in vr["fields"] if x["name"] not in cn and x["ty"] == fr["ty"]]) == 1:
                        fmap[(aid, cands[0]["name"])] = fr["name"]
    if fmap or vmap:
        _rename_fields(data, fmap, vmap)
        report["fields"] = {"%s.%s" % k: v for k, v in fmap.items()}
        report["variants"] = {"%s::%s" % k: v for k, v in vmap.items()}
    # C. constants / statics
    missing = [i for i in ref["consts"] if i not in cur["consts"]]
    new = [i for i in cur["consts"] if i not in ref["consts"]]
    cmap = {}
    for m in missing:
        r = ref["consts"][m]
        cands = [n for n in new if n not in cmap and cur["consts"][n]["kind"] == r["kind"] and cur["consts"][n]["ty"] == r["ty"]]
        if len(cands) > 1:
            byval = [n for n in cands if cur["consts"][n]["value"] == r["value"] and r["value"] is not None]
            others = [x for x in missing if x != m and ref["consts"][x]["ty"] == r["ty"] and ref["consts"][x]["value"] == r["value"]]
            cands = byval if (len(byval) == 1 and not others) else [n for n in cands if _last(n) == _last(m)]
        if len(cands) == 1:
            cmap[cands[0]] = m
    if cmap:
        data = _replace_paths(data, cmap)
        # array lengths are printed with the bare constant name: `[isize; SCORES_SIZE]`
        text = json.dumps(data)
        for new_, old_ in cmap.items():
            text = re.sub(r";\s*" + re.escape(_last(new_)) + r"\]", "; " + _last(old_) + "]", text)
        data = json.loads(text)
        report["consts"] = dict(cmap)
    # D. functions
    cur = snapshot(data)
    missing = [i for i in ref["fns"] if i not in cur["fns"]]
    new = [i for i in cur["fns"] if i not in ref["fns"]]
    pairs = []
    for m in missing:
        r = ref["fns"][m]
        for n in new:
            c = cur["fns"][n]
            if (c["impl_self"] or None) != (r["impl_self"] or None) or (c["impl_trait"] or None) != (r["impl_trait"] or None):
                # a free function may have become a method or moved: tolerated only for identical signatures below
                if (c["impl_trait"] or None) != (r["impl_trait"] or None):
                    continue
            gm = _generic_map(n, m)
            if gm is None:
                continue
            if [_apply_generics(x, gm) for x in c["params"]] != r["params"] or _apply_generics(c["ret"], gm) != r["ret"]:
                continue
            j = _jaccard(r["callees"], [_apply_generics(x, gm) for x in c["callees"]])
            if c.get("shape") and c.get("shape") == r.get("shape"):
                j = max(j, 0.9) + 0.5          # identical bodies up to names
            same_name = _last(n) == _last(m)
            same_mod = n.rsplit("::", 1)[0] == m.rsplit("::", 1)[0]
            score = j + (1.0 if same_name else 0.0) + (0.25 if same_mod else 0.0)
            pairs.append((score, j, same_name, same_mod, m, n))
    pairs.sort(reverse=True)
    fmap_, used_m, used_n = {}, set(), set()
    for score, j, same_name, same_mod, m, n in pairs:
        if m in used_m or n in used_n:
            continue
        rivals = [p for p in pairs if p[4] == m and p[5] != n and p[5] not in used_n and p[0] >= score - 0.15]
        if rivals:
            continue
        if same_name or j >= 0.5 or (same_mod and j >= 0.34 and not ref["fns"][m]["callees"] == []):
            fmap_[n] = m
            used_m.add(m)
            used_n.add(n)
        elif same_mod and not ref["fns"][m]["callees"] and not cur["fns"][n]["callees"]:
            # leaf functions (no calls): same module, same signature, and the only candidate
            if len([p for p in pairs if p[4] == m]) == 1 and len([p for p in pairs if p[5] == n]) == 1:
                fmap_[n] = m
                used_m.add(m)
                used_n.add(n)
    if fmap_:
        data = _replace_paths(data, fmap_)
        report["functions"] = dict(fmap_)
    return data, report
