"""Rule engine: obligations, context, known findings, evidence and replay writing (DESIGN §3.2, §8)."""
import json
import os
import sys
import time

from . import facts as F
from .cfg import CFG
from .sym import Sym
from .callgraph import CallGraph

VERIF = F.VERIF
KNOWN = os.path.join(VERIF, "known_findings.txt")


class Ob:
    """One evaluated obligation."""
    __slots__ = ("rule", "key", "status", "where", "msg", "detail", "nontrivial", "kind")

    def __init__(self, rule, key, status, where, msg, detail=None, nontrivial=False, kind="N"):
        assert status in ("ok", "fail", "boundary", "assumed", "info")
        self.rule = rule
        self.key = "%s:%s" % (rule, key)
        self.status = status
        self.where = where
        self.msg = msg
        self.detail = detail or {}
        self.nontrivial = nontrivial
        self.kind = kind

    def to_json(self):
        return {"rule": self.rule, "key": self.key, "status": self.status, "where": self.where,
                "msg": self.msg, "detail": self.detail, "kind": self.kind}


class Ctx:
    """Everything a rule needs: facts + cached per-body analyses."""

    def __init__(self, facts, tier="quick"):
        self.facts = facts
        self.tier = tier
        self._cfg = {}
        self._sym = {}
        self._cg = None
        self._model = None
        self._eff = None
        self.obs = []
        self.counts = {}
        self.notes = []

    def cfg(self, body):
        c = self._cfg.get(body.id)
        if c is None:
            c = self._cfg[body.id] = CFG(body)
        return c

    def sym(self, body):
        s = self._sym.get(body.id)
        if s is None:
            s = self._sym[body.id] = Sym(body, self.facts)
        return s

    @property
    def cg(self):
        if self._cg is None:
            self._cg = CallGraph(self.facts)
        return self._cg

    @property
    def model(self):
        if self._model is None:
            from .model import Model
            self._model = Model(self)
        return self._model

    @property
    def eff(self):
        if self._eff is None:
            from .effects import Effects
            self._eff = Effects(self)
        return self._eff

    # -- reporting ------------------------------------------------------
    def ok(self, rule, key, where, msg, detail=None, nontrivial=False, kind="N"):
        if rule is None:
            return
        self.obs.append(Ob(rule, key, "ok", where, msg, detail, nontrivial, kind))

    def fail(self, rule, key, where, msg, detail=None, kind="N"):
        if rule is None:
            return
        self.obs.append(Ob(rule, key, "fail", where, msg, detail, True, kind))

    def boundary(self, rule, key, where, msg, detail=None):
        self.obs.append(Ob(rule, key, "boundary", where, msg, detail, True))

    def assumed(self, rule, key, where, msg, detail=None):
        self.obs.append(Ob(rule, key, "assumed", where, msg, detail, False))

    def count(self, name, n):
        self.counts[name] = n

    def floor(self, rule, name, n, minimum, where="-"):
        """fail closed when a must-exist construct is missing (vacuity guard)"""
        self.counts[name] = n
        if rule is None:
            return n >= minimum
        if n < minimum:
            self.fail(rule, "floor:%s" % name, where,
                      "anchor count for '%s' is %d, below the confirmed minimum %d: the construct this rule "
                      "decides was not found (fail closed)" % (name, n, minimum), {"found": n, "minimum": minimum})
            return False
        return True

    def require(self, rule, name, obj, where="-", what=None):
        if (obj is None or obj == [] or obj is False) and rule is None:
            return False
        if obj is None or obj == [] or obj is False:
            self.fail(rule, "anchor:%s" % name, where,
                      "required anchor '%s' not found%s (fail closed)" % (name, (": " + what) if what else ""))
            return False
        return True


def where(body, bi=None, node=None):
    loc = None
    if node is not None:
        loc = node.get("loc") or node.get("fn_loc")
    if loc is None and bi is not None:
        bl = body.blocks[bi]
        t = bl["term"]
        if t is not None:
            loc = t.get("loc")
    if loc is None:
        loc = body.loc
    return "%s (%s)" % (F.loc_str(loc), body.id)


# ---------------------------------------------------------------------------

def load_known(path=KNOWN):
    findings = {}
    fixed = []
    if os.path.exists(path):
        for line in open(path):
            line = line.strip()
            if not line or line.startswith("#"):
                continue
            if line.startswith("finding:"):
                rest = line[len("finding:"):].strip()
                parts = rest.split(None, 2)
                prop = parts[0].split("=", 1)[1] if parts and parts[0].startswith("property=") else None
                key = parts[1].split("=", 1)[1] if len(parts) > 1 and parts[1].startswith("key=") else None
                desc = parts[2] if len(parts) > 2 else ""
                if prop and key:
                    findings[(prop, key)] = desc
            elif line.startswith("fixed:"):
                fixed.append(line)
    return findings, fixed


def finish(prop, ctx, t0, tier, explanation, assumptions, extra=None, replay_keys=None, level="other"):
    """print the report, write evidence + replay, return the exit code"""
    facts = ctx.facts
    findings, _fixed = load_known()
    obs = ctx.obs
    if replay_keys is not None:
        obs = [o for o in obs if o.key in replay_keys]
    fails = [o for o in obs if o.status == "fail"]
    known = [o for o in fails if (prop, o.key) in findings]
    new = [o for o in fails if (prop, o.key) not in findings]
    oks = [o for o in obs if o.status == "ok"]
    bnd = [o for o in obs if o.status == "boundary"]
    asm = [o for o in obs if o.status == "assumed"]

    print("== %s (%s tier) — static analysis of %s" % (prop, tier, facts.meta.get("repo", "?")))
    print("   facts: %d bodies (%d fn/method/closure), source hash %s, extracted in %ss%s" % (
        len(facts.bodies), len(facts.fns()), facts.meta.get("source_hash"), facts.meta.get("extract_s"),
        " (cached)" if facts.meta.get("cached") else ""))
    by_rule = {}
    for o in obs:
        by_rule.setdefault(o.rule, []).append(o)
    for r in sorted(by_rule):
        os_ = by_rule[r]
        print("   %-8s %3d obligations: %d ok, %d fail, %d boundary, %d assumed" % (
            r, len(os_), sum(o.status == "ok" for o in os_), sum(o.status == "fail" for o in os_),
            sum(o.status == "boundary" for o in os_), sum(o.status == "assumed" for o in os_)))
    for k in sorted(ctx.counts):
        print("   count %-38s %s" % (k, ctx.counts[k]))
    for o in bnd:
        print("   BOUNDARY %s at %s: %s" % (o.key, o.where, o.msg))
    for o in asm:
        print("   ASSUMED  %s at %s: %s" % (o.key, o.where, o.msg))
    for n in ctx.notes:
        print("   note: " + n)
    for o in known:
        print("KNOWN-FINDING: property=%s %s at %s: %s" % (prop, o.key, o.where, findings[(prop, o.key)]))

    no_ev = os.environ.get("LSV_NO_EVIDENCE") == "1"
    os.makedirs(os.path.join(VERIF, "evidence"), exist_ok=True)
    os.makedirs(os.path.join(VERIF, "replay"), exist_ok=True)
    rc = 0
    replay_path = None
    if new:
        rc = 1
        replay_path = os.path.join(VERIF, "replay", "%s.json" % prop)
        if no_ev:
            replay_path = os.devnull
        with open(replay_path, "w") as fh:
            json.dump({"property": prop, "repo": facts.meta.get("repo"),
                       "source_hash": facts.meta.get("source_hash"),
                       "violations": [o.to_json() for o in new]}, fh, indent=1)
        for o in new:
            print("   FAIL %s" % o.key)
            print("        at %s" % o.where)
            print("        %s" % o.msg)
            for dk, dv in (o.detail or {}).items():
                print("        %s: %s" % (dk, json.dumps(dv) if not isinstance(dv, str) else dv))
        print("VIOLATION property=%s replay=%s" % (prop, replay_path))
    else:
        print("   result: all %d obligations hold (%d ok, %d boundary, %d assumed, %d known findings)" % (
            len(obs), len(oks), len(bnd), len(asm), len(known)))

    samples = []
    seen_rules = set()
    for o in obs:
        if o.rule not in seen_rules or (o.nontrivial and len(samples) < 40):
            seen_rules.add(o.rule)
            samples.append(o.to_json())
    distinct_nontrivial = len(set(o.key for o in obs if o.nontrivial))
    cov = {
        "explanation": explanation,
        "evaluations": len(obs),
        "distinct_nontrivial": distinct_nontrivial,
        "rule": "one evaluation = one obligation instance produced by a rule on a concrete construct of the "
                "analysed MIR (call site, gate, table entry, comparator, buffer scope, unsafe access); "
                "non-trivial = the discharge needed a path, provenance chain, table cross-check or constraint "
                "derivation rather than a plain presence test; distinct by obligation key",
        "samples": samples[:40],
        "obligations": len(obs),
        "discharged": len(oks) + len(bnd) + len(asm),
        "checker_cmd": "./check %s%s" % (prop, " --thorough" if tier == "thorough" else ""),
        "trusted_base": ["rustc nightly MIR construction and type resolution (rustc_private driver /verif/driver)",
                         "the rule implementations under /verif/lsv",
                         "python3 stdlib (unicodedata for C11)"],
        "rules": {r: len(v) for r, v in by_rule.items()},
        "counts": ctx.counts,
        "analysed": {"bodies": len(facts.bodies), "fns": len(facts.fns()),
                     "source_hash": facts.meta.get("source_hash"), "repo": facts.meta.get("repo"),
                     "facts_cached": bool(facts.meta.get("cached")),
                     "normalisation": facts.meta.get("inline"), "alignment": facts.meta.get("align")},
        "boundary": [o.to_json() for o in bnd],
        "known_findings_matched": [o.key for o in known],
        "exhaustive": True,
    }
    if extra:
        cov.update(extra)
    ev = {
        "property_id": prop,
        "tier": tier,
        "seed": int(os.environ.get("VERIF_SEED", "0") or 0),
        "level": level,
        "coverage": cov,
        "assumptions": assumptions,
        "wall_s": round(time.time() - t0, 2),
        "violations": len(new),
    }
    if not no_ev:
        with open(os.path.join(VERIF, "evidence", "%s.json" % prop), "w") as fh:
            json.dump(ev, fh, indent=1, sort_keys=False)
    return rc
