"""A2: RefCell guard analysis (lock-order style re-entrancy check)."""
from . import sym as S
from . import util as U
from .effects import field_chain


class Borrow:
    def __init__(self, body, bi, term, cell, mut, guard_local):
        self.body, self.bi, self.term, self.cell, self.mut, self.guard = body, bi, term, cell, mut, guard_local

    def cell_name(self):
        c = self.cell
        if c[0] == "field":
            return "%s.%s" % (c[1].rsplit("::", 1)[-1], c[2])
        if c[0] == "tls":
            return c[1].rsplit("::", 1)[-1]
        return str(c)


def cell_of(ctx, body, arg_expr, depth=0):
    facts = ctx.facts
    ch, root = field_chain(arg_expr)
    loc = [(o, f) for (o, f) in ch if o in facts.adts]
    if loc:
        return ("field", loc[-1][0], loc[-1][1])
    rb, r2 = ctx.model.resolve_root(body, root)
    if isinstance(r2, tuple) and r2 and r2[0] == "tls":
        return ("tls", r2[1])
    if rb is not None and isinstance(r2, tuple):
        ch2, root2 = field_chain(r2)
        loc2 = [(o, f) for (o, f) in ch2 if o in facts.adts]
        if loc2:
            return ("field", loc2[-1][0], loc2[-1][1])
        rb3, r3 = ctx.model.resolve_root(rb, root2)
        if isinstance(r3, tuple) and r3 and r3[0] == "tls":
            return ("tls", r3[1])
    # the cell is a parameter of a helper: resolve through the call sites (union must be a single cell)
    if isinstance(root, tuple) and root and root[0] == "arg" and body.kind != "closure" and depth < 3:
        cells = set()
        for (src, bi) in ctx.cg.sites_of.get(body.id, []):
            sb = ctx.facts.bodies[src]
            t = sb.blocks[bi]["term"]
            if root[1] - 1 < len(t["args"]):
                cells.add(cell_of(ctx, sb, ctx.sym(sb).operand(t["args"][root[1] - 1]), depth + 1))
        cells.discard(None)
        if len(cells) == 1:
            return cells.pop()
        if len(cells) > 1 and all(c[0] != "unknown" for c in cells):
            return ("multi", tuple(sorted(cells)))
    return ("unknown", body.id, S.show(arg_expr, body)[:50])


def borrows_in(ctx, body):
    out = []
    sy = ctx.sym(body)
    for bi, t in body.calls():
        if U.callee_is(t, "RefCell::borrow_mut", "RefCell::borrow", "RefCell::try_borrow_mut", "RefCell::try_borrow",
                       "RefCell::replace", "RefCell::swap", "RefCell::take", "RefCell::replace_with"):
            name = (t.get("cn") or "").rsplit("::", 1)[-1]
            mut = name not in ("borrow", "try_borrow")
            cell = cell_of(ctx, body, sy.operand(t["args"][0]))
            guard = t["dest"]["l"] if name in ("borrow_mut", "borrow") and not t["dest"]["p"] else None
            out.append(Borrow(body, bi, t, cell, mut, guard))
    return out


def held_region(ctx, body, br):
    """blocks in which the guard of borrow `br` may be live: from the return edge of the borrow call to the drop /
    move-out of the guard local"""
    if br.guard is None or br.term.get("target") is None:
        return set()
    cfg = ctx.cfg(body)
    g = br.guard
    region = set()
    st = [br.term["target"]]
    while st:
        x = st.pop()
        if x in region:
            continue
        region.add(x)
        bl = body.blocks[x]
        t = bl["term"]
        killed = False
        # moved out by a statement?  (guards here are only ever dropped)
        for s_ in bl["stmts"]:
            if s_["k"] == "dead" and s_["l"] == g:
                killed = True
        if t is not None and t["k"] == "drop" and t["place"]["l"] == g and not t["place"]["p"]:
            killed = True
        if killed:
            continue
        st.extend(cfg.succ[x])
    return region


class Analysis:
    def __init__(self, ctx):
        self.ctx = ctx
        self.direct = {}
        for b in ctx.facts.fns():
            self.direct[b.id] = borrows_in(ctx, b)
        self._sum = {}

    def summary(self, bid):
        """cells (cell, mut) that a call into `bid` may borrow, transitively"""
        if bid in self._sum:
            return self._sum[bid]
        reach = self.ctx.cg.reachable([bid])
        s = {}
        for x in reach:
            for br in self.direct.get(x, []):
                k = (br.cell, br.mut)
                if k not in s:
                    s[k] = br
        self._sum[bid] = s
        return s

    def conflicts(self):
        """[(holder Borrow, call block, conflicting Borrow, call path)]"""
        ctx = self.ctx
        out = []
        for b in ctx.facts.fns():
            for br in self.direct[b.id]:
                region = held_region(ctx, b, br)
                if not region:
                    continue
                for bi in sorted(region):
                    t = b.blocks[bi]["term"]
                    if t is None or t["k"] != "call" or bi == br.bi:
                        continue
                    # direct re-borrow in the same body
                    for other in self.direct[b.id]:
                        if other.bi == bi and other.cell == br.cell and (br.mut or other.mut):
                            out.append((br, bi, other, [b.id]))
                    for tgt, why in ctx.cg.targets(b, t):
                        sm = self.summary(tgt)
                        for (cell, mut), other in sm.items():
                            if cell == br.cell and (br.mut or mut):
                                path = ctx.cg.path(tgt, lambda x, o=other: x == o.body.id) or [tgt]
                                if tgt == other.body.id:
                                    path = [tgt]
                                out.append((br, bi, other, [b.id] + path))
        return out
