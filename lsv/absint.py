"""A13: a small abstract interpreter over the MIR facts, for decision tables.

Some clauses are finite decision tables — "the class of a character is the language's class if it has one, else NotAlpha
if it is not alphabetic, else Any", "a word is a function word iff its part of speech is one of four".  The same table
can be written with `match`, with `if let` chains, with `Option` combinators and closures, or split over helper
functions; a recogniser of one spelling alarms on the others.  Instead the table is *evaluated*: the inputs (the results
of designated calls) are set to each of their abstract cases in turn, and the body is interpreted over a small value
domain

    ('const', v) | ('enum', type, variant, payload) | ('agg', kind, fields) | ('closure', id, captures)
    | ('sym', tag)  an opaque input value | ('unknown',)

following switches whose discriminant is known and forking where it is not.  Calls are interpreted when they are an
input (the oracle), a std operation on Option / ControlFlow / PartialEq with a fixed meaning, a closure call, or a local
function (interpreted recursively); any other call yields ('unknown',).  The result is the set of values the function
can return for that case of the inputs.  Nothing of the analysed program is executed; the domain has no numbers beyond
constants and every loop is cut off (→ unknown).
"""
from . import sym as S

UNKNOWN = ("unknown",)
NONE = ("enum", "Option", "None", ())
STD_VARIANTS = {
    "Option": {"None": 0, "Some": 1}, "Result": {"Ok": 0, "Err": 1},
    "ControlFlow": {"Continue": 0, "Break": 1}, "Ordering": {"Less": -1, "Equal": 0, "Greater": 1},
}


def some(v):
    return ("enum", "Option", "Some", (v,))


def const(v):
    return ("const", v)


class Limit(Exception):
    pass


class AbsInt:
    def __init__(self, ctx, oracle=None, max_states=4000, max_depth=5):
        self.ctx = ctx
        self.facts = ctx.facts
        self.oracle = oracle or (lambda t, args, body: None)
        self.max_states = max_states
        self.max_depth = max_depth
        self.states = 0
        self.notes = []

    # ------------------------------------------------------------------ helpers
    def variant_index(self, ty, variant):
        short = ty.rsplit("::", 1)[-1].split("<")[0]
        if short in STD_VARIANTS and variant in STD_VARIANTS[short]:
            return STD_VARIANTS[short][variant]
        adt = self.facts.adts.get(ty.split("<")[0])
        if adt is not None:
            for v in adt["variants"]:
                if v["name"] == variant:
                    return v.get("discr") if v.get("discr") is not None else v["idx"]
        return None

    def enum_of_agg(self, rv, ops):
        did = rv.get("did") or ""
        short = did.rsplit("::", 1)[-1]
        adt = self.facts.adts.get(did)
        if short in STD_VARIANTS or (adt is not None and adt["kind"] == "enum"):
            return ("enum", short if short in STD_VARIANTS else did, rv.get("variant"), tuple(ops))
        return ("agg", did, tuple(ops))

    # ------------------------------------------------------------------ places / operands
    def read_place(self, env, pl):
        v = env.get(pl["l"], UNKNOWN)
        for pr in pl["p"]:
            if pr == "deref":
                continue                      # references are transparent
            if isinstance(pr, dict) and "f" in pr:
                if v[0] == "enum" and pr["f"] < len(v[3]):
                    v = v[3][pr["f"]]
                elif v[0] == "agg" and pr["f"] < len(v[2]):
                    v = v[2][pr["f"]]
                elif v[0] == "closure" and pr["f"] < len(v[2]):
                    v = v[2][pr["f"]]
                else:
                    return UNKNOWN
            elif isinstance(pr, dict) and "down" in pr:
                if v[0] == "enum":
                    continue                  # downcast: keep the enum, the field projection follows
                return UNKNOWN
            else:
                return UNKNOWN
        return v

    def operand(self, env, o, body):
        if "const" in o:
            c = o["const"]
            if c.get("promoted") is not None and c.get("def"):
                pb = self.facts.all_bodies.get("%s::{promoted#%d}" % (c["def"], c["promoted"]))
                if pb is not None:
                    r = self.run_body(pb, [], depth=self.max_depth - 1)
                    if len(r) == 1:
                        return list(r)[0]
                return UNKNOWN
            if "val" in c:
                ty = c.get("ty")
                if ty == "bool":
                    return const(bool(c["val"]))
                return const(c["val"])
            if "fstr" in c:
                return const(float(c["fstr"]))
            if c.get("fn"):
                return ("fn", c["fn"])
            if c.get("ty") == "()":
                return ("agg", "tuple", ())
            if c.get("def") and c["def"] in self.facts.bodies and self.facts.bodies[c["def"]].kind == "const":
                r = self.run_body(self.facts.bodies[c["def"]], [], depth=self.max_depth - 1)
                if len(r) == 1:
                    return list(r)[0]
            return UNKNOWN
        pl = o.get("copy") or o.get("move")
        if pl is None:
            return UNKNOWN
        return self.read_place(env, pl)

    def write_place(self, env, pl, v):
        if not pl["p"]:
            env[pl["l"]] = v
            return
        # field update of a known aggregate; anything else makes the base unknown
        base = env.get(pl["l"], UNKNOWN)
        projs = [p for p in pl["p"] if p != "deref"]
        if len(projs) == 1 and isinstance(projs[0], dict) and "f" in projs[0] and base[0] == "agg" and projs[0]["f"] < len(base[2]):
            fs = list(base[2])
            fs[projs[0]["f"]] = v
            env[pl["l"]] = ("agg", base[1], tuple(fs))
        elif not projs:
            env[pl["l"]] = v
        else:
            env[pl["l"]] = UNKNOWN

    # ------------------------------------------------------------------ rvalues
    def rvalue(self, env, rv, body):
        k = rv["k"]
        if k == "use":
            return self.operand(env, rv["op"], body)
        if k in ("ref", "rawptr"):
            return self.read_place(env, rv["place"])
        if k == "cast":
            return self.operand(env, rv["op"], body)
        if k == "discr":
            v = self.read_place(env, rv["place"])
            if v[0] == "enum":
                i = self.variant_index(v[1], v[2])
                return const(i) if i is not None else UNKNOWN
            return UNKNOWN
        if k == "unop":
            a = self.operand(env, rv["a"], body)
            if a[0] == "const" and str(rv["op"]).lower() == "not" and isinstance(a[1], bool):
                return const(not a[1])
            if rv["op"] == "PtrMetadata" and a[0] == "slice":
                return const(a[1])         # length read by a slice pattern
            return UNKNOWN
        if k == "binop":
            a, b = self.operand(env, rv["a"], body), self.operand(env, rv["b"], body)
            return self.binop(rv["op"], a, b)
        if k == "agg":
            ops = [self.operand(env, o, body) for o in rv["ops"]]
            if rv.get("akind") == "adt":
                return self.enum_of_agg(rv, ops)
            if rv.get("akind") == "closure":
                return ("closure", rv.get("did"), tuple(ops))
            return ("agg", rv.get("akind"), tuple(ops))
        return UNKNOWN

    def binop(self, op, a, b):
        if op in ("Eq", "Ne"):
            eq = self.equal(a, b)
            if eq is None:
                return UNKNOWN
            return const(eq if op == "Eq" else not eq)
        if a[0] == "const" and b[0] == "const" and not isinstance(a[1], bool) and not isinstance(b[1], bool):
            x, y = a[1], b[1]
            try:
                if op == "Lt":
                    return const(x < y)
                if op == "Le":
                    return const(x <= y)
                if op == "Gt":
                    return const(x > y)
                if op == "Ge":
                    return const(x >= y)
            except TypeError:
                return UNKNOWN
        if a[0] == "const" and b[0] == "const" and isinstance(a[1], bool) and isinstance(b[1], bool):
            if op == "BitAnd":
                return const(a[1] and b[1])
            if op == "BitOr":
                return const(a[1] or b[1])
        if op == "BitAnd" and (a == const(False) or b == const(False)):
            return const(False)
        if op == "BitOr" and (a == const(True) or b == const(True)):
            return const(True)
        return UNKNOWN

    def equal(self, a, b):
        if a[0] == "const" and b[0] == "const":
            return a[1] == b[1]
        if a[0] == "enum" and b[0] == "enum":
            if a[2] != b[2]:
                return False
            if not a[3] and not b[3]:
                return True
            subs = [self.equal(x, y) for x, y in zip(a[3], b[3])]
            if any(s is False for s in subs):
                return False
            return True if all(s is True for s in subs) else None
        if a[0] == "sym" and b[0] == "sym" and a == b:
            return True
        return None

    # ------------------------------------------------------------------ calls
    def call(self, env, t, body, depth):
        """set of possible results of the call terminator t"""
        args = [self.operand(env, a, body) for a in t["args"]]
        r = self.oracle(t, args, body)
        if r is not None:
            return r if isinstance(r, (set, frozenset, list)) else [r]
        cn = t.get("cn") or t.get("callee") or ""
        last = cn.rsplit("::", 1)[-1]

        def call_fn(f, fargs):
            return self.call_value(f, fargs, depth)
        if cn.endswith(("Try::branch",)) and args:
            a = args[0]
            if a[0] == "enum" and a[2] == "Some":
                return [("enum", "ControlFlow", "Continue", (a[3][0],))]
            if a[0] == "enum" and a[2] == "None":
                return [("enum", "ControlFlow", "Break", (NONE,))]
            return [("enum", "ControlFlow", "Continue", (UNKNOWN,)), ("enum", "ControlFlow", "Break", (NONE,))]
        if cn.endswith("FromResidual::from_residual"):
            return [NONE]
        if cn.endswith(("PartialEq::eq", "PartialEq::ne")) and len(args) == 2:
            eq = self.equal(args[0], args[1])
            if eq is None:
                return [UNKNOWN]
            return [const(eq if last == "eq" else not eq)]
        if cn.startswith("std::option::Option") or "::Option::<" in cn or cn.startswith("core::option::Option"):
            o = args[0] if args else UNKNOWN
            cases = [o] if o[0] == "enum" else [some(UNKNOWN), NONE]
            out = []
            for c in cases:
                is_some = c[2] == "Some"
                pay = c[3][0] if is_some else None
                if last == "or_else":
                    out.extend([c] if is_some else call_fn(args[1], []))
                elif last == "or":
                    out.append(c if is_some else args[1])
                elif last == "unwrap_or":
                    out.append(pay if is_some else args[1])
                elif last == "unwrap_or_else":
                    out.extend([pay] if is_some else call_fn(args[1], []))
                elif last == "unwrap_or_default":
                    out.append(pay if is_some else UNKNOWN)
                elif last in ("unwrap", "expect"):
                    if is_some:
                        out.append(pay)
                elif last == "map":
                    out.extend([some(x) for x in call_fn(args[1], [pay])] if is_some else [NONE])
                elif last == "and_then":
                    out.extend(call_fn(args[1], [pay]) if is_some else [NONE])
                elif last == "map_or":
                    out.extend(call_fn(args[2], [pay]) if is_some else [args[1]])
                elif last == "map_or_else":
                    out.extend(call_fn(args[2], [pay]) if is_some else call_fn(args[1], []))
                elif last == "filter":
                    if is_some:
                        for x in call_fn(args[1], [pay]):
                            if x == const(True):
                                out.append(c)
                            elif x == const(False):
                                out.append(NONE)
                            else:
                                out.extend([c, NONE])
                    else:
                        out.append(NONE)
                elif last == "is_some":
                    out.append(const(is_some))
                elif last == "is_none":
                    out.append(const(not is_some))
                elif last in ("copied", "cloned", "as_ref", "as_mut", "take", "as_deref"):
                    out.append(c)
                else:
                    return [UNKNOWN]
            return out
        if last in ("clone", "deref", "deref_mut", "borrow", "borrow_mut", "as_ref", "into", "from", "to_owned") and len(args) == 1:
            return [args[0]]
        if cn.endswith(("FnOnce::call_once", "FnMut::call_mut", "Fn::call")) and args:
            tup = args[1] if len(args) > 1 else ("agg", "tuple", ())
            fargs = list(tup[2]) if tup[0] == "agg" else []
            return call_fn(args[0], fargs)
        tgt = t.get("resolved") or t.get("callee")
        cb = self.facts.bodies.get(tgt)
        if cb is None and t.get("callee_local"):
            cands = [b_ for b_ in self.facts.bodies.values() if b_.cn == cn and b_.kind in ("fn", "method")]
            cb = cands[0] if len(cands) == 1 else None
        if cb is not None and cb.kind in ("fn", "method") and depth < self.max_depth:
            return list(self.run_body(cb, args, depth + 1))
        return [UNKNOWN]

    def call_value(self, f, fargs, depth):
        """call a closure / fn-item value"""
        if f[0] == "closure":
            cb = self.facts.bodies.get(f[1])
            if cb is not None and depth < self.max_depth:
                return list(self.run_body(cb, [f] + list(fargs), depth + 1))
        if f[0] == "fn":
            cb = self.facts.bodies.get(f[1])
            if cb is not None and depth < self.max_depth:
                return list(self.run_body(cb, list(fargs), depth + 1))
            # constructors used as functions: Some
            if f[1].endswith("Option::Some") and fargs:
                return [some(fargs[0])]
        return [UNKNOWN]

    # ------------------------------------------------------------------ bodies
    def run_body(self, body, args, depth=0):
        """set of values `body` may return when called with the abstract arguments"""
        env0 = {}
        for i, a in enumerate(args):
            env0[1 + i] = a
        results = set()
        work = [(0, env0, 0)]
        visits = {}
        while work:
            bi, env, steps = work.pop()
            self.states += 1
            if self.states > self.max_states:
                raise Limit("state limit")
            visits[bi] = visits.get(bi, 0) + 1
            if visits[bi] > 64 or steps > 400:
                results.add(UNKNOWN)       # loop cut off
                continue
            bl = body.blocks[bi]
            env = dict(env)
            for st in bl["stmts"]:
                if st["k"] == "assign":
                    self.write_place(env, st["place"], self.rvalue(env, st["rv"], body))
            t = bl["term"]
            if t is None:
                continue
            k = t["k"]
            if k == "return":
                results.add(env.get(0, UNKNOWN))
            elif k == "goto":
                work.append((t["target"], env, steps + 1))
            elif k in ("drop", "assert"):
                if isinstance(t.get("target"), int):
                    work.append((t["target"], env, steps + 1))
            elif k == "switch":
                d = self.operand(env, t["discr"], body)
                tg = dict((v, b_) for v, b_ in t["targets"])
                if d[0] == "const":
                    v = d[1]
                    if isinstance(v, bool):
                        v = int(v)
                    nxt = tg.get(v, t.get("otherwise"))
                    if isinstance(nxt, int):
                        work.append((nxt, env, steps + 1))
                else:
                    for b_ in set(list(tg.values()) + ([t["otherwise"]] if isinstance(t.get("otherwise"), int) else [])):
                        work.append((b_, env, steps + 1))
            elif k == "call":
                if t.get("target") is None:
                    continue               # diverging call (panic): no result on this path
                for r in self.call(env, t, body, depth):
                    e2 = dict(env)
                    self.write_place(e2, t["dest"], r)
                    work.append((t["target"], e2, steps + 1))
            # unreachable / resume: path ends
        return results


def show(v):
    if not isinstance(v, tuple) or not v:
        return str(v)
    if v[0] == "const":
        return repr(v[1])
    if v[0] == "enum":
        return "%s%s" % (v[2], ("(" + ", ".join(show(x) for x in v[3]) + ")") if v[3] else "")
    if v[0] == "sym":
        return "<%s>" % v[1]
    if v[0] == "unknown":
        return "?"
    if v[0] == "agg":
        return "(%s)" % ", ".join(show(x) for x in v[2])
    return str(v[0])
