"""A3: write effects — which (struct, field) / thread-local cells a body may modify.

Direct effects of a body:
  * assignment through a place whose provenance is a field path of a local ADT (any depth);
    assigning a whole field whose type contains local ADTs also writes every field of those ADTs ("reset");
  * a call that receives `&mut <field path>` (content may change) unless the callee is in NON_CONTENT;
  * RefCell::borrow_mut(&field) followed by writes through the guard: handled by provenance — the guard's
    deref resolves to the field path, so writes through it are attributed to the inner type's fields or,
    for non-struct contents, to the cell field itself.
Summaries are closed transitively over the call graph (A1).
"""
from . import sym as S
from . import util as U

NON_CONTENT = ("reserve", "reserve_exact", "shrink_to_fit", "shrink_to", "capacity", "len", "is_empty",
               "as_ptr", "iter", "get", "contains_key", "first", "last", "borrow", "deref", "as_ref", "clone",
               "borrow_mut", "deref_mut", "index", "with")

READ_ONLY_MUT_CALLEES = ("RefCell::borrow_mut", "DerefMut::deref_mut", "IndexMut::index_mut", "iter_mut",
                         "IntoIterator::into_iter", "get_mut", "last_mut", "first_mut", "as_mut",
                         "get_unchecked_mut", "Iterator::next", "Iterator::enumerate", "Iterator::zip")


def field_chain(e):
    """[(owner_did, field name)] from the root outwards for a provenance expression (through refs, derefs,
    RefCell guards, Option payloads, indexing)"""
    chain = []
    cur = e
    while isinstance(cur, tuple) and cur:
        k = cur[0]
        if k in ("ref", "deref"):
            cur = cur[1]
        elif k == "field":
            chain.append((cur[3] if len(cur) > 3 else None, str(cur[2])))
            cur = cur[1]
        elif k in ("down", "index", "cidx", "subslice"):
            cur = cur[1]
        elif k == "call" and cur[2] and any(cur[1].endswith(s) for s in (
                "RefCell::borrow_mut", "RefCell::borrow", "Deref::deref", "DerefMut::deref_mut", "Index::index",
                "IndexMut::index_mut", "Option::unwrap", "Option::as_mut", "Option::as_ref", "get_mut",
                "HashMap::get", "last_mut", "iter_mut", "IntoIterator::into_iter", "Iterator::next",
                "Iterator::enumerate", "<impl [T]>::iter_mut", "get_unchecked_mut", "Option::expect")):
            cur = cur[2][0]
        elif k == "phi":
            for alt in cur[2]:
                fc, root = field_chain(alt)
                if fc:
                    return fc + chain[::-1], root
            break
        else:
            break
    return chain[::-1], cur


class Effects:
    def __init__(self, ctx):
        self.ctx = ctx
        self.facts = ctx.facts
        self.local_adts = set(ctx.facts.adts)
        self.direct = {}
        self.why = {}
        self.param_writes = {}      # body id -> set of parameter locals written through (transitively, fixpoint below)
        for b in ctx.facts.fns():
            self.direct[b.id] = self._direct(b)
        self._param_fixpoint()
        for b in ctx.facts.fns():
            self.direct[b.id] |= self._via_params(b)
        self._trans = {}

    def _adts_in_type(self, tyname, seen=None):
        seen = seen if seen is not None else set()
        out = []
        t = self.facts.ty(tyname)
        k = t.get("k")
        if k == "adt":
            if t["did"] in self.local_adts and t["did"] not in seen:
                seen.add(t["did"])
                out.append(t["did"])
                for v in self.facts.adts[t["did"]]["variants"]:
                    for f in v["fields"]:
                        out.extend(self._adts_in_type(f["ty"], seen))
            for a in t.get("args", []):
                if not a.startswith("const:"):
                    out.extend(self._adts_in_type(a, seen))
        elif k in ("ref", "ptr"):
            out.extend(self._adts_in_type(t["to"], seen))
        elif k in ("slice", "array"):
            out.extend(self._adts_in_type(t["of"], seen))
        elif k == "tuple":
            for a in t["of"]:
                out.extend(self._adts_in_type(a, seen))
        return out

    def _record(self, eff, b, chain, tyname, how, bi):
        """attribute a write through `chain` (root-outwards list of (owner, field))"""
        loc = [(o, f) for (o, f) in chain if o in self.local_adts]
        if not loc:
            return
        for (o, f) in loc:
            eff.add((o, f))
            self.why.setdefault((b.id, (o, f)), (how, bi))
        # whole-value replacement of something that contains local structs resets all their fields
        if how == "assign" and tyname:
            for adt in self._adts_in_type(tyname):
                a = self.facts.adts[adt]
                if a["kind"] == "struct":
                    for fld in a["variants"][0]["fields"]:
                        eff.add((adt, fld["name"]))
                        self.why.setdefault((b.id, (adt, fld["name"])), ("reset-by-assign", bi))

    def _direct(self, b):
        eff = set()
        sy = self.ctx.sym(b)
        for bi, si, st in b.iter_stmts():
            if st["k"] != "assign" or b.blocks[bi]["cleanup"]:
                continue
            pl = st["place"]
            if not pl["p"]:
                continue
            e = sy.dest(pl)
            chain, root = field_chain(e)
            if chain and not self._is_fresh_local(b, root):
                self._record(eff, b, chain, pl["ty"], "assign", bi)
            elif not chain and not self._is_fresh_local(b, root):
                # whole-value replacement of a long-lived struct (`*self = Self { .. }`): every field is written
                # except those whose new value is provably the old value of the same field
                adt = U.adt_of(self.facts, pl["ty"])
                if adt in self.local_adts and self.facts.adts[adt]["kind"] == "struct" and \
                        self.facts.ty(pl["ty"]).get("k") == "adt":
                    new = sy.rvalue(st["rv"])
                    target = S.strip_refs(e)
                    fields = [f["name"] for f in self.facts.adts[adt]["variants"][0]["fields"]]
                    kept = set()
                    if new[0] == "agg" and new[1] == "adt" and len(new[3]) == len(fields):
                        for fname, op in zip(new[4] or fields, new[3]):
                            if self._is_old_value(op, target, fname):
                                kept.add(fname)
                    for f in self.facts.adts[adt]["variants"][0]["fields"]:
                        if f["name"] in kept:
                            continue
                        eff.add((adt, f["name"]))
                        self.why.setdefault((b.id, (adt, f["name"])), ("whole-struct-assign", bi))
                        for inner in self._adts_in_type(f["ty"]):
                            a = self.facts.adts[inner]
                            if a["kind"] == "struct":
                                for fld in a["variants"][0]["fields"]:
                                    eff.add((inner, fld["name"]))
                                    self.why.setdefault((b.id, (inner, fld["name"])), ("reset-by-assign", bi))
        for bi, t in b.calls():
            name = (t.get("cn") or "").rsplit("::", 1)[-1]
            # interior mutation through a shared reference to the cell
            if (t.get("cn") or "").endswith(("RefCell::replace", "RefCell::take", "RefCell::swap", "RefCell::replace_with", "Cell::set",
                                             "Cell::replace", "Cell::take", "Cell::swap")) and t["args"]:
                chain, root = field_chain(sy.operand(t["args"][0]))
                if chain and not self._is_fresh_local(b, root):
                    self._record(eff, b, chain, None, "cell:" + name, bi)
                continue
            if any((t.get("cn") or "").endswith(x) for x in READ_ONLY_MUT_CALLEES):
                continue
            if name in NON_CONTENT:
                continue
            for a in t["args"]:
                p = a.get("copy") or a.get("move")
                if p is None:
                    continue
                ty = self.facts.ty(p["ty"])
                if not (ty.get("k") == "ref" and ty.get("mut")):
                    continue
                e = sy.operand(a)
                chain, root = field_chain(e)
                if not chain or self._is_fresh_local(b, root):
                    continue
                if t.get("callee_local") and not t.get("trait"):
                    # local callee: its own summary says which fields of the pointee it writes; only the path
                    # *to* the pointee is recorded when the pointee is not a local struct
                    inner = U.adt_of(self.facts, p["ty"])
                    if inner in self.local_adts:
                        continue
                self._record(eff, b, chain, None, "call:" + name, bi)
        return eff

    def _param_root(self, b, e):
        """parameter local whose pointee expression e addresses (through refs, guards, indexing), else None"""
        chain, root = field_chain(e)
        if chain:
            return None
        if isinstance(root, tuple) and root and root[0] == "arg" and b.kind != "closure":
            t = self.facts.ty(b.local_ty(root[1]))
            if t.get("k") in ("ref", "ptr"):
                return root[1]
        return None

    def _param_fixpoint(self):
        facts = self.facts
        pw = {b.id: set() for b in facts.fns()}
        # direct: assignment through a parameter / mutating std call on a parameter
        for b in facts.fns():
            sy = self.ctx.sym(b)
            for bi, si, st in b.iter_stmts():
                if st["k"] == "assign" and st["place"]["p"] and not b.blocks[bi]["cleanup"]:
                    r = self._param_root(b, sy.dest(st["place"]))
                    if r is not None:
                        pw[b.id].add(r)
            for bi, t in b.calls():
                name = (t.get("cn") or "").rsplit("::", 1)[-1]
                if any((t.get("cn") or "").endswith(x) for x in READ_ONLY_MUT_CALLEES) or name in NON_CONTENT:
                    continue
                if t.get("callee_local") and not t.get("trait"):
                    continue
                for a in t["args"]:
                    p = a.get("copy") or a.get("move")
                    if p is None:
                        continue
                    ty = facts.ty(p["ty"])
                    if ty.get("k") == "ref" and ty.get("mut"):
                        r = self._param_root(b, sy.operand(a))
                        if r is not None:
                            pw[b.id].add(r)
        changed = True
        while changed:
            changed = False
            for b in facts.fns():
                sy = self.ctx.sym(b)
                for bi, t in b.calls():
                    tgt = t.get("resolved") or t.get("callee")
                    if tgt not in pw or not pw[tgt]:
                        continue
                    for pi in pw[tgt]:
                        if pi - 1 < len(t["args"]):
                            r = self._param_root(b, sy.operand(t["args"][pi - 1]))
                            if r is not None and r not in pw[b.id]:
                                pw[b.id].add(r)
                                changed = True
        self.param_writes = pw

    def _via_params(self, b):
        """effects of calls to local callees that write through a parameter bound to a field path here"""
        eff = set()
        sy = self.ctx.sym(b)
        for bi, t in b.calls():
            tgt = t.get("resolved") or t.get("callee")
            for pi in self.param_writes.get(tgt, ()):
                if pi - 1 >= len(t["args"]):
                    continue
                e = sy.operand(t["args"][pi - 1])
                chain, root = field_chain(e)
                if chain and not self._is_fresh_local(b, root):
                    self._record(eff, b, chain, None, "callee-writes-param:" + (tgt or "?").rsplit("::", 1)[-1], bi)
        return eff

    def _is_old_value(self, op, target, fname):
        """op is `target.fname` (copied, or moved out with mem::replace / mem::take)"""
        x = S.strip_refs(op)
        if x[0] == "call" and x[1] in ("std::mem::replace", "std::mem::take", "core::mem::replace", "core::mem::take") and x[2]:
            x = S.strip_refs(x[2][0])
        if x[0] == "call" and x[1].endswith("Clone::clone") and x[2]:
            x = S.strip_refs(x[2][0])
        return x[0] == "field" and str(x[2]) == fname and S.strip_refs(x[1]) == target

    def _is_fresh_local(self, b, root):
        """writes into a value constructed in this body (a fresh local) are not effects on long-lived state"""
        if not isinstance(root, tuple) or not root:
            return True
        if root[0] == "arg":
            t = self.facts.ty(b.local_ty(root[1]))
            if t.get("k") in ("ref", "ptr"):
                return False
            # by-value self (builder methods): owned by the caller
            return True
        if root[0] == "upvar":
            return False
        if root[0] in ("nconst", "promoted"):
            return False
        if root[0] == "call":
            # e.g. HashMap::get_mut(...).unwrap(), LocalKey access: long-lived if any argument is long-lived
            for a in root[2]:
                ch, r2 = field_chain(a)
                if not self._is_fresh_local(b, r2):
                    return False
            return True
        if root[0] in ("local", "phi"):
            return False
        return True

    def trans(self, bid):
        if bid in self._trans:
            return self._trans[bid]
        cg = self.ctx.cg
        seen = cg.reachable([bid])
        eff = set()
        for x in seen:
            eff |= self.direct.get(x, set())
        self._trans[bid] = eff
        return eff

    def explain(self, bid, cell):
        """(body, how) of one direct write to `cell` reachable from bid"""
        cg = self.ctx.cg
        for x in sorted(cg.reachable([bid])):
            if cell in self.direct.get(x, set()):
                return x, self.why.get((x, cell))
        return None, None
