"""Fact loading and extraction (DESIGN §3.1).

Facts are produced by /verif/driver (lsv-driver, a rustc_private wrapper) from the
*current* sources of the repository under analysis; nothing of lucid-suggest is
executed.  This module runs the extraction and wraps the JSON in light helpers.
"""
import fcntl
import hashlib
import json
import os
import shutil
import subprocess
import sys
import time

VERIF = os.path.dirname(os.path.dirname(os.path.abspath(__file__)))
WORK = os.environ.get("LSV_WORK", os.path.join(VERIF, ".work"))
DRIVER_DIR = os.path.join(VERIF, "driver")
DRIVER_TARGET = os.path.join(VERIF, ".work", "driver-target")
DRIVER_BIN = os.path.join(DRIVER_TARGET, "release", "lsv-driver")
REPO = os.environ.get("LSV_REPO", "/repo")


class ExtractionError(Exception):
    pass


def _run(cmd, cwd=None, env=None, timeout=1800):
    p = subprocess.run(cmd, cwd=cwd, env=env, stdout=subprocess.PIPE,
                       stderr=subprocess.STDOUT, text=True, timeout=timeout)
    return p.returncode, p.stdout


def nightly_sysroot():
    rc, out = _run(["rustc", "+nightly", "--print", "sysroot"])
    if rc != 0:
        raise ExtractionError("nightly toolchain not available: " + out)
    return out.strip()


def base_env():
    env = dict(os.environ)
    env["CARGO_NET_OFFLINE"] = "true"
    env.pop("RUSTC_WRAPPER", None)
    return env


def build_driver(force=False):
    """Build lsv-driver offline if missing or older than its source."""
    src = os.path.join(DRIVER_DIR, "src", "main.rs")
    if (not force and os.path.exists(DRIVER_BIN)
            and os.path.getmtime(DRIVER_BIN) >= os.path.getmtime(src)):
        return
    os.makedirs(WORK, exist_ok=True)
    env = base_env()
    env["CARGO_TARGET_DIR"] = DRIVER_TARGET
    rc, out = _run(["cargo", "+nightly", "build", "--release", "--offline"],
                   cwd=DRIVER_DIR, env=env)
    if rc != 0 or not os.path.exists(DRIVER_BIN):
        raise ExtractionError("driver build failed:\n" + out[-4000:])


class _Lock:
    def __init__(self, name):
        os.makedirs(WORK, exist_ok=True)
        self.path = os.path.join(WORK, name + ".lock")

    def __enter__(self):
        self.f = open(self.path, "w")
        fcntl.flock(self.f, fcntl.LOCK_EX)
        return self

    def __exit__(self, *a):
        fcntl.flock(self.f, fcntl.LOCK_UN)
        self.f.close()


def source_hash(paths):
    h = hashlib.sha256()
    for root in paths:
        if os.path.isfile(root):
            files = [root]
        else:
            files = []
            for d, dirs, fs in os.walk(root):
                dirs[:] = sorted(x for x in dirs if x not in ("target", ".git", "snapshots"))
                for f in sorted(fs):
                    if f.endswith((".rs", ".toml", ".lock")):
                        files.append(os.path.join(d, f))
        for f in sorted(files):
            h.update(f.encode())
            with open(f, "rb") as fh:
                h.update(fh.read())
    return h.hexdigest()[:16]


def run_driver(crate_dir, crates, out_dir, target_dir, extra_rustflags="", suffix="",
               cargo_args=("--lib",), members=None):
    """Run `cargo +nightly check` in crate_dir with lsv-driver as workspace wrapper.

    The member crates' fingerprints are deleted first so that cargo cannot skip the
    wrapper; the caller asserts that the fact file was (re)written.
    """
    build_driver()
    os.makedirs(out_dir, exist_ok=True)
    fp = os.path.join(target_dir, "debug", ".fingerprint")
    if os.path.isdir(fp):
        for d in os.listdir(fp):
            for m in (members or crates):
                if d.startswith(m.replace("_", "-") + "-"):
                    shutil.rmtree(os.path.join(fp, d), ignore_errors=True)
    env = base_env()
    env["LD_LIBRARY_PATH"] = os.path.join(nightly_sysroot(), "lib")
    env["RUSTFLAGS"] = ("-Zmir-opt-level=0 -Awarnings " + extra_rustflags).strip()
    env["RUSTC_WORKSPACE_WRAPPER"] = DRIVER_BIN
    env["LSV_CRATES"] = ",".join(crates)
    env["LSV_OUT"] = out_dir
    env["LSV_SUFFIX"] = suffix
    env["CARGO_TARGET_DIR"] = target_dir
    env["CARGO_INCREMENTAL"] = "0"
    rc, out = _run(["cargo", "+nightly", "check", "--offline"] + list(cargo_args),
                   cwd=crate_dir, env=env)
    if rc != 0:
        raise ExtractionError("cargo check under lsv-driver failed in %s:\n%s" % (crate_dir, out[-6000:]))
    return out


def extract_core(repo=None, use_cache=None):
    """Extract facts for lucid-suggest-core from <repo>/rust/core (current tree)."""
    repo = repo or REPO
    core = os.path.join(repo, "rust", "core")
    if not os.path.isdir(core):
        raise ExtractionError("no rust/core under " + repo)
    if use_cache is None:
        use_cache = os.environ.get("LSV_CACHE") == "1"
    build_driver()
    h = source_hash([os.path.join(core, "src"), os.path.join(core, "Cargo.toml")])
    dh = source_hash([os.path.join(DRIVER_DIR, "src")])
    out_dir = os.path.join(WORK, "facts", h + "-" + dh)
    fact = os.path.join(out_dir, "lucid_suggest_core.json")
    t0 = time.time()
    with _Lock("extract"):
        cached = use_cache and os.path.exists(fact)
        if not cached:
            if os.path.exists(fact):
                os.remove(fact)
            run_driver(core, ["lucid_suggest_core"], out_dir,
                       os.path.join(WORK, "tgt-core"))
            if not os.path.exists(fact):
                raise ExtractionError("driver did not write " + fact)
        # keep the facts directory small
        _prune(os.path.join(WORK, "facts"), keep=out_dir)
        with open(fact) as fh:
            data = json.load(fh)
    meta = {"repo": repo, "source_hash": h, "driver_hash": dh, "cached": bool(cached),
            "extract_s": round(time.time() - t0, 2), "fact_file": fact}
    if os.environ.get("LSV_NO_INLINE") != "1":
        from . import inline, align
        data, arep = align.apply(data)
        meta["align"] = arep
        data, rep = inline.apply(data)
        meta["inline"] = rep
    return Facts(data, meta)


def _prune(root, keep, limit=12):
    try:
        ds = [os.path.join(root, d) for d in os.listdir(root)]
    except OSError:
        return
    ds = [d for d in ds if os.path.isdir(d) and d != keep]
    ds.sort(key=os.path.getmtime)
    for d in ds[:-limit] if len(ds) > limit else []:
        shutil.rmtree(d, ignore_errors=True)


# ---------------------------------------------------------------------------

def canon(path):
    """strip generic-argument segments `::<...>` from a def path (keeps `<impl ..>` and `<T as Trait>`)"""
    if not path or "::<" not in path:
        return path
    out = []
    i = 0
    n = len(path)
    while i < n:
        if path.startswith("::<", i) and not path.startswith("::<impl ", i):
            depth = 0
            j = i + 2
            while j < n:
                c = path[j]
                if c == "<":
                    depth += 1
                elif c == ">" and path[j - 1] != "-":
                    depth -= 1
                    if depth == 0:
                        break
                j += 1
            i = j + 1
            continue
        out.append(path[i])
        i += 1
    return "".join(out)


def loc_str(loc):
    if not loc:
        return "?"
    return "%s:%s" % (loc.get("file"), loc.get("line"))


class Body:
    def __init__(self, raw, facts, owner=None, pidx=None):
        self.raw = raw
        self.facts = facts
        self.owner = owner            # for promoted bodies: the owning Body
        self.pidx = pidx
        if owner is None:
            self.id = raw["id"]
            self.kind = raw["kind"]
            self.loc = raw.get("loc")
            self.parent = raw.get("parent")
            self.impl_self = raw.get("impl_self")
            self.impl_trait = raw.get("impl_trait")
            self.exported = raw.get("exported", False)
            self.public = raw.get("vis_public", False)
            self.sig = raw.get("sig")
            self.unsafe = raw.get("unsafe", False)
        else:
            self.id = "%s::{promoted#%d}" % (owner.id, pidx)
            self.kind = "promoted"
            self.loc = owner.loc
            self.parent = owner.id
            self.impl_self = None
            self.impl_trait = None
            self.exported = False
            self.public = False
            self.sig = None
            self.unsafe = False
        self.arg_count = raw["arg_count"]
        self.locals = raw["locals"]
        self.blocks = raw["blocks"]
        self.debug = raw["debug"]
        self.promoted = []
        if owner is None:
            for p in raw.get("promoted", []):
                self.promoted.append(Body(p, facts, owner=self, pidx=p["index"]))
        # user names for plain locals
        self.cn = canon(self.id)
        for bl in self.blocks:
            t = bl["term"]
            if t is not None and t["k"] == "call":
                t["cn"] = canon(t.get("callee"))
                t["rcn"] = canon(t.get("resolved") or t.get("callee"))
        self.names = {}
        self.upvar_names = {}
        for d in self.debug:
            v = d["value"]
            if "l" in v:
                if not v["p"]:
                    self.names.setdefault(v["l"], d["name"])
                elif v["l"] == 1:
                    fs = [x for x in v["p"] if isinstance(x, dict) and "f" in x]
                    if fs:
                        self.upvar_names[fs[0]["f"]] = d["name"]
        self._defs = None

    @property
    def file(self):
        return (self.loc or {}).get("file")

    def where(self):
        return loc_str(self.loc)

    def short(self):
        return self.id

    def local_ty(self, l):
        return self.locals[l]["ty"]

    def name_of(self, l):
        return self.names.get(l, "_%d" % l)

    def iter_stmts(self):
        for bi, b in enumerate(self.blocks):
            for si, st in enumerate(b["stmts"]):
                yield bi, si, st

    def iter_terms(self, include_cleanup=False):
        for bi, b in enumerate(self.blocks):
            if b["cleanup"] and not include_cleanup:
                continue
            t = b["term"]
            if t is not None:
                yield bi, t

    def calls(self, include_cleanup=False):
        for bi, t in self.iter_terms(include_cleanup):
            if t["k"] == "call":
                yield bi, t

    def defs(self):
        """local -> list of ('assign', bi, si, stmt) | ('call', bi, term) for whole-local defs."""
        if self._defs is None:
            d = {}
            for bi, si, st in self.iter_stmts():
                if st["k"] == "assign" and not st["place"]["p"]:
                    d.setdefault(st["place"]["l"], []).append(("assign", bi, si, st))
            for bi, t in self.iter_terms(include_cleanup=True):
                if t["k"] == "call" and not t["dest"]["p"]:
                    d.setdefault(t["dest"]["l"], []).append(("call", bi, None, t))
            self._defs = d
        return self._defs


class Facts:
    def __init__(self, data, meta=None):
        self.data = data
        self.meta = meta or {}
        self.crate = data["crate"]
        self.types = data["types"]
        self.adts = {a["id"]: a for a in data["adts"]}
        self.bodies = {}
        for raw in data["bodies"]:
            b = Body(raw, self)
            self.bodies[b.id] = b
        self.all_bodies = {}
        for b in self.bodies.values():
            self.all_bodies[b.id] = b
            for p in b.promoted:
                self.all_bodies[p.id] = p

    def body(self, bid):
        return self.bodies.get(bid)

    def find(self, suffix):
        """Bodies whose id ends with `suffix` (path-segment aligned)."""
        out = []
        for b in self.bodies.values():
            if b.id == suffix or b.id.endswith("::" + suffix):
                out.append(b)
        return out

    def one(self, suffix):
        r = self.find(suffix)
        return r[0] if len(r) == 1 else None

    def ty(self, name):
        return self.types.get(name) or {"k": "unknown"}

    @staticmethod
    def canon_is(path, want):
        return canon(path) == want

    def fns(self):
        return [b for b in self.bodies.values() if b.kind in ("fn", "method", "closure")]

    def closures_of(self, body):
        pre = body.id + "::{closure#"
        return [b for b in self.bodies.values() if b.kind == "closure" and b.id.startswith(pre)]


def load_file(path, meta=None):
    with open(path) as fh:
        return Facts(json.load(fh), meta or {"fact_file": path})


if __name__ == "__main__":
    f = extract_core()
    print(json.dumps(f.meta, indent=1))
    print(len(f.bodies), "bodies")


LANG_CFGS = ("", "de", "en", "es", "fr", "pt", "ru")


def extract_wasm(repo=None, langs=LANG_CFGS):
    """Facts for the WASM bridge (rust/wasm/src/lib.rs) compiled against a no-op wasm_bindgen shim, once per `lang` cfg.
    Returns {lang: Facts}."""
    repo = repo or REPO
    wasm_src = os.path.join(repo, "rust", "wasm", "src", "lib.rs")
    core = os.path.join(repo, "rust", "core")
    if not os.path.exists(wasm_src):
        raise ExtractionError("no rust/wasm/src/lib.rs under " + repo)
    build_driver()
    h = source_hash([os.path.join(core, "src"), wasm_src])
    harness = os.path.join(WORK, "wasm-harness-" + hashlib.sha256(repo.encode()).hexdigest()[:8])
    os.makedirs(harness, exist_ok=True)
    with open(os.path.join(harness, "Cargo.toml"), "w") as fh:
        fh.write('[package]\nname = "lucid-suggest-wasm"\nversion = "0.0.0"\nedition = "2018"\n\n[lib]\npath = "%s"\n\n'
                 '[dependencies]\nwasm-bindgen = { path = "%s" }\nlucid-suggest-core = { path = "%s" }\n\n[workspace]\n'
                 % (wasm_src, os.path.join(VERIF, "shim", "wasm-bindgen"), core))
    lock = os.path.join(core, "Cargo.lock")
    if os.path.exists(lock) and not os.path.exists(os.path.join(harness, "Cargo.lock")):
        shutil.copy(lock, os.path.join(harness, "Cargo.lock"))
    out = {}
    with _Lock("extract-wasm"):
        for lang in langs:
            out_dir = os.path.join(WORK, "facts-wasm", h)
            suffix = "-" + (lang or "none")
            fact = os.path.join(out_dir, "lucid_suggest_wasm%s.json" % suffix)
            if not (os.environ.get("LSV_CACHE") == "1" and os.path.exists(fact)):
                if os.path.exists(fact):
                    os.remove(fact)
                flags = ('--cfg lang="%s" --check-cfg cfg(lang,values(any()))' % lang) if lang else "--check-cfg cfg(lang,values(any()))"
                run_driver(harness, ["lucid_suggest_wasm"], out_dir, os.path.join(WORK, "tgt-wasm"),
                           extra_rustflags=flags, suffix=suffix, members=["lucid_suggest_wasm"])
                if not os.path.exists(fact):
                    raise ExtractionError("driver did not write " + fact)
            with open(fact) as fh:
                out[lang] = Facts(json.load(fh), {"repo": repo, "fact_file": fact, "lang": lang})
    return out
