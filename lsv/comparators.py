"""A7: structure of comparator bodies.

analyse(ctx, body) -> {'keys': [(projection, 'Asc'|'Desc', type)], 'malformed': [reasons]}
where body is a fn/closure (a, b) -> Ordering.  Understood forms:
  Ord::cmp(pa, pb)                         one key; Asc if pa comes from the first parameter
  Ordering::then_with(c1, closure)         c1's keys followed by the closure's
  Ordering::then(c1, c2), reverse(c)
  a.iter().zip(b.iter()).map(|(x,y)| cmp).find(|o| o != Equal).unwrap_or(Equal)   lexicographic over a sequence
Projections are field paths from the parameter, e.g. 'rating' or 'title.chars'.
"""
from . import sym as S
from . import util as U


def _param_proj(e, params, upmap):
    """(param_index, projection string) of an operand expression, or None"""
    e = S.strip_refs(e)
    names = []
    cur = e
    while isinstance(cur, tuple) and cur:
        if cur[0] == "field":
            names.append(str(cur[2]))
            cur = S.strip_refs(cur[1])
        elif cur[0] == "call" and cur[2] and (cur[1].endswith("::iter") or cur[1].endswith("Deref::deref")
                                               or cur[1].endswith("as_ref") or cur[1].endswith("as_slice")):
            if cur[1].endswith("::iter") and not cur[1].startswith(("core::slice", "std::vec", "std::slice")):
                names.append(cur[1].rsplit("::", 2)[-2] + "::iter()")
            cur = S.strip_refs(cur[2][0])
        else:
            break
    if isinstance(cur, tuple) and cur:
        if cur[0] == "arg" and cur[1] in params:
            return params[cur[1]], ".".join(names[::-1])
        if cur[0] == "upvar" and cur[1] in upmap:
            pi, pre = upmap[cur[1]]
            return pi, ".".join(([pre] if pre else []) + names[::-1])
    return None


def analyse(ctx, body, params=None, upmap=None, depth=0):
    """params: {local index: logical parameter number (1|2)}"""
    res = {"keys": [], "malformed": []}
    if depth > 4:
        res["malformed"].append("comparator nesting too deep")
        return res
    if params is None:
        first = 2 if body.kind == "closure" else 1
        params = {first: 1, first + 1: 2}
    upmap = upmap or {}
    sy = ctx.sym(body)
    e = sy.local(0)
    _analyse_expr(ctx, body, e, params, upmap, res, depth)
    return res


def _cmp_key(ctx, body, call, params, upmap, res):
    a, b = call[2][0], call[2][1]
    pa = _param_proj(a, params, upmap)
    pb = _param_proj(b, params, upmap)
    if pa is None or pb is None:
        res["malformed"].append("cmp operand is not a projection of a comparator parameter: %s vs %s"
                                % (S.show(a, body)[:80], S.show(b, body)[:80]))
        return
    if pa[0] == pb[0]:
        res["malformed"].append("both sides of cmp come from the same parameter (%s, %s)" % (pa[1], pb[1]))
        return
    if pa[1] != pb[1]:
        res["malformed"].append("cmp compares different projections: '%s' of one argument with '%s' of the other"
                                % (pa[1], pb[1]))
        return
    res["keys"].append((pa[1], "Asc" if pa[0] == 1 else "Desc"))


def _analyse_expr(ctx, body, e, params, upmap, res, depth):
    if not isinstance(e, tuple) or not e:
        res["malformed"].append("unrecognised comparator result")
        return
    if e[0] == "call":
        name = e[1]
        if name.endswith("Ord::cmp"):
            _cmp_key(ctx, body, e, params, upmap, res)
            return
        if name.endswith("Iterator::cmp") and len(e[2]) == 2:
            # a.iter().cmp(b.iter()): lexicographic comparison of the two sequences, element by element with Ord::cmp
            pl = _param_proj(e[2][0], params, upmap)
            pr = _param_proj(e[2][1], params, upmap)
            if pl is None or pr is None or pl[0] == pr[0] or pl[1] != pr[1]:
                res["malformed"].append("Iterator::cmp does not compare the same projection of the two arguments: %s / %s" % (pl, pr))
                return
            res["keys"].append((pl[1] + "[*]", "Asc" if pl[0] == 1 else "Desc"))
            return
        if name.endswith("PartialOrd::partial_cmp"):
            res["malformed"].append("partial_cmp is not a total order")
            return
        if name.endswith("Ordering::then_with") or name.endswith("Ordering::then"):
            _analyse_expr(ctx, body, e[2][0], params, upmap, res, depth)
            nxt = e[2][1]
            cb = U.closure_body(ctx, nxt)
            if cb is not None:
                # map the closure's upvars to the outer parameters
                um = {}
                agg = S.strip_refs(nxt)
                if agg[0] == "agg":
                    for i, op in enumerate(agg[3]):
                        pp = _param_proj(op, params, upmap)
                        if pp is not None:
                            um[i] = pp
                sub = analyse_closure_noargs(ctx, cb, um, depth + 1)
                res["keys"].extend(sub["keys"])
                res["malformed"].extend(sub["malformed"])
            else:
                _analyse_expr(ctx, body, nxt, params, upmap, res, depth)
            return
        if name.endswith("Ordering::reverse"):
            sub = {"keys": [], "malformed": []}
            _analyse_expr(ctx, body, e[2][0], params, upmap, sub, depth)
            res["keys"].extend((k, "Desc" if d == "Asc" else "Asc") for k, d in sub["keys"])
            res["malformed"].extend(sub["malformed"])
            return
        if name.endswith("Option::unwrap_or"):
            # iter().zip().map(cmp).find(!= Equal).unwrap_or(Equal)
            dflt = e[2][1]
            if not (dflt[0] == "agg" and dflt[2].endswith("Ordering::Equal")):
                res["malformed"].append("default of the lexicographic comparison is not Ordering::Equal")
            src, stages = U.chain(e[2][0])
            names = [s[0] for s in stages]
            if names[-3:] != ["zip", "map", "find"] and names[-2:] != ["map", "find"]:
                res["malformed"].append("unrecognised lexicographic idiom: %s" % names)
                return
            zip_stage = [s for s in stages if s[0] == "zip"]
            if not zip_stage:
                res["malformed"].append("lexicographic idiom without zip")
                return
            left = zip_stage[0][2][2][0]
            right = zip_stage[0][1][0]
            pl = _param_proj(left, params, upmap)
            pr = _param_proj(right, params, upmap)
            if pl is None or pr is None or pl[0] == pr[0] or pl[1] != pr[1]:
                res["malformed"].append("zip does not pair the same projection of the two arguments: %s / %s" % (pl, pr))
                return
            map_stage = [s for s in stages if s[0] == "map"][-1]
            mb = U.closure_body(ctx, map_stage[1][0])
            find_stage = [s for s in stages if s[0] == "find"][-1]
            fb = U.closure_body(ctx, find_stage[1][0])
            if mb is None or fb is None:
                res["malformed"].append("map/find closure not found")
                return
            # map closure: parameter _2 is the tuple (x, y): x from `left`, y from `right`
            msy = ctx.sym(mb)
            me = msy.local(0)
            if not (me[0] == "call" and me[1].endswith("Ord::cmp")):
                res["malformed"].append("element comparison is not Ord::cmp")
                return
            def tuple_side(x):
                x = S.strip_refs(x)
                if x[0] == "field" and S.strip_refs(x[1]) == ("arg", 2):
                    return int(x[2])
                return None
            sa, sb = tuple_side(me[2][0]), tuple_side(me[2][1])
            if sa is None or sb is None or sa == sb:
                res["malformed"].append("element comparison does not compare the two zipped elements")
                return
            first_param = pl[0] if sa == 0 else pr[0]
            # find closure: o != Equal
            fe = ctx.sym(fb).local(0)
            okf = fe[0] == "call" and (fe[1].endswith("PartialEq::ne")) and any(
                isinstance(z, tuple) and z and z[0] == "agg" and z[2].endswith("Ordering::Equal") for z in S.walk(fe))
            if not okf:
                res["malformed"].append("find predicate is not `!= Ordering::Equal`")
            res["keys"].append((pl[1] + "[*]", "Asc" if first_param == 1 else "Desc"))
            return
    if e[0] == "phi":
        if _loop_lexicographic(ctx, body, e, params, upmap, res):
            return
        res["malformed"].append("comparator with data-dependent branches is not a recognised lexicographic form")
        return
    res["malformed"].append("unrecognised comparator expression: %s" % S.show(e, body)[:120])


def _loop_lexicographic(ctx, body, e, params, upmap, res):
    """for (x, y) in a.iter().zip(b.iter()) { let o = x.cmp(y); if o != Equal { return o } }  Equal"""
    alts = U.flatten_phi(e)
    cmps = [a for a in alts if a[0] == "call" and a[1].endswith("Ord::cmp")]
    eqs = [a for a in alts if a[0] == "agg" and a[2].endswith("Ordering::Equal")]
    if len(cmps) != 1 or len(eqs) != 1 or len(alts) != 2:
        return False
    c = cmps[0]

    def elem_side(x):
        # (side, zip call) of `(next(zipiter) as Some).0.<side>`
        x = S.strip_refs(x)
        if x[0] != "field":
            return None
        side = str(x[2])
        y = S.strip_refs(x[1])
        while isinstance(y, tuple) and y and y[0] in ("field", "down"):
            y = S.strip_refs(y[1])
        if not (isinstance(y, tuple) and y and y[0] == "call" and y[1].endswith("Iterator::next")):
            return None
        src, stages = U.chain(y[2][0])
        zs = [s for s in stages if s[0] == "zip"]
        if not zs or [s[0] for s in stages if s[0] not in ("zip", "into_iter", "iter")]:
            return None
        return side, zs[0], y
    sa, sb = elem_side(c[2][0]), elem_side(c[2][1])
    if sa is None or sb is None or sa[0] == sb[0] or sa[0] not in ("0", "1") or sb[0] not in ("0", "1"):
        return False
    z = sa[1]
    left, right = z[2][2][0], z[1][0]
    pl, pr = _param_proj(left, params, upmap), _param_proj(right, params, upmap)
    if pl is None or pr is None or pl[0] == pr[0] or pl[1] != pr[1]:
        res["malformed"].append("zip does not pair the same projection of the two arguments: %s / %s" % (pl, pr))
        return True
    # the element comparison is returned only when it differs from Equal; Equal is returned only once the zip is exhausted
    sy = ctx.sym(body)
    cfg = ctx.cfg(body)
    ret_cmp, ret_eq = [], []
    for bi, si, st in body.iter_stmts():
        if st["k"] == "assign" and st["place"]["l"] == 0 and not st["place"]["p"] and not body.blocks[bi]["cleanup"]:
            v = sy.rvalue(st["rv"])
            (ret_cmp if (v[0] == "call" and v[1].endswith("Ord::cmp")) else ret_eq).append(bi)
    guarded = False
    for bi, t in body.iter_terms():
        if t["k"] != "switch":
            continue
        d = S.strip_refs(sy.operand(t["discr"]))
        bt = U.bool_switch_targets(t)
        ne_side = None
        if d[0] == "call" and d[1].endswith(("PartialEq::ne", "PartialEq::eq")) and bt and \
                any(isinstance(x, tuple) and x and x[0] == "agg" and x[2].endswith("Ordering::Equal") for x in S.walk(d)) and \
                any(isinstance(x, tuple) and x and x[0] == "call" and x[1].endswith("Ord::cmp") for x in S.walk(d)):
            ne_side = bt[1] if d[1].endswith("ne") else bt[0]
        elif d[0] == "discr" and S.strip_refs(d[1])[0] == "call" and S.strip_refs(d[1])[1].endswith("Ord::cmp"):
            tg = dict((v, x) for v, x in t["targets"])
            if 0 in tg and all(cfg.dominates(t["otherwise"], r) or t["otherwise"] == r for r in ret_cmp) and \
                    not any(cfg.dominates(tg[0], r) or tg[0] == r for r in ret_cmp):
                guarded = True
        if ne_side is not None and ret_cmp and all(cfg.dominates(ne_side, r) or ne_side == r for r in ret_cmp):
            guarded = True
    if not guarded:
        res["malformed"].append("the element comparison is returned without testing that it differs from Ordering::Equal")
    nxt = [bi for bi, t in body.calls() if (t.get("cn") or "").endswith("Iterator::next")]
    if ret_eq and nxt and not all(cfg.dominates(nxt[0], r) and not cfg.in_loop(r) for r in ret_eq):
        res["malformed"].append("Ordering::Equal is returned before the sequences are exhausted")
    first_param = pl[0] if sa[0] == "0" else pr[0]
    res["keys"].append((pl[1] + "[*]", "Asc" if first_param == 1 else "Desc"))
    return True


def analyse_closure_noargs(ctx, cb, upmap, depth):
    """closure || -> Ordering whose operands come from captured comparator parameters"""
    res = {"keys": [], "malformed": []}
    e = ctx.sym(cb).local(0)
    _analyse_expr(ctx, cb, e, {}, upmap, res, depth)
    return res
