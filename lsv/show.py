"""Debug helper: python3 -m lsv.show <body-suffix> [--all]  — print a body's MIR as dumped."""
import sys
from . import facts

def show(b, all_stmts=False, out=sys.stdout):
    print("==", b.id, b.kind, b.where(), "args=%d" % b.arg_count, file=out)
    for i, l in enumerate(b.locals):
        print("   _%d: %s%s" % (i, l["ty"], ("  // " + b.names[i]) if i in b.names else ""), file=out)
    if b.upvar_names:
        print("   upvars:", b.upvar_names, file=out)
    for bi, bl in enumerate(b.blocks):
        if bl["cleanup"] and not all_stmts:
            continue
        print(" bb%d%s:" % (bi, " (cleanup)" if bl["cleanup"] else ""), file=out)
        for st in bl["stmts"]:
            if st["k"] in ("live", "dead", "nop") and not all_stmts:
                continue
            if st["k"] in ("live", "dead"):
                print("     %s _%d" % (st["k"], st["l"]), file=out)
            else:
                print("     %s   // L%s" % (st.get("dbg"), (st.get("loc") or {}).get("line")), file=out)
        t = bl["term"]
        if t:
            print("     T: %s   // L%s" % (t["dbg"][:260], (t.get("loc") or {}).get("line")), file=out)
    for p in b.promoted:
        show(p, all_stmts, out)

if __name__ == "__main__":
    import os
    os.environ.setdefault("LSV_CACHE", "1")
    f = facts.extract_core()
    for a in sys.argv[1:]:
        if a.startswith("--"):
            continue
        bs = f.find(a) or [b for b in f.bodies.values() if a in b.id]
        for b in bs:
            show(b, "--all" in sys.argv)
