"""A10: transparent helpers.

The rule tables name the functions of the analysed repository (anchors).  A local function the tables do not know
(a helper extracted by a later refactoring, or added by a change) is made *transparent*: every direct call to it is
replaced by a copy of its MIR (locals and blocks renumbered, arguments assigned to the parameter locals, `return`
replaced by an assignment to the call's destination and a jump to its continuation).  The rules then see the same
flow of values they would see had the code been written in place, instead of an opaque call.  A helper all of whose
uses were direct calls is removed from the body table afterwards (its code is covered at every call site, in context);
one that is also public, exported, recursive or passed around as a value is kept as a body of its own as well.

The list of known functions (`known_fns.txt`) is only used to decide transparency; it never decides a verdict.
"""
import copy
import os

FN_TRAITS = ("std::ops::FnOnce::call_once", "std::ops::FnMut::call_mut", "std::ops::Fn::call")
KNOWN_FILE = os.path.join(os.path.dirname(os.path.abspath(__file__)), "known_fns.txt")
MAX_ROUNDS = 6
MAX_BLOCKS = 400         # do not inline huge bodies


def load_known():
    from . import align
    ref = align.load_reference()
    if ref is not None:
        return set(ref["fns"])
    if not os.path.exists(KNOWN_FILE):
        return None
    with open(KNOWN_FILE) as fh:
        return set(l.strip() for l in fh if l.strip() and not l.startswith("#"))


def _renumber(x, off_l, off_b):
    """in place: shift locals and block indices in a copied block list"""
    if isinstance(x, dict):
        if "l" in x and isinstance(x["l"], int) and ("p" in x or x.get("k") in ("live", "dead")):
            x["l"] = x["l"] + off_l
        if "idx" in x and isinstance(x["idx"], int) and len(x) == 1:
            x["idx"] = x["idx"] + off_l
        if isinstance(x.get("dbg"), str) and ("k" in x):
            x["dbg"] = "[inlined: locals +%d, blocks +%d] %s" % (off_l, off_b, x["dbg"])
        k = x.get("k")
        if k in ("call", "goto", "assert", "drop", "switch"):
            if isinstance(x.get("target"), int):
                x["target"] += off_b
            if isinstance(x.get("unwind"), int):
                x["unwind"] += off_b
            if k == "switch":
                x["targets"] = [[v, t + off_b] for v, t in x["targets"]]
                if isinstance(x.get("otherwise"), int):
                    x["otherwise"] += off_b
        for key, v in x.items():
            if key in ("targets",):
                continue
            _renumber(v, off_l, off_b)
    elif isinstance(x, list):
        for v in x:
            _renumber(v, off_l, off_b)


def _value_uses(raw, ids):
    """ids of functions that occur as a value (fn item operand) other than as the callee of a call"""
    found = set()

    def walk(x, is_func):
        if isinstance(x, dict):
            c = x.get("const")
            if isinstance(c, dict) and c.get("fn") in ids and not is_func:
                found.add(c["fn"])
            for k, v in x.items():
                walk(v, k == "func")
        elif isinstance(x, list):
            for v in x:
                walk(v, False)
    for bl in raw["blocks"]:
        walk(bl, False)
    return found


def splice(caller, bi, callee, closure_call=False):
    """inline the call terminating block `bi` of raw body `caller` with raw body `callee`.  With closure_call the
    terminator is `Fn*::call*(env, (args..))` and `callee` the closure's body (parameters arrive as one tuple)."""
    t = caller["blocks"][bi]["term"]
    off_l = len(caller["locals"])
    off_b = len(caller["blocks"])
    caller["locals"].extend(copy.deepcopy(callee["locals"]))
    blocks = copy.deepcopy(callee["blocks"])
    _renumber(blocks, off_l, off_b)
    # promoted constants of the callee move with its code
    if callee.get("promoted"):
        caller.setdefault("promoted", [])
        pmap = {}
        nxt = max([p_["index"] for p_ in caller["promoted"]] + [-1]) + 1
        for p_ in callee["promoted"]:
            q = copy.deepcopy(p_)
            pmap[p_["index"]] = nxt
            q["index"] = nxt
            nxt += 1
            caller["promoted"].append(q)

        def fix(x):
            if isinstance(x, dict):
                if x.get("def") == callee["id"] and isinstance(x.get("promoted"), int) and x["promoted"] in pmap:
                    x["promoted"] = pmap[x["promoted"]]
                    x["def"] = caller["id"]
                for v in x.values():
                    fix(v)
            elif isinstance(x, list):
                for v in x:
                    fix(v)
        fix(blocks)
    loc = t.get("loc")
    # arguments
    if closure_call:
        env, tup = t["args"][0], (t["args"][1] if len(t["args"]) > 1 else None)
        env_ty = callee["locals"][1]["ty"]
        envp = env.get("move") or env.get("copy")
        by_ref_body = env_ty.startswith("&")
        by_ref_arg = (envp or {}).get("ty", "").startswith("&")
        if by_ref_body and not by_ref_arg:
            rv = {"k": "ref", "mut": env_ty.startswith("&mut"), "place": copy.deepcopy(envp)}
        else:
            rv = {"k": "use", "op": copy.deepcopy(env)}
        caller["blocks"][bi]["stmts"].append({"k": "assign", "place": {"l": off_l + 1, "p": [], "ty": env_ty}, "rv": rv,
                                              "loc": loc, "dbg": "inlined closure environment of %s" % callee["id"]})
        tp = (tup or {}).get("move") or (tup or {}).get("copy")
        for k in range(callee["arg_count"] - 1):
            ty = callee["locals"][2 + k]["ty"]
            caller["blocks"][bi]["stmts"].append({
                "k": "assign", "place": {"l": off_l + 2 + k, "p": [], "ty": ty},
                "rv": {"k": "use", "op": {"move": {"l": tp["l"], "p": list(tp["p"]) + [{"f": k, "name": str(k), "owner": None,
                                                                                          "owner_did": None, "ty": ty}], "ty": ty}}},
                "loc": loc, "dbg": "inlined closure argument %d of %s" % (k, callee["id"])})
    else:
        for k, a in enumerate(t["args"]):
            if 1 + k >= len(callee["locals"]):
                break
            caller["blocks"][bi]["stmts"].append({
                "k": "assign", "place": {"l": off_l + 1 + k, "p": [], "ty": callee["locals"][1 + k]["ty"]},
                "rv": {"k": "use", "op": copy.deepcopy(a)}, "loc": loc, "dbg": "inlined argument %d of %s" % (k, callee["id"])})
    call_callables = t.get("callables", [])
    for bl in blocks:
        bt = bl["term"]
        if bt is None:
            continue
        bl["inlined_from"] = callee["id"]
        if bt["k"] == "return":
            bl["stmts"].append({
                "k": "assign", "place": copy.deepcopy(t["dest"]),
                "rv": {"k": "use", "op": {"move": {"l": off_l, "p": [], "ty": callee["locals"][0]["ty"]}}},
                "loc": bt.get("loc") or loc, "dbg": "inlined return of %s" % callee["id"]})
            if t.get("target") is None:
                bl["term"] = {"k": "unreachable", "loc": loc, "dbg": "inlined diverging"}
            else:
                bl["term"] = {"k": "goto", "target": t["target"], "loc": bt.get("loc") or loc, "dbg": "inlined return"}
        elif bt["k"] == "call" and bt.get("callee") in FN_TRAITS and not bt.get("resolved") and call_callables:
            have = [tuple(c) for c in bt.get("callables", [])]
            bt["callables"] = [list(c) for c in have] + [list(c) for c in call_callables if tuple(c) not in have]
    caller["blocks"].extend(blocks)
    caller["blocks"][bi]["term"] = {"k": "goto", "target": off_b, "loc": loc, "dbg": "inlined call of %s" % callee["id"],
                                    "inlined_call": callee["id"]}
    # debug names of the helper's variables
    for d in callee.get("debug", []):
        d2 = copy.deepcopy(d)
        v = d2.get("value")
        if isinstance(v, dict) and isinstance(v.get("l"), int):
            v["l"] += off_l
            for e in v.get("p", []):
                if isinstance(e, dict) and "idx" in e:
                    e["idx"] += off_l
            caller["debug"].append(d2)


def _resolve_closure_calls(raw):
    """after inlining, `make()` on a parameter that received a closure literal is a call of that closure"""
    defs = {}
    for bl in raw["blocks"]:
        for st in bl["stmts"]:
            if st["k"] == "assign" and not st["place"]["p"]:
                defs.setdefault(st["place"]["l"], []).append(st["rv"])
        t = bl["term"]
        if t is not None and t["k"] == "call" and not t["dest"]["p"]:
            defs.setdefault(t["dest"]["l"], []).append(None)

    def trace(op, depth=0):
        if depth > 8 or not isinstance(op, dict):
            return None
        pl = op.get("move") or op.get("copy")
        if pl is None or any(e != "deref" for e in pl["p"]):
            return None
        ds = defs.get(pl["l"], [])
        if len(ds) != 1 or ds[0] is None:
            return None
        rv = ds[0]
        if rv["k"] == "agg" and rv.get("akind") == "closure":
            return rv.get("did")
        if rv["k"] == "use":
            return trace(rv["op"], depth + 1)
        if rv["k"] == "ref" and not [e for e in rv["place"]["p"] if e != "deref"]:
            return trace({"copy": rv["place"]}, depth + 1)
        return None
    for bl in raw["blocks"]:
        t = bl["term"]
        if t is not None and t["k"] == "call" and t.get("callee") in FN_TRAITS and not t.get("resolved") and t["args"]:
            c = trace(t["args"][0])
            if c:
                t["resolved"] = c
                t["resolved_local"] = True
                t["resolved_kind"] = "closure"


def _mentions_local(x, l):
    if isinstance(x, dict):
        if x.get("l") == l and ("p" in x or x.get("k") in ("live", "dead")):
            return True
        if x.get("idx") == l and len(x) == 1:
            return True
        return any(_mentions_local(v, l) for k, v in x.items() if k != "dbg")
    if isinstance(x, list):
        return any(_mentions_local(v, l) for v in x)
    return False


def _succs(t):
    if t is None:
        return []
    out = []
    for k in ("target", "unwind", "otherwise"):
        if isinstance(t.get(k), int):
            out.append(t[k])
    if t["k"] == "switch":
        out.extend(b for _, b in t["targets"])
    return out


def thread_jumps(raw):
    """jump threading: a block that assigns a constant to `x` and jumps to a block that does nothing but switch on `x`
    jumps to the switch's target for that constant instead (`let ok = a && b; if !ok { .. }` then has the same control
    flow as `if !a || !b { .. }`).  Returns the number of edges threaded."""
    blocks = raw["blocks"]
    n = 0
    for _ in range(8):
        progress = False
        for pi, P in enumerate(blocks):
            t = P["term"]
            if t is None or t["k"] != "goto" or P.get("cleanup"):
                continue
            J = blocks[t["target"]]
            jt = J["term"]
            if jt is None or jt["k"] != "switch" or t["target"] == pi:
                continue
            d = jt["discr"].get("copy") or jt["discr"].get("move")
            if d is None or d["p"]:
                continue
            x = d["l"]
            ok = True
            for st in J["stmts"]:
                if st["k"] in ("live", "dead"):
                    continue
                if st["k"] == "assign" and not st["place"]["p"] and st["place"]["l"] == x and st["rv"]["k"] == "use":
                    src = st["rv"]["op"].get("copy") or st["rv"]["op"].get("move")
                    if src is not None and not src["p"]:
                        x = src["l"]
                        continue
                ok = False
                break
            if not ok:
                continue
            # last whole assignment to x in P must be a constant
            val = None
            for st in P["stmts"]:
                if st["k"] == "assign" and st["place"]["l"] == x:
                    val = None
                    if not st["place"]["p"] and st["rv"]["k"] == "use" and "const" in st["rv"]["op"]:
                        c = st["rv"]["op"]["const"]
                        v = c.get("val", c.get("value", c.get("bits")))
                        if isinstance(v, bool):
                            v = int(v)
                        if v is None:
                            s_ = str(c.get("dbg", ""))
                            if "const true" in s_ or s_.strip() == "true":
                                v = 1
                            elif "const false" in s_ or s_.strip() == "false":
                                v = 0
                        val = (v, st) if isinstance(v, int) else None
            if val is None:
                continue
            v, st_def = val
            tgt = None
            for tv, tb in jt["targets"]:
                if tv == v:
                    tgt = tb
            if tgt is None:
                tgt = jt.get("otherwise")
            if not isinstance(tgt, int):
                continue
            P["term"] = dict(t)
            P["term"]["target"] = tgt
            P["term"]["dbg"] = "goto -> bb%d (threaded through bb%d)" % (tgt, t["target"])
            P["term"]["threaded"] = t["target"]
            # the constant definition is dead if nothing reachable from here reads x
            seen, stack, live = set(), [tgt], False
            while stack and not live:
                b = stack.pop()
                if b in seen:
                    continue
                seen.add(b)
                B = blocks[b]
                if any(_mentions_local(s, x) for s in B["stmts"] if s["k"] not in ("live", "dead")) or \
                        (B["term"] is not None and _mentions_local({k: w for k, w in B["term"].items() if k != "dbg"}, x)):
                    live = True
                stack.extend(_succs(B["term"]))
            if not live:
                P["stmts"] = [s for s in P["stmts"] if s is not st_def]
            n += 1
            progress = True
        if not progress:
            break
    return n


def desugar_for_each(raws):
    """`iter.for_each(closure)` with a closure literal is rewritten as the loop it stands for:

        it = iter; f = closure
        loop { match Iterator::next(&mut it) { Some(x) => f(x), None => break } }

    so that (after the closure call is expanded in place) a `for` loop and the `for_each` spelling of it are one shape."""
    n = 0
    for bid, b in raws.items():
        if b["kind"] not in ("fn", "method", "closure"):
            continue
        closures_here = {}
        for bl in b["blocks"]:
            for st in bl["stmts"]:
                if st["k"] == "assign" and st["rv"]["k"] == "agg" and st["rv"].get("akind") == "closure" and not st["place"]["p"]:
                    closures_here[st["place"]["l"]] = st["rv"].get("did")
        if not closures_here:
            continue
        for bi in range(len(b["blocks"])):
            bl = b["blocks"][bi]
            t = bl["term"]
            if t is None or t["k"] != "call" or bl.get("cleanup") or t.get("callee") != "std::iter::Iterator::for_each":
                continue
            if len(t["args"]) != 2 or t.get("target") is None:
                continue
            itp = t["args"][0].get("move") or t["args"][0].get("copy")
            clp = t["args"][1].get("move") or t["args"][1].get("copy")
            if itp is None or clp is None or clp["p"] or clp["l"] not in closures_here:
                continue
            cid = closures_here[clp["l"]]
            cb = raws.get(cid)
            if cb is None or cb["arg_count"] != 2:
                continue
            loc = t.get("loc")
            it_ty = itp.get("ty", "?")
            item_ty = cb["locals"][2]["ty"]
            L = len(b["locals"])
            l_it, l_ref, l_opt, l_d, l_x, l_env, l_tup, l_unit = range(L, L + 8)
            cl_ty = clp.get("ty", "?")
            b["locals"].extend([
                {"ty": it_ty, "mut": True}, {"ty": "&mut " + it_ty, "mut": False},
                {"ty": "std::option::Option<%s>" % item_ty, "mut": True}, {"ty": "isize", "mut": False},
                {"ty": item_ty, "mut": False}, {"ty": "&mut " + cl_ty, "mut": False},
                {"ty": "(%s,)" % item_ty, "mut": False}, {"ty": "()", "mut": False}])
            B = len(b["blocks"])
            bH, bS, bB, bC = B, B + 1, B + 2, B + 3

            def place(l, ty, p=None):
                return {"l": l, "p": p or [], "ty": ty}
            # entry: move the iterator into a fresh local
            bl["stmts"].append({"k": "assign", "place": place(l_it, it_ty), "rv": {"k": "use", "op": copy.deepcopy(t["args"][0])},
                                "loc": loc, "dbg": "for_each: iterator"})
            self_ty = (t.get("callee_args") or [it_ty])[0]
            resolved = None
            for ob in raws.values():
                if ob["kind"] == "method" and ob.get("impl_trait") == "std::iter::Iterator" and ob["id"].endswith("::next") and \
                        (ob.get("impl_self") or "").split("<")[0] == self_ty.split("<")[0]:
                    resolved = ob["id"]
            next_term = {"k": "call", "func": {"const": {"ty": "fn", "fn": "std::iter::Iterator::next", "fn_args": [self_ty]}},
                         "callee": "std::iter::Iterator::next", "callee_crate": "core", "callee_local": False,
                         "callee_args": [self_ty], "callee_full": "<%s as std::iter::Iterator>::next" % self_ty, "unsafe": False,
                         "trait": "std::iter::Iterator", "resolved": resolved, "resolved_local": bool(resolved),
                         "resolved_kind": "Item" if resolved else None, "resolved_args": [],
                         "args": [{"move": place(l_ref, "&mut " + it_ty)}],
                         "callables": [c_ for c_ in copy.deepcopy(t.get("callables", [])) if c_ != ["closure", cid]],
                         "dest": place(l_opt, "std::option::Option<%s>" % item_ty), "target": bS, "unwind": t.get("unwind"),
                         "loc": loc, "fn_loc": loc, "dbg": "for_each: next()", "desugared_for_each": True}
            blkH = {"stmts": [{"k": "assign", "place": place(l_ref, "&mut " + it_ty),
                               "rv": {"k": "ref", "mut": True, "place": place(l_it, it_ty)}, "loc": loc, "dbg": "for_each: &mut it"}],
                    "term": next_term, "cleanup": False}
            blkS = {"stmts": [{"k": "assign", "place": place(l_d, "isize"), "rv": {"k": "discr", "place": place(l_opt, "std::option::Option<%s>" % item_ty)},
                               "loc": loc, "dbg": "for_each: discriminant"}],
                    "term": {"k": "switch", "discr": {"move": place(l_d, "isize")}, "discr_ty": "isize", "targets": [[0, t["target"]], [1, bB]],
                             "otherwise": bC, "loc": loc, "dbg": "for_each: match next()"}, "cleanup": False}
            some_proj = [{"down": 1, "vname": "Some"}, {"f": 0, "name": "0", "owner": "std::option::Option<%s>" % item_ty,
                                                       "owner_did": "std::option::Option", "ty": item_ty}]
            call_term = {"k": "call", "func": {"const": {"ty": "fn", "fn": "std::ops::FnMut::call_mut", "fn_args": [cl_ty]}},
                         "callee": "std::ops::FnMut::call_mut", "callee_crate": "core", "callee_local": False, "callee_args": [cl_ty],
                         "callee_full": "<%s as std::ops::FnMut>::call_mut" % cl_ty, "unsafe": False, "trait": "std::ops::FnMut",
                         "resolved": cid, "resolved_local": True, "resolved_kind": "closure", "resolved_args": [],
                         "args": [{"move": place(l_env, "&mut " + cl_ty)}, {"move": place(l_tup, "(%s,)" % item_ty)}],
                         "callables": [["closure", cid]], "dest": place(l_unit, "()"), "target": bH, "unwind": t.get("unwind"),
                         "loc": loc, "fn_loc": loc, "dbg": "for_each: closure(item)"}
            blkB = {"stmts": [
                {"k": "assign", "place": place(l_x, item_ty), "rv": {"k": "use", "op": {"move": place(l_opt, item_ty, some_proj)}},
                 "loc": loc, "dbg": "for_each: item"},
                {"k": "assign", "place": place(l_env, "&mut " + cl_ty), "rv": {"k": "ref", "mut": True, "place": place(clp["l"], cl_ty)},
                 "loc": loc, "dbg": "for_each: &mut closure"},
                {"k": "assign", "place": place(l_tup, "(%s,)" % item_ty),
                 "rv": {"k": "agg", "akind": "tuple", "ops": [{"move": place(l_x, item_ty)}]}, "loc": loc, "dbg": "for_each: (item,)"}],
                "term": call_term, "cleanup": False}
            blkC = {"stmts": [], "term": {"k": "unreachable", "loc": loc, "dbg": "unreachable"}, "cleanup": False}
            b["blocks"].extend([blkH, blkS, blkB, blkC])
            bl["term"] = {"k": "goto", "target": bH, "loc": loc, "dbg": "for_each desugared", "desugared_for_each": True}
            n += 1
            DESUGARED.append(cid)
    return n


DESUGARED = []


def _covered_closures(raws, ids):
    """closure literals that existed only to be handed to for_each and whose call has been expanded in place: their code
    is analysed in the context of the loop, the stand-alone body is dropped"""
    out = set()
    for cid in set(ids):
        created = 0
        called = False
        for b in raws.values():
            for bl in b["blocks"]:
                for st in bl["stmts"]:
                    if st["k"] == "assign" and st["rv"]["k"] == "agg" and st["rv"].get("akind") == "closure" and st["rv"].get("did") == cid:
                        created += 1
                t = bl["term"]
                if t is not None and t["k"] == "call" and (t.get("resolved") == cid or ["closure", cid] in (t.get("callables") or [])):
                    called = True
        if created == 1 and not called:
            out.add(cid)
    return out


def _inline_closure_calls(raws):
    """`let f = |..| ..; f(x)`: a closure literal called directly in the body that creates it is expanded in place"""
    n = 0
    for _ in range(3):
        progress = False
        for bid, b in raws.items():
            if b["kind"] not in ("fn", "method", "closure"):
                continue
            created = set()
            for bl in b["blocks"]:
                for st in bl["stmts"]:
                    if st["k"] == "assign" and st["rv"]["k"] == "agg" and st["rv"].get("akind") == "closure":
                        created.add(st["rv"].get("did"))
            if not created:
                continue
            for bi in range(len(b["blocks"])):
                bl = b["blocks"][bi]
                t = bl["term"]
                if t is None or t["k"] != "call" or bl.get("cleanup") or t.get("callee") not in FN_TRAITS:
                    continue
                r = t.get("resolved")
                if r not in created or r not in raws or r == bid or len(raws[r]["blocks"]) > MAX_BLOCKS:
                    continue
                a0 = t["args"][0] if t["args"] else None
                a1 = t["args"][1] if len(t["args"]) > 1 else None
                if not a0 or not (a0.get("move") or a0.get("copy")):
                    continue
                if raws[r]["arg_count"] > 1 and not (a1 and (a1.get("move") or a1.get("copy"))):
                    continue
                splice(b, bi, raws[r], closure_call=True)
                n += 1
                progress = True
        if not progress:
            break
    return n


def apply(data, known=None):
    """data: the raw fact dict of one crate.  Returns (data, report)"""
    known = load_known() if known is None else known
    report = {"transparent_helpers": [], "kept_as_bodies": [], "call_sites_inlined": 0}
    if known is None:
        return data, report
    raws = {b["id"]: b for b in data["bodies"]}
    cand = {}
    for bid, b in raws.items():
        if b["kind"] not in ("fn", "method"):
            continue
        if bid in known or b.get("impl_trait"):
            continue
        if len(b["blocks"]) > MAX_BLOCKS:
            continue
        cand[bid] = b
    if not cand:
        del DESUGARED[:]
        report["for_each_desugared"] = desugar_for_each(raws)
        report["closure_calls_inlined"] = _inline_closure_calls(raws)
        gone = _covered_closures(raws, DESUGARED)
        data["bodies"] = [b for b in data["bodies"] if b["id"] not in gone]
        report["jumps_threaded"] = sum(thread_jumps(b) for b in data["bodies"] if b["kind"] in ("fn", "method", "closure"))
        return data, report

    def target_of(t):
        r = t.get("resolved") or t.get("callee")
        if r in cand and (t.get("resolved_local") or t.get("callee_local")) and not t.get("trait"):
            return r
        return None

    # recursion: drop candidates on a cycle among candidates
    calls = {c: set() for c in cand}
    for c, b in cand.items():
        for bl in b["blocks"]:
            t = bl["term"]
            if t is not None and t["k"] == "call":
                r = target_of(t)
                if r:
                    calls[c].add(r)

    def reaches(a, b_, seen):
        if a in seen:
            return False
        seen.add(a)
        return any(x == b_ or reaches(x, b_, seen) for x in calls.get(a, ()))
    for c in list(cand):
        if reaches(c, c, set()):
            del cand[c]
    inlined_into = {}
    for _ in range(MAX_ROUNDS):
        progress = False
        for bid, b in raws.items():
            n = len(b["blocks"])
            for bi in range(n):
                t = b["blocks"][bi]["term"]
                if t is None or t["k"] != "call" or b["blocks"][bi].get("cleanup"):
                    continue
                r = target_of(t)
                if r and r != bid:
                    splice(b, bi, cand[r])
                    inlined_into.setdefault(r, set()).add(bid)
                    report["call_sites_inlined"] += 1
                    progress = True
        if not progress:
            break
    for bid in set(x for v in inlined_into.values() for x in v):
        _resolve_closure_calls(raws[bid])
    del DESUGARED[:]
    report["for_each_desugared"] = desugar_for_each(raws)
    report["closure_calls_inlined"] = _inline_closure_calls(raws)
    used_as_value = set()
    for b in raws.values():
        used_as_value |= _value_uses(b, set(cand))
    remove = set()
    for c, b in cand.items():
        still_called = False
        for ob in raws.values():
            for bl in ob["blocks"]:
                t = bl["term"]
                if t is not None and t["k"] == "call" and target_of(t) == c:
                    still_called = True
        keep = b.get("exported") or c in used_as_value or still_called or c not in inlined_into
        (report["kept_as_bodies"] if keep else report["transparent_helpers"]).append(c)
        if not keep:
            remove.add(c)
    remove |= _covered_closures(raws, DESUGARED)
    data["bodies"] = [b for b in data["bodies"] if b["id"] not in remove]
    report["jumps_threaded"] = sum(thread_jumps(b) for b in data["bodies"] if b["kind"] in ("fn", "method", "closure"))
    report["transparent_helpers"].sort()
    report["kept_as_bodies"].sort()
    return data, report
