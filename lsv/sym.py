"""A5: symbolic provenance of MIR operands.

Expressions are nested tuples:
  ('const', ty, value)            evaluated literal (int / float / str / char / bool)
  ('nconst', def_path, value)     named constant (value may be None when not scalar)
  ('fn', path)                    function item
  ('promoted', body_id)           promoted constant not further resolved
  ('arg', i)                      i-th parameter local (_i)
  ('upvar', idx, name)            closure capture
  ('local', l)                    multiply-assigned / unresolvable local
  ('call', callee, (args...), bb) result of a call (bb = call site block)
  ('field', base, name)           field projection (name: str)
  ('deref', base) ('ref', base)   '&*x' and '*&x' are collapsed
  ('index', base, idx) ('cidx', base, n, from_end) ('down', base, variant)
  ('binop', op, a, b) ('unop', op, a) ('cast', kind, a)
  ('agg', kind, name, (ops...), fields)   aggregate
  ('discr', base)
"""

DEREF_CALLEES = (
    "std::ops::Deref::deref", "std::ops::DerefMut::deref_mut",
    "core::ops::Deref::deref", "core::ops::DerefMut::deref_mut",
    "std::vec::Vec::as_slice", "std::vec::Vec::as_mut_slice",
)
# calls that return (a reference to) their receiver, or a by-value copy of it
IDENTITY_CALLEES = (
    "std::convert::AsRef::as_ref", "std::convert::AsMut::as_mut",
    "std::borrow::Borrow::borrow", "std::borrow::BorrowMut::borrow_mut",
    "std::convert::Into::into", "std::convert::From::from",
    "std::iter::IntoIterator::into_iter",
)


def is_place(o):
    return "copy" in o or "move" in o


def op_place(o):
    return o.get("copy") or o.get("move")


class Sym:
    def __init__(self, body, facts=None):
        self.body = body
        self.facts = facts or body.facts
        self.defs = body.defs()
        self._cache = {}
        self._visiting = set()
        # field-wise overwrites of a local that also has a whole definition (`let mut t = f(); t.words = ..`): the value
        # of the local is then NOT the value of its definition; it becomes ('upd', base, ((name, f, value), ..))
        self.partial = {}
        for bi, si, st in body.iter_stmts():
            if st["k"] == "assign" and st["place"]["p"] and not body.blocks[bi]["cleanup"]:
                p0 = st["place"]["p"][0]
                l = st["place"]["l"]
                if isinstance(p0, dict) and "f" in p0 and not (1 <= l <= body.arg_count):
                    self.partial.setdefault(l, []).append((p0, st, len(st["place"]["p"]) == 1))

    def _with_updates(self, l, e):
        ups = self.partial.get(l)
        if not ups or l in self._visiting:
            return e
        self._visiting.add(l)
        try:
            out = []
            for p0, st, direct in ups:
                v = self.rvalue(st["rv"]) if direct else ("unknown", "nested field overwrite")
                out.append((str(p0.get("name")), p0["f"], v))
        finally:
            self._visiting.discard(l)
        return ("upd", e, tuple(out), l)

    # ------------------------------------------------------------------
    def const(self, c):
        if "fn" in c:
            return ("fn", c["fn"])
        val = None
        if "val" in c:
            val = c["val"]
            if c["ty"] == "bool":
                val = bool(val)
            if "ch" in c:
                val = c["ch"]
        elif "fstr" in c:
            try:
                val = float(c["fstr"])
            except ValueError:
                val = c["fstr"]
        elif "str" in c:
            val = c["str"]
        if "promoted" in c:
            pid = "%s::{promoted#%d}" % (self._root_body().id, c["promoted"])
            pb = self.facts.all_bodies.get(pid)
            if pb is not None:
                return Sym(pb, self.facts).local(0)
            return ("promoted", pid)
        if "def" in c:
            return ("nconst", c["def"], val)
        if val is None and c.get("dbg", "").startswith("const "):
            pass
        return ("const", c["ty"], val)

    def _root_body(self):
        b = self.body
        return b.owner if b.owner is not None else b

    def operand(self, o):
        if "const" in o:
            return self.const(o["const"])
        p = op_place(o)
        if p is None:
            return ("unknown", str(o)[:40])
        return self.place(p)

    def place(self, p):
        e = self.local(p["l"])
        for pr in p["p"]:
            e = self.project(e, pr)
        return e

    def dest(self, p):
        """a place that is being written: field-wise overwrites of the root local are not substituted into it"""
        e = self.local(p["l"])
        if e[0] == "upd":
            e = e[1]
        for pr in p["p"]:
            e = self.project(e, pr)
        return e

    def project(self, e, pr):
        if pr == "deref":
            return deref(e)
        if isinstance(pr, dict):
            if "f" in pr:
                if e[0] == "upd":
                    hits = [u[2] for u in e[2] if u[1] == pr["f"]]
                    base = self.project(e[1], pr)
                    if not hits:
                        return base
                    alts = []
                    for a in hits + [base]:
                        if a not in alts:
                            alts.append(a)
                    return ("phi", -(e[3] * 64 + pr["f"] + 1), tuple(alts))
                if e[0] == "binop" and e[1].endswith("WithOverflow"):
                    if pr["f"] == 0:
                        return ("binop", e[1][:-len("WithOverflow")], e[2], e[3])
                    return ("overflow_flag", e)
                if e[0] == "agg" and pr["f"] < len(e[3]):
                    return e[3][pr["f"]]
                if e[0] == "arg" and e[1] == 1 and self.body.kind == "closure" and pr.get("owner_did"):
                    return ("upvar", pr["f"], pr["name"])
                if e[0] == "deref" and e[1] == ("arg", 1) and self.body.kind == "closure":
                    return ("upvar", pr["f"], pr["name"])
                return ("field", e, pr["name"], pr.get("owner_did"))
            if "idx" in pr:
                return ("index", e, self.local(pr["idx"]))
            if "cidx" in pr:
                return ("cidx", e, pr["cidx"], pr["from_end"])
            if "down" in pr:
                return ("down", e, pr.get("vname") or pr["down"])
            if "sub" in pr:
                return ("subslice", e, pr["sub"], pr["to"], pr["from_end"])
        return ("proj", e, str(pr))

    def local(self, l):
        if l in self._cache:
            return self._cache[l]
        if l in self._visiting:
            return ("local", l)
        ds = self.defs.get(l, [])
        if l != 0 and 1 <= l <= self.body.arg_count:
            if not ds:
                e = ("arg", l)
                self._cache[l] = e
                return e
            return ("local", l)
        if len(ds) != 1:
            if 2 <= len(ds) <= 6:
                # join of several whole-local definitions (branches / loop-carried): ('phi', l, alts)
                self._visiting.add(l)
                try:
                    alts = []
                    for kind, bi, si, node in ds:
                        a = self.rvalue(node["rv"]) if kind == "assign" else self.call_expr(node, bi)
                        if a not in alts:
                            alts.append(a)
                finally:
                    self._visiting.discard(l)
                e = self._with_updates(l, ("phi", l, tuple(alts)))
            else:
                e = ("local", l)
            self._cache[l] = e
            return e
        self._visiting.add(l)
        try:
            kind, bi, si, node = ds[0]
            if kind == "assign":
                e = self.rvalue(node["rv"])
            else:
                e = self.call_expr(node, bi)
        finally:
            self._visiting.discard(l)
        e = self._with_updates(l, e)
        self._cache[l] = e
        return e

    def call_expr(self, t, bi):
        callee = t.get("cn") or t.get("callee")
        args = tuple(self.operand(a) for a in t["args"])
        if callee in DEREF_CALLEES and args:
            return ref(deref(deref(args[0])))
        if callee and len(args) == 2 and callee.endswith(("cmp::Ord::max", "cmp::Ord::min")):
            # `a.max(b)` / `Ord::max(a, b)` is what `std::cmp::max(a, b)` is defined as: one name for both spellings
            callee = "std::cmp::max" if callee.endswith("max") else "std::cmp::min"
        return ("call", callee or "?", args, bi)

    def rvalue(self, rv):
        k = rv["k"]
        if k == "use":
            return self.operand(rv["op"])
        if k == "ref" or k == "rawptr":
            return ref(self.place(rv["place"]))
        if k == "cast":
            inner = self.operand(rv["op"])
            kind = rv["kind"]
            if kind.startswith("PointerCoercion(Unsize") or kind in ("Subtype", "PtrToPtr"):
                return inner          # &[T;N] -> &[T] etc.: same value
            return ("cast", kind, inner, rv["ty"])
        if k == "binop":
            return ("binop", rv["op"], self.operand(rv["a"]), self.operand(rv["b"]))
        if k == "unop":
            if rv["op"] == "PtrMetadata":
                # length of a slice as read by slice patterns: the same value as `<[T]>::len`
                return ("call", "core::slice::<impl [T]>::len", (self.operand(rv["a"]),), -1)
            return ("unop", rv["op"], self.operand(rv["a"]))
        if k == "discr":
            return ("discr", self.place(rv["place"]))
        if k == "agg":
            ops = tuple(self.operand(o) for o in rv["ops"])
            name = rv.get("did") or ""
            if rv.get("akind") == "adt":
                name = "%s::%s" % (rv["did"], rv["variant"])
            return ("agg", rv["akind"], name, ops, tuple(rv.get("fields") or ()))
        if k == "repeat":
            return ("repeat", self.operand(rv["op"]), rv.get("n"))
        return ("unknown", rv.get("dbg", "")[:60])


def deref(e):
    if e[0] == "ref":
        return e[1]
    return ("deref", e)


def ref(e):
    if e[0] == "deref":
        return e[1]
    return ("ref", e)


def strip_sites(e):
    """drop call-site block numbers and local numbers so two expressions can be compared"""
    if not isinstance(e, tuple) or not e:
        return e
    if e[0] == "call":
        return ("call", e[1], tuple(strip_sites(a) for a in e[2]))
    if e[0] == "phi":
        return ("phi", tuple(strip_sites(a) for a in (e[2] if len(e) > 2 else e[1])))
    if e[0] == "local":
        return e
    return tuple(strip_sites(x) for x in e)


def strip_refs(e):
    """remove ref/deref layers everywhere (value identity modulo borrowing)"""
    if not isinstance(e, tuple) or not e:
        return e
    if e[0] in ("ref", "deref") and len(e) == 2:
        return strip_refs(e[1])
    return tuple(strip_refs(x) for x in e)


def norm(e):
    return strip_refs(strip_sites(e))


def walk(e):
    """yield every sub-expression (pre-order)"""
    yield e
    if isinstance(e, tuple):
        for x in e[1:]:
            if isinstance(x, tuple):
                if x and isinstance(x[0], str):
                    yield from walk(x)
                else:
                    for y in x:
                        if isinstance(y, tuple):
                            yield from walk(y)


def mentions(e, pred):
    return any(pred(x) for x in walk(e))


def const_value(e):
    """numeric / literal value of a constant expression, else None"""
    if e[0] == "const":
        return e[2]
    if e[0] == "nconst":
        return e[2]
    return None


def show(e, body=None, depth=0):
    """compact human-readable rendering"""
    if not isinstance(e, tuple):
        return str(e)
    k = e[0]
    if k == "const":
        return repr(e[2]) if e[2] is not None else "const<%s>" % e[1]
    if k == "nconst":
        return "%s(=%r)" % (e[1].split("::")[-1], e[2]) if e[2] is not None else e[1].split("::")[-1]
    if k == "fn":
        return e[1]
    if k == "arg":
        return (body.name_of(e[1]) if body else "arg%d" % e[1])
    if k == "upvar":
        return "^" + str(e[2])
    if k == "local":
        return (body.name_of(e[1]) if body else "_%d" % e[1])
    if k == "phi":
        return "phi[%s](%s)" % (body.name_of(e[1]) if body else "_%d" % e[1], " | ".join(show(a, body) for a in e[2]))
    if k == "call":
        return "%s(%s)" % (short_callee(e[1]), ", ".join(show(a, body) for a in e[2]))
    if k == "field":
        return "%s.%s" % (show(e[1], body), e[2])
    if k == "upvar":
        return "^" + str(e[2])
    if k == "deref":
        return "*" + show(e[1], body)
    if k == "ref":
        return "&" + show(e[1], body)
    if k == "index":
        return "%s[%s]" % (show(e[1], body), show(e[2], body))
    if k == "binop":
        return "(%s %s %s)" % (show(e[2], body), e[1], show(e[3], body))
    if k == "unop":
        return "%s(%s)" % (e[1], show(e[2], body))
    if k == "cast":
        return "(%s as %s)" % (show(e[2], body), e[3])
    if k == "agg":
        return "%s{%s}" % (e[2].split("::")[-1] or e[1], ", ".join(show(a, body) for a in e[3]))
    if k == "down":
        return "%s as %s" % (show(e[1], body), e[2])
    if k == "discr":
        return "discr(%s)" % show(e[1], body)
    return str(e)[:80]


def short_callee(c):
    if not c:
        return "?"
    parts = c.split("::")
    return "::".join(parts[-2:]) if len(parts) > 1 else c
