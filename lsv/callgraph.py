"""A1: whole-crate call graph over the dumped bodies (context-insensitive, may-call)."""
from . import facts as F

FN_TRAITS = ("std::ops::FnOnce::call_once", "std::ops::FnMut::call_mut", "std::ops::Fn::call")


class CallGraph:
    def __init__(self, facts):
        self.facts = facts
        self.bodies = facts.bodies
        # methods of local trait impls, by ADT mentioned in the impl's self type
        self.trait_impl_methods = {}
        self.trait_methods = {}      # (trait, method name) -> [body ids]
        for b in facts.bodies.values():
            if b.impl_trait and b.kind == "method":
                name = b.id.rsplit("::", 1)[-1]
                self.trait_methods.setdefault((b.impl_trait, name), []).append(b.id)
                for adt in facts.adts:
                    if b.impl_self and _mentions_path(b.impl_self, adt):
                        self.trait_impl_methods.setdefault(adt, []).append(b.id)
        # default methods of local traits
        for b in facts.bodies.values():
            if b.kind == "method" and not b.impl_self and b.parent:
                name = b.id.rsplit("::", 1)[-1]
                self.trait_methods.setdefault((b.parent, name), []).append(b.id)
        self._reach_cache = {}
        self.root_of = {}
        for b in facts.bodies.values():
            self.root_of[b.id] = self._root(b)
        # call sites per (canonical) callee root
        self.sites_of = {}
        for b in facts.fns():
            for bi, t in b.calls(include_cleanup=True):
                for tgt in self._direct_targets(t):
                    self.sites_of.setdefault(tgt, []).append((b.id, bi))
        self.edges = {}
        self.unresolved = []
        for b in facts.fns():
            es = {}
            for bi, t in b.calls(include_cleanup=True):
                for tgt, why in self.targets(b, t):
                    es.setdefault(tgt, []).append((bi, why))
            # drops may run Drop impls of local types: none implement Drop in this crate; checked below
            self.edges[b.id] = es
        self.callers = {}
        for src, es in self.edges.items():
            for tgt in es:
                self.callers.setdefault(tgt, set()).add(src)

    def _root(self, b):
        cur = b
        while cur is not None and cur.kind == "closure":
            cur = self.bodies.get(cur.parent)
        return cur.id if cur is not None else b.id

    def _direct_targets(self, t):
        out = []
        r = t.get("resolved")
        if r and t.get("resolved_local") and r in self.bodies:
            return [r]
        c = t.get("callee")
        if c and t.get("callee_local"):
            if c in self.bodies and not t.get("trait"):
                return [c]
            if t.get("trait"):
                name = c.rsplit("::", 1)[-1]
                out = list(self.trait_methods.get((t["trait"], name), []))
                return out
            # generic inherent method printed with placeholder args: match by canonical name
            cn = F.canon(c)
            out = [b.id for b in self.bodies.values() if b.cn == cn]
        return out

    def targets(self, body, t):
        """may-call targets of one call terminator: [(body id, reason)]"""
        out = []
        direct = self._direct_targets(t)
        for d in direct:
            out.append((d, "direct"))
        if t.get("callee_local") and not direct:
            self.unresolved.append((body.id, t.get("callee")))
        # anything callable that is handed over (or stored inside a handed-over value)
        for kind, path in t.get("callables", []):
            if kind == "closure" and path in self.bodies:
                out.append((path, "closure-arg"))
            elif kind == "fn" and path in self.bodies:
                if path not in direct:
                    out.append((path, "fn-arg"))
            elif kind == "adt":
                if not t.get("callee_local") or t.get("trait"):
                    for m in self.trait_impl_methods.get(path, []):
                        out.append((m, "trait-impl-of-arg"))
        # thread-local access runs the key's lazy initialiser
        if (t.get("cn") or "").endswith("LocalKey::with"):
            from .sym import Sym, strip_refs
            try:
                k = strip_refs(Sym(body, self.facts).operand(t["args"][0]))
            except Exception:
                k = None
            if k and k[0] == "nconst":
                pre = k[1] + "::"
                for bid in self.bodies:
                    if bid.startswith(pre):
                        out.append((bid, "tls-init"))
        # indirect call through a generic Fn* parameter of the enclosing root function
        if t.get("callee") in FN_TRAITS and not t.get("resolved"):
            root = self.root_of.get(body.id, body.id)
            for (src, bi) in self.sites_of.get(root, []):
                sb = self.bodies[src]
                st = sb.blocks[bi]["term"]
                for kind, path in st.get("callables", []):
                    if kind in ("closure", "fn") and path in self.bodies:
                        out.append((path, "fn-param-of:" + root))
        seen = set()
        res = []
        for x in out:
            if x[0] not in seen:
                seen.add(x[0])
                res.append(x)
        return res

    # ------------------------------------------------------------------
    def reachable(self, roots):
        """bodies reachable from roots.  Edges through a generic Fn* parameter of a root function G
        ('fn-param-of:G') are followed only to callables passed to G from bodies already reached
        (call-site sensitivity for the `using_store(id, |store| ..)` idiom)."""
        key = tuple(sorted(roots))
        if key in self._reach_cache:
            return self._reach_cache[key]
        seen = set()
        changed = True
        roots = list(roots)
        while changed:
            changed = False
            st = list(roots) + list(seen)
            visited = set()
            while st:
                x = st.pop()
                if x in visited or x not in self.bodies:
                    continue
                visited.add(x)
                if x not in seen:
                    seen.add(x)
                    changed = True
                for y, whys in self.edges.get(x, {}).items():
                    ok = False
                    for (bi, why) in whys:
                        if why.startswith("fn-param-of:"):
                            g = why[len("fn-param-of:"):]
                            if y in self._passed_from(g, seen):
                                ok = True
                        else:
                            ok = True
                    if ok and y not in visited:
                        st.append(y)
        self._reach_cache[key] = seen
        return seen

    def _passed_from(self, g, within):
        out = set()
        for (src, bi) in self.sites_of.get(g, []):
            if src in within:
                t = self.bodies[src].blocks[bi]["term"]
                for kind, path in t.get("callables", []):
                    if kind in ("closure", "fn"):
                        out.add(path)
        return out

    def path(self, src, dst_pred):
        """shortest call path from src to a body satisfying dst_pred: [ids] or None"""
        from collections import deque
        prev = {src: None}
        dq = deque([src])
        while dq:
            x = dq.popleft()
            if dst_pred(x) and x != src:
                p = []
                while x is not None:
                    p.append(x)
                    x = prev[x]
                return p[::-1]
            for y in self.edges.get(x, {}):
                if y not in prev:
                    prev[y] = x
                    dq.append(y)
        return None

    def api_roots(self):
        return sorted(b.id for b in self.facts.bodies.values()
                      if b.kind in ("fn", "method") and b.exported)


def _mentions_path(tystr, path):
    i = tystr.find(path)
    while i >= 0:
        j = i + len(path)
        ok_l = i == 0 or not (tystr[i - 1].isalnum() or tystr[i - 1] in "_:")
        ok_r = j >= len(tystr) or not (tystr[j].isalnum() or tystr[j] in "_")
        if ok_l and ok_r:
            return True
        i = tystr.find(path, i + 1)
    return False
