"""A6: language tables and their consumers, bound by data-flow (not by name)."""
from . import sym as S
from . import util as U


def const_table(ctx, def_path):
    """entries of a `const X: &[(A, B)]` as a list of tuples of python values (str / char / variant name)"""
    b = ctx.facts.bodies.get(def_path)
    if b is None:
        return None
    e = S.strip_refs(ctx.sym(b).local(0))
    if not (isinstance(e, tuple) and e and e[0] == "agg" and e[1] == "array"):
        return None
    out = []
    for item in e[3]:
        item = S.strip_refs(item)
        if item[0] == "agg" and item[1] == "tuple":
            row = []
            for x in item[3]:
                x = S.strip_refs(x)
                if U.is_const(x):
                    row.append(S.const_value(x))
                elif U.agg_variant(x):
                    row.append(("variant", U.agg_variant(x)))
                else:
                    row.append(None)
            out.append(tuple(row))
        elif U.is_const(item):
            out.append((S.const_value(item),))
        else:
            out.append(None)
    return out


class LangCtor:
    def __init__(self, body):
        self.body = body
        self.feeds = []        # (bi, method, table def or None, [tuple field index per argument])
        self.stemmer = None


def constructors(ctx):
    """language constructor functions: exported fns returning Lang that call Lang::new"""
    facts = ctx.facts
    out = []
    for b in facts.fns():
        if b.kind != "fn" or not b.local_ty(0).endswith("lang::lang::Lang"):
            continue
        if not U.calls_named(b, "Lang::new"):
            continue
        lc = LangCtor(b)
        sy = ctx.sym(b)
        for bi, t in b.calls():
            cn = t.get("cn") or ""
            if cn.startswith("lang::lang::Lang::add_") or cn.endswith("Lang::set_stemmer"):
                args = [sy.operand(a) for a in t["args"][1:]]
                tables = []            # in order of appearance: `A.iter().chain(B)` feeds A's rows, then B's
                idx = []
                for a in args:
                    for x in S.walk(a):
                        if isinstance(x, tuple) and x and x[0] == "nconst" and x[1] in facts.bodies and x[1] not in tables:
                            tables.append(x[1])
                    # which tuple field of the table row feeds this parameter
                    fi = None
                    cur = S.strip_refs(a)
                    while isinstance(cur, tuple) and cur and cur[0] == "field":
                        if str(cur[2]) in ("0", "1", "2", "3") and S.strip_refs(cur[1])[0] in ("field", "down"):
                            inner = S.strip_refs(cur[1])
                            # ((next as Some).0).k
                            fi = int(cur[2])
                            break
                        cur = S.strip_refs(cur[1])
                    idx.append(fi)
                # several tables are accepted only when they are joined by `chain` (and nothing else combines them)
                tb = tables[0] if len(tables) == 1 else None
                if len(tables) > 1:
                    names = set(x[1].rsplit("::", 1)[-1] for a in args for x in S.walk(a) if isinstance(x, tuple) and x and x[0] == "call")
                    if "chain" in names and not (names - {"chain", "iter", "into_iter", "next", "copied", "cloned", "by_ref"}):
                        tb = list(tables)
                lc.feeds.append((bi, cn.rsplit("::", 1)[-1], tb, idx, t))
        out.append(lc)
    return out
