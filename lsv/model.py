"""Crate-level structural model: thread-local keys, closure creation sites, upvar resolution."""
from . import sym as S
from . import util as U


class Model:
    def __init__(self, ctx):
        self.ctx = ctx
        facts = ctx.facts
        self.creation = {}          # closure id -> (parent body, bi, si, stmt)
        for b in facts.fns():
            for bi, si, st in b.iter_stmts():
                if st["k"] == "assign" and st["rv"]["k"] == "agg" and st["rv"].get("akind") == "closure":
                    self.creation.setdefault(st["rv"]["did"], (b, bi, si, st))
        self.tls_keys = {}          # KEY def path -> payload type name
        self.tls_closure = {}       # closure id -> KEY
        self.tls_sites = []         # (body, bi, term, KEY, closure id)
        for b in facts.fns():
            sy = ctx.sym(b)
            for bi, t in b.calls():
                if not U.callee_is(t, "LocalKey::with"):
                    continue
                k = S.strip_refs(sy.operand(t["args"][0]))
                key = k[1] if k[0] == "nconst" else None
                if key is None:
                    continue
                payload = (t.get("callee_args") or [None])[0]
                self.tls_keys[key] = payload
                cb = U.closure_body(ctx, sy.operand(t["args"][1]))
                if cb is not None:
                    self.tls_closure[cb.id] = key
                self.tls_sites.append((b, bi, t, key, cb.id if cb else None))

    def registries(self):
        """thread-local keys whose payload is RefCell<HashMap<usize, _>> (the id-keyed registries), identified by type"""
        return sorted(k for k, p in self.tls_keys.items()
                      if p and p.startswith("std::cell::RefCell<std::collections::HashMap<usize, "))

    def upvar_expr(self, closure_body, idx):
        """provenance (in the creating body) of the idx-th capture of a closure: (parent body, expr)"""
        c = self.creation.get(closure_body.id)
        if c is None:
            return None, None
        pb, bi, si, st = c
        ops = st["rv"]["ops"]
        if idx >= len(ops):
            return None, None
        return pb, self.ctx.sym(pb).operand(ops[idx])

    def resolve_root(self, body, root, depth=0):
        """follow closure captures / tls closure parameters to a long-lived root:
        ('tls', KEY) | (body, expr) for the outermost provenance"""
        if depth > 6 or not isinstance(root, tuple) or not root:
            return body, root
        if root[0] == "upvar":
            pb, e = self.upvar_expr(body, root[1])
            if pb is None:
                return body, root
            from .effects import field_chain
            ch, r2 = field_chain(e)
            if ch:
                return pb, e
            return self.resolve_root(pb, r2, depth + 1)
        if root[0] == "arg" and body.kind == "closure" and root[1] == 2 and body.id in self.tls_closure:
            return None, ("tls", self.tls_closure[body.id])
        return body, root


def _registry_fns(self):
    """root fns G(id, f) that look up a thread-local registry under `id` and call f on the entry: {G.id: KEY}"""
    if getattr(self, "_reg", None) is not None:
        return self._reg
    ctx = self.ctx
    reg = {}
    for (b, bi, t, key, cid) in self.tls_sites:
        if b.kind == "closure" or cid is None:
            continue
        cb = ctx.facts.bodies.get(cid)
        if cb is None:
            continue
        calls_param = any((t2.get("callee") or "") in ("std::ops::FnOnce::call_once", "std::ops::FnMut::call_mut",
                                                        "std::ops::Fn::call") and not t2.get("resolved")
                          for _, t2 in cb.calls())
        if calls_param:
            reg[b.id] = key
    self._reg = reg
    return reg


def _origin(self, body, e, depth=0):
    """cross-body provenance of an expression:
       ('param', root fn id, index)   parameter of a root function
       ('reg', KEY, id origin)        entry of a thread-local registry handed to a closure by using_store-like fns
       ('const', value) | ('expr', body id, expr)"""
    from . import sym as S_
    e = S_.strip_refs(e)
    if depth > 8 or not isinstance(e, tuple) or not e:
        return ("expr", body.id, e)
    if e[0] in ("const", "nconst"):
        return ("const", S_.const_value(e))
    if e[0] == "upvar":
        pb, pe = self.upvar_expr(body, e[1])
        if pb is None:
            return ("expr", body.id, e)
        return self.origin(pb, pe, depth + 1)
    if e[0] == "arg":
        if body.kind != "closure":
            return ("param", body.id, e[1])
        # closure parameter: who calls this closure?
        c = self.creation.get(body.id)
        if c is None:
            return ("expr", body.id, e)
        pb, bi, si, st = c
        psy = self.ctx.sym(pb)
        for cbi, t in pb.calls():
            args = [psy.operand(a) for a in t["args"]]
            for ai, a in enumerate(args):
                a2 = S_.strip_refs(a)
                if isinstance(a2, tuple) and a2 and a2[0] == "agg" and a2[1] == "closure" and a2[2] == body.id:
                    tgt = t.get("resolved") or t.get("callee")
                    reg = self.registry_fns()
                    if tgt in reg and e[1] == 2:
                        return ("reg", reg[tgt], self.origin(pb, args[0], depth + 1))
                    if tgt and self.ctx.facts.canon_is(tgt, "std::thread::LocalKey::with") and e[1] == 2:
                        k = S_.strip_refs(args[0])
                        return ("tls", k[1] if k[0] == "nconst" else None)
        return ("expr", body.id, e)
    if e[0] == "field":
        o = self.origin(body, e[1], depth + 1)
        return ("field", o, e[2])
    return ("expr", body.id, e)


Model.registry_fns = _registry_fns
Model.origin = _origin
