"""Crate-level structural model: thread-local keys, closure creation sites, upvar resolution."""
from . import sym as S
from . import util as U


class Model:
    def __init__(self, ctx):
        self.ctx = ctx
        facts = ctx.facts
        self.creation = {}          # closure id -> (parent body, bi, si, stmt)
        for b in facts.fns():
            for bi, si, st in b.iter_stmts():
                if st["k"] == "assign" and st["rv"]["k"] == "agg" and st["rv"].get("akind") == "closure":
                    self.creation.setdefault(st["rv"]["did"], (b, bi, si, st))
        self.tls_keys = {}          # KEY def path -> payload type name
        self.tls_closure = {}       # closure id -> KEY
        self.tls_sites = []         # (body, bi, term, KEY, closure id)
        for b in facts.fns():
            sy = ctx.sym(b)
            for bi, t in b.calls():
                if not U.callee_is(t, "LocalKey::with"):
                    continue
                k = S.strip_refs(sy.operand(t["args"][0]))
                key = k[1] if k[0] == "nconst" else None
                if key is None:
                    continue
                payload = (t.get("callee_args") or [None])[0]
                self.tls_keys[key] = payload
                cb = U.closure_body(ctx, sy.operand(t["args"][1]))
                if cb is not None:
                    self.tls_closure[cb.id] = key
                self.tls_sites.append((b, bi, t, key, cb.id if cb else None))

    def upvar_expr(self, closure_body, idx):
        """provenance (in the creating body) of the idx-th capture of a closure: (parent body, expr)"""
        c = self.creation.get(closure_body.id)
        if c is None:
            return None, None
        pb, bi, si, st = c
        ops = st["rv"]["ops"]
        if idx >= len(ops):
            return None, None
        return pb, self.ctx.sym(pb).operand(ops[idx])

    def resolve_root(self, body, root, depth=0):
        """follow closure captures / tls closure parameters to a long-lived root:
        ('tls', KEY) | (body, expr) for the outermost provenance"""
        if depth > 6 or not isinstance(root, tuple) or not root:
            return body, root
        if root[0] == "upvar":
            pb, e = self.upvar_expr(body, root[1])
            if pb is None:
                return body, root
            from .effects import field_chain
            ch, r2 = field_chain(e)
            if ch:
                return pb, e
            return self.resolve_root(pb, r2, depth + 1)
        if root[0] == "arg" and body.kind == "closure" and root[1] == 2 and body.id in self.tls_closure:
            return None, ("tls", self.tls_closure[body.id])
        return body, root
