// lsv-driver: rustc_private fact extractor for the /verif static checks.
//
// Used as RUSTC_WORKSPACE_WRAPPER: argv = [driver, <rustc>, <rustc args...>].
// For every workspace member crate whose name is listed in LSV_CRATES (comma
// separated, '-' already replaced by '_'), after analysis it writes
// $LSV_OUT/<crate>.json with MIR and type facts.  All other crates are compiled
// as usual.  One write per process.
#![feature(rustc_private)]
#![allow(clippy::all)]

extern crate rustc_abi;
extern crate rustc_driver;
extern crate rustc_hir;
extern crate rustc_interface;
extern crate rustc_middle;
extern crate rustc_span;
extern crate rustc_type_ir;

use std::collections::BTreeMap;
use std::fmt::Write as _;

use rustc_driver::Compilation;
use rustc_hir::def::DefKind;
use rustc_hir::def_id::{DefId, LocalDefId, LOCAL_CRATE};
use rustc_middle::mir::{self, *};
use rustc_middle::ty::print::with_no_trimmed_paths;
use rustc_middle::ty::{self, Instance, Ty, TyCtxt, TypingEnv};
use rustc_span::Span;

// ---------------------------------------------------------------- tiny JSON

#[derive(Clone)]
enum J {
    Null,
    Bool(bool),
    Int(i128),
    Str(String),
    Arr(Vec<J>),
    Obj(Vec<(String, J)>),
}

fn esc(s: &str, out: &mut String) {
    out.push('"');
    for c in s.chars() {
        match c {
            '"' => out.push_str("\\\""),
            '\\' => out.push_str("\\\\"),
            '\n' => out.push_str("\\n"),
            '\r' => out.push_str("\\r"),
            '\t' => out.push_str("\\t"),
            c if (c as u32) < 0x20 => {
                let _ = write!(out, "\\u{:04x}", c as u32);
            }
            c => out.push(c),
        }
    }
    out.push('"');
}

impl J {
    fn write(&self, out: &mut String) {
        match self {
            J::Null => out.push_str("null"),
            J::Bool(b) => out.push_str(if *b { "true" } else { "false" }),
            J::Int(i) => {
                let _ = write!(out, "{}", i);
            }
            J::Str(s) => esc(s, out),
            J::Arr(v) => {
                out.push('[');
                for (i, x) in v.iter().enumerate() {
                    if i > 0 {
                        out.push(',');
                    }
                    x.write(out);
                }
                out.push(']');
            }
            J::Obj(v) => {
                out.push('{');
                for (i, (k, x)) in v.iter().enumerate() {
                    if i > 0 {
                        out.push(',');
                    }
                    esc(k, out);
                    out.push(':');
                    x.write(out);
                }
                out.push('}');
            }
        }
    }
}

fn s<T: Into<String>>(x: T) -> J {
    J::Str(x.into())
}
fn obj(v: Vec<(&str, J)>) -> J {
    J::Obj(v.into_iter().map(|(k, x)| (k.to_string(), x)).collect())
}
fn optj<T>(o: Option<T>, f: impl FnOnce(T) -> J) -> J {
    match o {
        Some(x) => f(x),
        None => J::Null,
    }
}

// ---------------------------------------------------------------- context

struct Cx<'tcx> {
    tcx: TyCtxt<'tcx>,
    types: BTreeMap<String, J>,
}

impl<'tcx> Cx<'tcx> {
    fn path(&self, did: DefId) -> String {
        with_no_trimmed_paths!(self.tcx.def_path_str(did))
    }

    fn krate(&self, did: DefId) -> String {
        self.tcx.crate_name(did.krate).to_string()
    }

    fn loc(&self, span: Span) -> J {
        let sm = self.tcx.sess.source_map();
        let sp = span.source_callsite();
        let lo = sm.lookup_char_pos(sp.lo());
        let file = match &lo.file.name {
            rustc_span::FileName::Real(r) => match r.local_path() {
                Some(p) => p.display().to_string(),
                None => format!("{:?}", lo.file.name),
            },
            other => format!("{:?}", other),
        };
        let mut v = vec![("file", s(file)), ("line", J::Int(lo.line as i128))];
        if span.from_expansion() {
            let names: Vec<J> = span
                .macro_backtrace()
                .map(|e| s(e.kind.descr().to_string()))
                .collect();
            v.push(("exp", J::Arr(names)));
        }
        obj(v)
    }

    fn ty(&mut self, t: Ty<'tcx>) -> J {
        let name = with_no_trimmed_paths!(t.to_string());
        if !self.types.contains_key(&name) {
            self.types.insert(name.clone(), J::Null); // cycle guard
            let d = self.ty_desc(t);
            self.types.insert(name.clone(), d);
        }
        J::Str(name)
    }

    fn generic_args(&mut self, args: ty::GenericArgsRef<'tcx>) -> J {
        let mut v = vec![];
        for a in args.iter() {
            if let Some(t) = a.as_type() {
                v.push(self.ty(t));
            } else if let Some(c) = a.as_const() {
                v.push(s(format!("const:{:?}", c)));
            }
        }
        J::Arr(v)
    }

    fn ty_desc(&mut self, t: Ty<'tcx>) -> J {
        use rustc_type_ir::TyKind::*;
        match t.kind() {
            Bool => obj(vec![("k", s("bool"))]),
            Char => obj(vec![("k", s("char"))]),
            Int(i) => obj(vec![("k", s("int")), ("name", s(i.name_str()))]),
            Uint(u) => obj(vec![("k", s("uint")), ("name", s(u.name_str()))]),
            Float(f) => obj(vec![("k", s("float")), ("name", s(f.name_str()))]),
            Str => obj(vec![("k", s("str"))]),
            Never => obj(vec![("k", s("never"))]),
            Adt(def, args) => {
                let did = def.did();
                let a = self.generic_args(args);
                obj(vec![
                    ("k", s("adt")),
                    ("did", s(self.path(did))),
                    ("crate", s(self.krate(did))),
                    ("local", J::Bool(did.is_local())),
                    ("args", a),
                ])
            }
            Ref(_, inner, m) => {
                let i = self.ty(*inner);
                obj(vec![("k", s("ref")), ("mut", J::Bool(m.is_mut())), ("to", i)])
            }
            RawPtr(inner, m) => {
                let i = self.ty(*inner);
                obj(vec![("k", s("ptr")), ("mut", J::Bool(m.is_mut())), ("to", i)])
            }
            Slice(inner) => {
                let i = self.ty(*inner);
                obj(vec![("k", s("slice")), ("of", i)])
            }
            Array(inner, len) => {
                let i = self.ty(*inner);
                let n = len.try_to_target_usize(self.tcx);
                obj(vec![
                    ("k", s("array")),
                    ("of", i),
                    ("len", optj(n, |n| J::Int(n as i128))),
                ])
            }
            Tuple(ts) => {
                let v: Vec<J> = ts.iter().map(|x| self.ty(x)).collect();
                obj(vec![("k", s("tuple")), ("of", J::Arr(v))])
            }
            Closure(did, args) => {
                let sig = args.as_closure().sig();
                let sigs = with_no_trimmed_paths!(format!("{:?}", sig));
                let ups: Vec<J> = args
                    .as_closure()
                    .upvar_tys()
                    .iter()
                    .map(|x| self.ty(x))
                    .collect();
                obj(vec![
                    ("k", s("closure")),
                    ("did", s(self.path(*did))),
                    ("local", J::Bool(did.is_local())),
                    ("sig", s(sigs)),
                    ("upvars", J::Arr(ups)),
                ])
            }
            FnDef(did, args) => {
                let a = self.generic_args(args);
                obj(vec![
                    ("k", s("fndef")),
                    ("did", s(self.path(*did))),
                    ("crate", s(self.krate(*did))),
                    ("local", J::Bool(did.is_local())),
                    ("args", a),
                ])
            }
            FnPtr(..) => obj(vec![("k", s("fnptr"))]),
            Param(p) => obj(vec![("k", s("param")), ("name", s(p.name.to_string()))]),
            Dynamic(..) => obj(vec![("k", s("dyn"))]),
            Alias(..) => obj(vec![("k", s("alias"))]),
            _ => obj(vec![("k", s("other"))]),
        }
    }

    // collect closure / fn-item / local ADT types occurring in `t`
    fn callables(&self, t: Ty<'tcx>, out: &mut Vec<(String, String)>) {
        for ga in t.walk() {
            if let Some(t) = ga.as_type() {
                match t.kind() {
                    ty::TyKind::Closure(did, _) => {
                        out.push(("closure".into(), self.path(*did)))
                    }
                    ty::TyKind::FnDef(did, _) => out.push(("fn".into(), self.path(*did))),
                    ty::TyKind::Adt(def, _) if def.did().is_local() => {
                        out.push(("adt".into(), self.path(def.did())))
                    }
                    _ => {}
                }
            }
        }
    }
}

// ---------------------------------------------------------------- MIR dump

struct BodyCx<'a, 'tcx> {
    cx: &'a mut Cx<'tcx>,
    body: &'a Body<'tcx>,
    env: TypingEnv<'tcx>,
}

impl<'a, 'tcx> BodyCx<'a, 'tcx> {
    fn place(&mut self, p: &Place<'tcx>) -> J {
        let tcx = self.cx.tcx;
        let mut pty = mir::PlaceTy::from_ty(self.body.local_decls[p.local].ty);
        let mut projs = vec![];
        for elem in p.projection.iter() {
            let j = match elem {
                ProjectionElem::Deref => s("deref"),
                ProjectionElem::Field(f, fty) => {
                    let mut name = format!("{}", f.index());
                    let owner = with_no_trimmed_paths!(pty.ty.to_string());
                    let mut owner_did = J::Null;
                    match pty.ty.kind() {
                        ty::TyKind::Adt(adt, _) => {
                            owner_did = s(self.cx.path(adt.did()));
                            let vi = pty.variant_index.unwrap_or(rustc_abi::FIRST_VARIANT);
                            if !adt.is_union() {
                                if let Some(fd) = adt.variant(vi).fields.get(f) {
                                    name = fd.name.to_string();
                                }
                            }
                        }
                        ty::TyKind::Closure(did, _) => {
                            owner_did = s(self.cx.path(*did));
                            if let Some(ld) = did.as_local() {
                                let caps = tcx.closure_captures(ld);
                                if let Some(c) = caps.get(f.index()) {
                                    name = c.to_string(tcx);
                                }
                            }
                        }
                        _ => {}
                    }
                    let t = self.cx.ty(fty);
                    obj(vec![
                        ("f", J::Int(f.index() as i128)),
                        ("name", s(name)),
                        ("owner", s(owner)),
                        ("owner_did", owner_did),
                        ("ty", t),
                    ])
                }
                ProjectionElem::Index(l) => obj(vec![("idx", J::Int(l.index() as i128))]),
                ProjectionElem::ConstantIndex { offset, min_length, from_end } => obj(vec![
                    ("cidx", J::Int(offset as i128)),
                    ("min", J::Int(min_length as i128)),
                    ("from_end", J::Bool(from_end)),
                ]),
                ProjectionElem::Subslice { from, to, from_end } => obj(vec![
                    ("sub", J::Int(from as i128)),
                    ("to", J::Int(to as i128)),
                    ("from_end", J::Bool(from_end)),
                ]),
                ProjectionElem::Downcast(name, vi) => obj(vec![
                    ("down", J::Int(vi.index() as i128)),
                    ("vname", optj(name, |n| s(n.to_string()))),
                ]),
                other => s(format!("{:?}", other)),
            };
            projs.push(j);
            pty = pty.projection_ty(tcx, elem);
        }
        let t = self.cx.ty(pty.ty);
        obj(vec![
            ("l", J::Int(p.local.index() as i128)),
            ("p", J::Arr(projs)),
            ("ty", t),
        ])
    }

    fn konst(&mut self, c: &ConstOperand<'tcx>) -> J {
        let tcx = self.cx.tcx;
        let cty = c.const_.ty();
        let mut v: Vec<(&str, J)> = vec![("ty", self.cx.ty(cty))];
        if let mir::Const::Unevaluated(u, _) = c.const_ {
            v.push(("def", s(self.cx.path(u.def))));
            if let Some(p) = u.promoted {
                v.push(("promoted", J::Int(p.index() as i128)));
            }
            let a = self.cx.generic_args(u.args);
            v.push(("def_args", a));
        }
        // a reference to a `static` item: name the item, so that tables declared `static` are found like `const` ones
        if let mir::Const::Val(mir::ConstValue::Scalar(rustc_middle::mir::interpret::Scalar::Ptr(ptr, _)), _) = c.const_ {
            if let Some(rustc_middle::mir::interpret::GlobalAlloc::Static(did)) = tcx.try_get_global_alloc(ptr.provenance.alloc_id()) {
                if did.is_local() && !tcx.is_thread_local_static(did) {
                    v.push(("def", s(self.cx.path(did))));
                    v.push(("static", J::Bool(true)));
                }
            }
        }
        match cty.kind() {
            ty::TyKind::FnDef(did, args) => {
                v.push(("fn", s(self.cx.path(*did))));
                let a = self.cx.generic_args(args);
                v.push(("fn_args", a));
            }
            ty::TyKind::Bool
            | ty::TyKind::Char
            | ty::TyKind::Int(_)
            | ty::TyKind::Uint(_)
            | ty::TyKind::Float(_) => {
                if let Some(si) = c.const_.try_eval_scalar_int(tcx, self.env) {
                    let size = si.size();
                    let bits = si.to_bits(size);
                    let val: i128 = match cty.kind() {
                        ty::TyKind::Int(_) => size.sign_extend(bits) as i128,
                        _ => bits as i128,
                    };
                    match cty.kind() {
                        ty::TyKind::Float(_) => {
                            v.push(("fbits", J::Int(bits as i128)));
                            if size.bytes() == 8 {
                                v.push(("fstr", s(format!("{:?}", f64::from_bits(bits as u64)))));
                            } else if size.bytes() == 4 {
                                v.push(("fstr", s(format!("{:?}", f32::from_bits(bits as u32)))));
                            }
                        }
                        ty::TyKind::Char => {
                            v.push(("val", J::Int(val)));
                            if let Some(ch) = char::from_u32(bits as u32) {
                                v.push(("ch", s(ch.to_string())));
                            }
                        }
                        _ => v.push(("val", J::Int(val))),
                    }
                }
            }
            ty::TyKind::Ref(_, inner, _) if inner.is_str() => {
                if let mir::Const::Val(cv, _) = c.const_ {
                    if let Some(bytes) = cv.try_get_slice_bytes_for_diagnostics(tcx) {
                        v.push(("str", s(String::from_utf8_lossy(bytes).to_string())));
                    }
                } else if let Ok(cv) = c.const_.eval(tcx, self.env, c.span) {
                    if let Some(bytes) = cv.try_get_slice_bytes_for_diagnostics(tcx) {
                        v.push(("str", s(String::from_utf8_lossy(bytes).to_string())));
                    }
                }
            }
            _ => {}
        }
        v.push(("dbg", s(with_no_trimmed_paths!(format!("{:?}", c.const_)))));
        obj(v)
    }

    fn operand(&mut self, o: &Operand<'tcx>) -> J {
        match o {
            Operand::Copy(p) => obj(vec![("copy", self.place(p))]),
            Operand::Move(p) => obj(vec![("move", self.place(p))]),
            Operand::Constant(c) => obj(vec![("const", self.konst(c))]),
            #[allow(unreachable_patterns)]
            other => obj(vec![("other", s(format!("{:?}", other)))]),
        }
    }

    fn rvalue(&mut self, rv: &Rvalue<'tcx>) -> J {
        match rv {
            Rvalue::Use(o, _) => obj(vec![("k", s("use")), ("op", self.operand(o))]),
            Rvalue::Repeat(o, n) => obj(vec![
                ("k", s("repeat")),
                ("op", self.operand(o)),
                ("n", optj(n.try_to_target_usize(self.cx.tcx), |n| J::Int(n as i128))),
            ]),
            Rvalue::Ref(_, bk, p) => {
                let m = matches!(bk, BorrowKind::Mut { .. });
                obj(vec![("k", s("ref")), ("mut", J::Bool(m)), ("place", self.place(p))])
            }
            Rvalue::RawPtr(kind, p) => obj(vec![
                ("k", s("rawptr")),
                ("kind", s(format!("{:?}", kind))),
                ("place", self.place(p)),
            ]),
            Rvalue::Cast(kind, o, t) => {
                let kind_s = match kind {
                    CastKind::PointerCoercion(pc, _) => format!("PointerCoercion({:?})", pc),
                    other => format!("{:?}", other),
                };
                let from = o.ty(self.body, self.cx.tcx);
                obj(vec![
                    ("k", s("cast")),
                    ("kind", s(kind_s)),
                    ("op", self.operand(o)),
                    ("from", self.cx.ty(from)),
                    ("ty", self.cx.ty(*t)),
                ])
            }
            Rvalue::BinaryOp(op, ab) => {
                let (a, b) = &**ab;
                obj(vec![
                    ("k", s("binop")),
                    ("op", s(format!("{:?}", op))),
                    ("a", self.operand(a)),
                    ("b", self.operand(b)),
                ])
            }
            Rvalue::UnaryOp(op, a) => obj(vec![
                ("k", s("unop")),
                ("op", s(format!("{:?}", op))),
                ("a", self.operand(a)),
            ]),
            Rvalue::Discriminant(p) => obj(vec![("k", s("discr")), ("place", self.place(p))]),
            Rvalue::CopyForDeref(p) => obj(vec![
                ("k", s("use")),
                ("op", obj(vec![("copy", self.place(p))])),
            ]),
            Rvalue::Aggregate(kind, ops) => {
                let tcx = self.cx.tcx;
                let mut v: Vec<(&str, J)> = vec![("k", s("agg"))];
                match &**kind {
                    AggregateKind::Array(t) => {
                        v.push(("akind", s("array")));
                        v.push(("elem", self.cx.ty(*t)));
                    }
                    AggregateKind::Tuple => v.push(("akind", s("tuple"))),
                    AggregateKind::Adt(did, vi, _args, _, _) => {
                        v.push(("akind", s("adt")));
                        v.push(("did", s(self.cx.path(*did))));
                        let adt = tcx.adt_def(*did);
                        let var = adt.variant(*vi);
                        v.push(("variant", s(var.name.to_string())));
                        v.push(("variant_idx", J::Int(vi.index() as i128)));
                        let names: Vec<J> =
                            var.fields.iter().map(|f| s(f.name.to_string())).collect();
                        v.push(("fields", J::Arr(names)));
                    }
                    AggregateKind::Closure(did, _) => {
                        v.push(("akind", s("closure")));
                        v.push(("did", s(self.cx.path(*did))));
                        if let Some(ld) = did.as_local() {
                            let names: Vec<J> = tcx
                                .closure_captures(ld)
                                .iter()
                                .map(|c| s(c.to_string(tcx)))
                                .collect();
                            v.push(("fields", J::Arr(names)));
                        }
                    }
                    other => v.push(("akind", s(format!("{:?}", other)))),
                }
                let o: Vec<J> = ops.iter().map(|o| self.operand(o)).collect();
                v.push(("ops", J::Arr(o)));
                obj(v)
            }
            other => obj(vec![("k", s("other")), ("dbg", s(format!("{:?}", other)))]),
        }
    }

    fn statement(&mut self, st: &Statement<'tcx>) -> J {
        let loc = self.cx.loc(st.source_info.span);
        let dbg = with_no_trimmed_paths!(format!("{:?}", st));
        match &st.kind {
            StatementKind::Assign(b) => {
                let (p, rv) = &**b;
                obj(vec![
                    ("k", s("assign")),
                    ("place", self.place(p)),
                    ("rv", self.rvalue(rv)),
                    ("loc", loc),
                    ("dbg", s(dbg)),
                ])
            }
            StatementKind::SetDiscriminant { place, variant_index } => obj(vec![
                ("k", s("setdiscr")),
                ("place", self.place(place)),
                ("variant", J::Int(variant_index.index() as i128)),
                ("loc", loc),
                ("dbg", s(dbg)),
            ]),
            StatementKind::StorageLive(l) => {
                obj(vec![("k", s("live")), ("l", J::Int(l.index() as i128))])
            }
            StatementKind::StorageDead(l) => {
                obj(vec![("k", s("dead")), ("l", J::Int(l.index() as i128))])
            }
            StatementKind::Nop => obj(vec![("k", s("nop"))]),
            _ => obj(vec![("k", s("other")), ("loc", loc), ("dbg", s(dbg))]),
        }
    }

    fn terminator(&mut self, t: &Terminator<'tcx>) -> J {
        let tcx = self.cx.tcx;
        let loc = self.cx.loc(t.source_info.span);
        let dbg = with_no_trimmed_paths!(format!("{:?}", t.kind));
        let bb = |b: BasicBlock| J::Int(b.index() as i128);
        let unwind_target = |u: &UnwindAction| match u {
            UnwindAction::Cleanup(b) => J::Int(b.index() as i128),
            _ => J::Null,
        };
        let mut v: Vec<(&str, J)> = match &t.kind {
            TerminatorKind::Goto { target } => vec![("k", s("goto")), ("target", bb(*target))],
            TerminatorKind::SwitchInt { discr, targets } => {
                let mut ts = vec![];
                for (val, tgt) in targets.iter() {
                    ts.push(J::Arr(vec![J::Int(val as i128), bb(tgt)]));
                }
                let dty = discr.ty(self.body, tcx);
                vec![
                    ("k", s("switch")),
                    ("discr", self.operand(discr)),
                    ("discr_ty", self.cx.ty(dty)),
                    ("targets", J::Arr(ts)),
                    ("otherwise", bb(targets.otherwise())),
                ]
            }
            TerminatorKind::Return => vec![("k", s("return"))],
            TerminatorKind::Unreachable => vec![("k", s("unreachable"))],
            TerminatorKind::UnwindResume => vec![("k", s("resume"))],
            TerminatorKind::UnwindTerminate(_) => vec![("k", s("terminate"))],
            TerminatorKind::Drop { place, target, unwind, .. } => vec![
                ("k", s("drop")),
                ("place", self.place(place)),
                ("target", bb(*target)),
                ("unwind", unwind_target(unwind)),
            ],
            TerminatorKind::Assert { cond, expected, msg, target, unwind } => {
                let mk = match &**msg {
                    AssertKind::BoundsCheck { len, index } => obj(vec![
                        ("kind", s("BoundsCheck")),
                        ("len", self.operand(len)),
                        ("index", self.operand(index)),
                    ]),
                    AssertKind::Overflow(op, a, b) => obj(vec![
                        ("kind", s("Overflow")),
                        ("op", s(format!("{:?}", op))),
                        ("a", self.operand(a)),
                        ("b", self.operand(b)),
                    ]),
                    AssertKind::OverflowNeg(a) => {
                        obj(vec![("kind", s("OverflowNeg")), ("a", self.operand(a))])
                    }
                    AssertKind::DivisionByZero(a) => {
                        obj(vec![("kind", s("DivisionByZero")), ("a", self.operand(a))])
                    }
                    AssertKind::RemainderByZero(a) => {
                        obj(vec![("kind", s("RemainderByZero")), ("a", self.operand(a))])
                    }
                    other => obj(vec![("kind", s(format!("{:?}", other)))]),
                };
                vec![
                    ("k", s("assert")),
                    ("cond", self.operand(cond)),
                    ("expected", J::Bool(*expected)),
                    ("msg", mk),
                    ("target", bb(*target)),
                    ("unwind", unwind_target(unwind)),
                ]
            }
            TerminatorKind::Call { func, args, destination, target, unwind, fn_span, .. } => {
                let mut v: Vec<(&str, J)> = vec![("k", s("call"))];
                let fty = func.ty(self.body, tcx);
                v.push(("func", self.operand(func)));
                let mut callables: Vec<(String, String)> = vec![];
                if let ty::TyKind::FnDef(did, gargs) = fty.kind() {
                    v.push(("callee", s(self.cx.path(*did))));
                    v.push(("callee_crate", s(self.cx.krate(*did))));
                    v.push(("callee_local", J::Bool(did.is_local())));
                    let ga = self.cx.generic_args(gargs);
                    v.push(("callee_args", ga));
                    v.push((
                        "callee_full",
                        s(with_no_trimmed_paths!(tcx.def_path_str_with_args(*did, gargs))),
                    ));
                    let sig = tcx.fn_sig(*did).skip_binder();
                    v.push(("unsafe", J::Bool(sig.safety().is_unsafe())));
                    if let Some(parent) = tcx.opt_parent(*did) {
                        match tcx.def_kind(parent) {
                            DefKind::Trait => {
                                v.push(("trait", s(self.cx.path(parent))));
                            }
                            DefKind::Impl { .. } => {
                                let self_ty = tcx.type_of(parent).skip_binder();
                                v.push((
                                    "impl_self",
                                    s(with_no_trimmed_paths!(self_ty.to_string())),
                                ));
                            }
                            _ => {}
                        }
                    }
                    for ga in gargs.iter() {
                        if let Some(t) = ga.as_type() {
                            self.cx.callables(t, &mut callables);
                        }
                    }
                    // resolution (best effort; generic bodies may not resolve)
                    {
                        if let Ok(Some(inst)) =
                            Instance::try_resolve(tcx, self.env, *did, gargs)
                        {
                            let rdid = inst.def_id();
                            v.push(("resolved", s(self.cx.path(rdid))));
                            v.push(("resolved_local", J::Bool(rdid.is_local())));
                            v.push(("resolved_kind", s(format!("{:?}", inst.def).split('(').next().unwrap_or("").to_string())));
                            let ra = self.cx.generic_args(inst.args);
                            v.push(("resolved_args", ra));
                        }
                    }
                } else {
                    v.push(("callee", J::Null));
                    self.cx.callables(fty, &mut callables);
                }
                let mut a = vec![];
                for arg in args.iter() {
                    let aty = arg.node.ty(self.body, tcx);
                    self.cx.callables(aty, &mut callables);
                    a.push(self.operand(&arg.node));
                }
                callables.sort();
                callables.dedup();
                v.push(("args", J::Arr(a)));
                v.push((
                    "callables",
                    J::Arr(
                        callables
                            .into_iter()
                            .map(|(k, p)| J::Arr(vec![s(k), s(p)]))
                            .collect(),
                    ),
                ));
                v.push(("dest", self.place(destination)));
                v.push(("target", optj(*target, bb)));
                v.push(("unwind", unwind_target(unwind)));
                v.push(("fn_loc", self.cx.loc(*fn_span)));
                v
            }
            _ => vec![("k", s("other"))],
        };
        v.push(("loc", loc));
        v.push(("dbg", s(dbg)));
        obj(v)
    }

    fn dump(&mut self) -> Vec<(&'static str, J)> {
        let body = self.body;
        let mut locals = vec![];
        for (_l, d) in body.local_decls.iter_enumerated() {
            locals.push(obj(vec![
                ("ty", self.cx.ty(d.ty)),
                ("mut", J::Bool(d.mutability.is_mut())),
            ]));
        }
        let mut dbg = vec![];
        for vdi in body.var_debug_info.iter() {
            let val = match &vdi.value {
                VarDebugInfoContents::Place(p) => self.place(p),
                VarDebugInfoContents::Const(c) => obj(vec![("const", self.konst(c))]),
            };
            dbg.push(obj(vec![("name", s(vdi.name.to_string())), ("value", val)]));
        }
        let mut blocks = vec![];
        for (_bb, data) in body.basic_blocks.iter_enumerated() {
            let stmts: Vec<J> = data.statements.iter().map(|st| self.statement(st)).collect();
            let term = optj(data.terminator.as_ref(), |t| self.terminator(t));
            blocks.push(obj(vec![
                ("stmts", J::Arr(stmts)),
                ("term", term),
                ("cleanup", J::Bool(data.is_cleanup)),
            ]));
        }
        vec![
            ("arg_count", J::Int(body.arg_count as i128)),
            ("locals", J::Arr(locals)),
            ("debug", J::Arr(dbg)),
            ("blocks", J::Arr(blocks)),
        ]
    }
}

fn dump_crate<'tcx>(tcx: TyCtxt<'tcx>) -> J {
    let mut cx = Cx { tcx, types: BTreeMap::new() };
    let mut bodies = vec![];
    let ev = tcx.effective_visibilities(());

    let keys: Vec<LocalDefId> = tcx.mir_keys(()).iter().copied().collect();
    for ld in keys {
        let did = ld.to_def_id();
        let kind = tcx.def_kind(did);
        let (kname, is_fn) = match kind {
            DefKind::Fn => ("fn", true),
            DefKind::AssocFn => ("method", true),
            DefKind::Closure => ("closure", true),
            DefKind::Const { .. } => ("const", false),
            DefKind::AssocConst { .. } => ("assoc_const", false),
            DefKind::Static { .. } => ("static", false),
            DefKind::Ctor(..) => continue,
            DefKind::AnonConst | DefKind::InlineConst => ("anon_const", false),
            _ => continue,
        };
        if tcx.is_coroutine(did) {
            continue;
        }
        let body: &Body<'tcx> = if is_fn {
            tcx.optimized_mir(did)
        } else {
            tcx.mir_for_ctfe(did)
        };
        let env = TypingEnv::post_analysis(tcx, did);
        let path = cx.path(did);
        let mut v: Vec<(&str, J)> = vec![
            ("id", s(path.clone())),
            ("kind", s(kname)),
            ("loc", cx.loc(tcx.def_span(did))),
        ];
        if let Some(parent) = tcx.opt_parent(did) {
            v.push(("parent", s(cx.path(parent))));
            if let DefKind::Impl { .. } = tcx.def_kind(parent) {
                let self_ty = tcx.type_of(parent).skip_binder();
                v.push(("impl_self", s(with_no_trimmed_paths!(self_ty.to_string()))));
                if let Some(tr) = tcx.impl_opt_trait_ref(parent) {
                    v.push(("impl_trait", s(cx.path(tr.skip_binder().def_id))));
                }
            }
        }
        if matches!(kind, DefKind::Fn | DefKind::AssocFn) {
            v.push(("vis_public", J::Bool(tcx.visibility(did).is_public())));
            v.push(("exported", J::Bool(ev.is_exported(ld))));
            v.push(("reachable", J::Bool(ev.is_reachable(ld))));
            let sig = tcx.fn_sig(did).skip_binder();
            v.push(("unsafe", J::Bool(sig.safety().is_unsafe())));
            v.push(("sig", s(with_no_trimmed_paths!(format!("{:?}", sig)))));
        }
        {
            let mut bcx = BodyCx { cx: &mut cx, body, env };
            v.extend(bcx.dump());
        }
        // promoted bodies
        let mut proms = vec![];
        if is_fn || true {
            let promoted = tcx.promoted_mir(did);
            for (pi, pb) in promoted.iter_enumerated() {
                let mut bcx = BodyCx { cx: &mut cx, body: pb, env };
                let mut pv: Vec<(&str, J)> = vec![("index", J::Int(pi.index() as i128))];
                pv.extend(bcx.dump());
                proms.push(obj(pv));
            }
        }
        v.push(("promoted", J::Arr(proms)));
        bodies.push(obj(v));
    }

    // ADT table
    let mut adts = vec![];
    for ld in tcx.hir_crate_items(()).definitions() {
        let did = ld.to_def_id();
        match tcx.def_kind(did) {
            DefKind::Struct | DefKind::Enum => {}
            _ => continue,
        }
        let adt = tcx.adt_def(did);
        let mut variants = vec![];
        let discrs: Vec<(rustc_abi::VariantIdx, u128)> = if adt.is_enum() {
            adt.discriminants(tcx).map(|(vi, d)| (vi, d.val)).collect()
        } else {
            vec![]
        };
        for (vi, var) in adt.variants().iter_enumerated() {
            let mut fields = vec![];
            for f in var.fields.iter() {
                let fty = tcx.type_of(f.did).skip_binder();
                fields.push(obj(vec![
                    ("name", s(f.name.to_string())),
                    ("ty", cx.ty(fty)),
                    ("public", J::Bool(f.vis.is_public())),
                ]));
            }
            let d = discrs.iter().find(|(v, _)| *v == vi).map(|(_, d)| *d);
            variants.push(obj(vec![
                ("name", s(var.name.to_string())),
                ("idx", J::Int(vi.index() as i128)),
                ("discr", optj(d, |d| J::Int(d as i128))),
                ("fields", J::Arr(fields)),
            ]));
        }
        adts.push(obj(vec![
            ("id", s(cx.path(did))),
            ("kind", s(if adt.is_enum() { "enum" } else { "struct" })),
            ("loc", cx.loc(tcx.def_span(did))),
            ("exported", J::Bool(ev.is_exported(ld))),
            ("variants", J::Arr(variants)),
        ]));
    }

    let types: Vec<(String, J)> = cx.types.iter().map(|(k, v)| (k.clone(), v.clone())).collect();
    obj(vec![
        ("crate", s(tcx.crate_name(LOCAL_CRATE).to_string())),
        ("bodies", J::Arr(bodies)),
        ("adts", J::Arr(adts)),
        ("types", J::Obj(types)),
    ])
}

// ---------------------------------------------------------------- driver

struct Cb;

impl rustc_driver::Callbacks for Cb {
    fn after_analysis<'tcx>(
        &mut self,
        _compiler: &rustc_interface::interface::Compiler,
        tcx: TyCtxt<'tcx>,
    ) -> Compilation {
        let name = tcx.crate_name(LOCAL_CRATE).to_string();
        let wanted = std::env::var("LSV_CRATES").unwrap_or_default();
        if wanted.split(',').any(|w| w == name) {
            let out_dir = std::env::var("LSV_OUT").expect("LSV_OUT not set");
            let j = dump_crate(tcx);
            let mut text = String::new();
            j.write(&mut text);
            let suffix = std::env::var("LSV_SUFFIX").unwrap_or_default();
            let path = format!("{}/{}{}.json", out_dir, name, suffix);
            std::fs::write(&path, text).expect("cannot write fact file");
        }
        Compilation::Continue
    }
}

fn main() {
    let mut args: Vec<String> = std::env::args().collect();
    // RUSTC_WORKSPACE_WRAPPER passes the real rustc as argv[1]
    if args.len() > 1 && (args[1].ends_with("rustc") || args[1].contains("/rustc")) {
        args.remove(1);
    }
    let mut cb = Cb;
    rustc_driver::run_compiler(&args, &mut cb);
}
