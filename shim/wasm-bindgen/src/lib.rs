//! No-op stand-in for `wasm_bindgen` (see wasm-bindgen-macro).
pub mod prelude {
    pub use wasm_bindgen_macro::wasm_bindgen;
}
