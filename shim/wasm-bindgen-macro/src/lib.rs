//! No-op stand-in for the `#[wasm_bindgen]` attribute: the real crate needs `bumpalo`, which is not in the offline
//! cargo cache.  The bridge file only forwards calls, so an identity attribute is a faithful substitute for analysis.
extern crate proc_macro;
use proc_macro::TokenStream;

#[proc_macro_attribute]
pub fn wasm_bindgen(_attr: TokenStream, item: TokenStream) -> TokenStream {
    item
}
